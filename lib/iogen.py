"""Behaviours of ReplicaIO.tla by TLC simulation (T2 source for C05)."""
import json
import os
import random
import re
import common


def behaviours(n, seed, depth=14, timeout=600):
    cfgname = "ReplicaIO_gen.cfg"
    p = os.path.join(common.SPECS, "bft", cfgname)
    with open(p, "w") as f:
        f.write(open(os.path.join(common.SPECS, "bft", "ReplicaIO.cfg")).read().replace("Depth = 14", f"Depth = {depth}"))
    try:
        r = common.tlc("bft", "ReplicaIO", cfg=cfgname, workers=4, timeout=timeout, simulate=max(4, n // 3), depth=depth + 1, seed=seed, xmx="8g")
    finally:
        os.remove(p)
    if r.violated:
        raise common.ToolError(f"ReplicaIO.tla violates {r.violated} (single-replica C05 properties on the specification):\n" + r.out[-2000:])
    behs = r.printed("BEHAVIOUR")
    if not behs:
        raise common.ToolError("ReplicaIO simulation printed no behaviour:\n" + r.out[-1500:])
    # TLC evaluates the printing invariant on every candidate successor: keep a seeded sample of distinct behaviours
    uniq = list({json.dumps(b, sort_keys=True): b for b in behs}.values())
    rnd = random.Random(seed)
    rnd.shuffle(uniq)
    return uniq[:n], r.generated

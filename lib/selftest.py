"""Binding demonstration (./check selftest): for every trace specification, a freshly recorded trace of the real code is accepted,
and the same trace with ONE recorded field corrupted, one event dropped or one message moved before its durable write is rejected by TLC.
A trace spec that accepted a corrupted trace would constrain nothing. Exit 0 iff every clean trace is accepted and every corruption is rejected."""
import copy
import json
import os
import common
from common import log
import bftcommon


def _load(path):
    return [json.loads(l) for l in open(path) if l.strip()]


def _save(path, evs):
    with open(path, "w") as f:
        for e in evs:
            f.write(json.dumps(e) + "\n")


def _bft_mutations(evs):
    """yields (name, corrupted events)"""
    steps = [i for i, e in enumerate(evs) if e["e"] == "step" and e.get("ok") and not e.get("died")]
    # (a) post-state view bumped on a mid-trace accepted step
    i = steps[len(steps) // 2]
    m = copy.deepcopy(evs)
    m[i]["post"]["view"] += 1
    yield "post.view+1", m
    # (b) an outbound signed vote recorded as having left before the durable write that covers it
    for i in steps:
        outs = evs[i].get("out", [])
        du = evs[i].get("durs", [])
        ks = [k for k, o in enumerate(outs) if o.get("pb", 0) >= 1 and len(du) > o["pb"] and
              ((o["m"]["t"] == "commit" and du[0]["hv"] != du[o["pb"]]["hv"]) or
               (o["m"]["t"] == "timeout" and (du[0]["view"], du[0]["phase"]) != (du[o["pb"]]["view"], du[o["pb"]]["phase"])))]
        if ks:
            m = copy.deepcopy(evs)
            m[i]["out"][ks[0]]["pb"] = 0
            yield "message before its durable write", m
            break
    # (c) an emitted message removed from the record
    for i in reversed(steps):
        if evs[i].get("out"):
            m = copy.deepcopy(evs)
            m[i]["out"] = m[i]["out"][1:]
            yield "emitted message dropped", m
            break
    # (d) an accepted step's verdict flipped
    i = steps[len(steps) // 3]
    m = copy.deepcopy(evs)
    m[i]["ok"] = False
    yield "ok flipped", m
    # (e) a state-changing event removed
    for i in steps[5:]:
        prev = [j for j in range(i) if evs[j]["e"] == "step" and evs[j]["r"] == evs[i]["r"]]
        if prev and evs[prev[-1]]["post"] != evs[i]["post"]:
            m = evs[:i] + evs[i + 1:]
            yield "state-changing event removed", m
            break
    # (f) high commit certificate replaced by one nobody formed
    i = steps[len(steps) // 2]
    m = copy.deepcopy(evs)
    m[i]["post"]["hcq"] = {"num": 1, "pay": "zz", "view": m[i]["post"]["view"] + 3}
    yield "unbacked high certificate", m


def _generic(evs, edits):
    for name, fn in edits:
        m = copy.deepcopy(evs)
        if fn(m):
            yield name, m


def run(seed):
    common.cargo_build()
    d = common.outdir("selftest")
    results = []
    bad = 0

    def expect(label, accepted, want_accept):
        nonlocal bad
        okk = accepted == want_accept
        results.append((label, "accepted" if accepted else "rejected", "OK" if okk else "UNEXPECTED"))
        log(f"[selftest] {label}: {'accepted' if accepted else 'rejected'} ({'as expected' if okk else 'UNEXPECTED'})")
        if not okk:
            bad += 1

    # ---- TraceChonky
    trace = os.path.join(d, "bft.ndjson")
    rep = os.path.join(d, "bft.json")
    common.run_bin("bft_drive", ["random", trace, rep, seed * 7 + 3, 250, "W4c", "0"], timeout=600)
    evs = _load(trace)
    expect("TraceChonky clean", bftcommon.validate_trace(trace, "TraceChonky.cfg")["ok"], True)
    for name, m in _bft_mutations(evs):
        p = os.path.join(d, "bft_mut.ndjson")
        _save(p, m)
        try:
            ok = bftcommon.validate_trace(p, "TraceChonky.cfg")["ok"]
        except common.ToolError:
            ok = False  # trace not consumed
        expect(f"TraceChonky {name}", ok, False)

    # ---- TraceStore
    import props.c08 as c08
    trace = os.path.join(d, "store.ndjson")
    common.run_bin("blockstore_drv", [trace, os.path.join(d, "store.json"), seed + 5, 200, 12, "mixed"], timeout=600)
    evs = _load(trace)
    expect("TraceStore clean", c08._validate(trace)[0] is None, True)

    def st_pnext(m):
        qs = [e for e in m if e["e"] == "quiet" and e["pnext"] > 1]
        if not qs:
            return False
        qs[len(qs) // 2]["pnext"] -= 1
        return True

    def st_block(m):
        qs = [e for e in m if e["e"] == "quiet" and len(e["blocks"]) >= 2]
        if not qs:
            return False
        b = qs[len(qs) // 2]["blocks"][-1]
        b["id"] = 1 if b["id"] != 1 else 2
        return True

    def st_ret(m):
        qs = [e for e in m if e["e"] == "quiet" and any(r["ok"] for r in e["returns"])]
        if not qs:
            return False
        e = qs[len(qs) // 2]
        e["blocks"] = [b for b in e["blocks"] if b["n"] != [r for r in e["returns"] if r["ok"]][0]["n"]]
        return True

    for name, m in _generic(evs, [("persisted frontier moved back", st_pnext), ("stored block replaced", st_block), ("acknowledged block unreadable", st_ret)]):
        p = os.path.join(d, "store_mut.ndjson")
        _save(p, m)
        try:
            ok = c08._validate(p)[0] is None
        except common.ToolError:
            ok = False
        expect(f"TraceStore {name}", ok, False)

    # ---- TraceFetch
    import props.c19 as c19
    trace = os.path.join(d, "fetch.ndjson")
    common.run_bin("fetch_drv", [trace, os.path.join(d, "fetch.json"), seed + 9, 200, 4, 3], timeout=600)
    evs = _load(trace)
    expect("TraceFetch clean", c19._validate(trace)[0] is None, True)

    def f_hand(m):
        hs = [e for e in m if e["e"] == "hand"]
        if not hs:
            return False
        ps = m[0]["peers"]
        h = hs[len(hs) // 2]
        h["n"] = h["n"] + 1 if h["n"] < m[0]["nblocks"] else h["n"] - 1
        return True

    def f_pending(m):
        qs = [e for e in m if e["e"] == "quiet" and e["pending"]]
        if not qs:
            return False
        qs[len(qs) // 2]["pending"] = qs[len(qs) // 2]["pending"][1:]
        return True

    def f_drop_announce(m):
        idx = [i for i, e in enumerate(m) if e["e"] == "announce" and e["s"]]
        if not idx:
            return False
        for i in idx:
            m[i]["s"] = []
        return True

    for name, m in _generic(evs, [("handed a different block", f_hand), ("pending request lost", f_pending), ("announcements erased", f_drop_announce)]):
        p = os.path.join(d, "fetch_mut.ndjson")
        _save(p, m)
        try:
            ok = c19._validate(p)[0] is None
        except common.ToolError:
            ok = False
        expect(f"TraceFetch {name}", ok, False)

    # ---- TraceLimiter
    import props.c15 as c15
    trace = os.path.join(d, "lim.ndjson")
    common.run_bin("limiter_drv", [trace, os.path.join(d, "lim.json"), seed + 2, 16, 5, 10000000], timeout=600)
    evs = _load(trace)
    expect("TraceLimiter clean", c15._validate(trace)[0] == "ok", True)

    def l_early(m):
        gs = [e for e in m if e["e"] == "grant"]
        calls = {(e["run"], e["id"]): e for e in m if e["e"] == "call"}
        late = [g for g in gs if g["t"] > calls[(g["run"], g["id"])]["t"]]
        if not late:
            return False
        g = late[len(late) // 2]
        g["t"] = calls[(g["run"], g["id"])]["t"]
        return True

    def l_order(m):
        gi = [i for i, e in enumerate(m) if e["e"] == "grant"]
        for a, b in zip(gi, gi[1:]):
            if m[a]["run"] == m[b]["run"] and m[a]["id"] != m[b]["id"]:
                m[a]["id"], m[b]["id"] = m[b]["id"], m[a]["id"]
                m[a]["k"], m[b]["k"] = m[b]["k"], m[a]["k"]
                return True
        return False

    for name, m in _generic(evs, [("grant earlier than the refill allows", l_early), ("grants out of FIFO order", l_order)]):
        p = os.path.join(d, "lim_mut.ndjson")
        _save(p, m)
        try:
            ok = c15._validate(p)[0] == "ok"
        except common.ToolError:
            ok = False
        expect(f"TraceLimiter {name}", ok, False)

    # ---- TraceMux
    import props.c14 as c14
    trace = os.path.join(d, "mux.ndjson")
    common.run_bin("mux_drv", [trace, os.path.join(d, "mux.json"), seed + 4], timeout=600)
    evs = _load(trace)
    expect("TraceMux clean", c14._validate(trace)[0] == "ok", True)

    def m_intact(m):
        a = [e for e in m if e["e"] == "accepted" and e["intact"]]
        if not a:
            return False
        a[len(a) // 2]["intact"] = False
        return True

    def m_cap(m):
        a = [e for e in m if e["e"] == "accepted" and e["cap"] == e["from_cap"]]
        if not a:
            return False
        e = a[len(a) // 2]
        e["cap"] = (e["cap"] + 1) % len(m[0]["caps"])
        return True

    for name, m in _generic(evs, [("payload not intact", m_intact), ("stream delivered on another capability", m_cap)]):
        p = os.path.join(d, "mux_mut.ndjson")
        _save(p, m)
        try:
            ok = c14._validate(p)[0] == "ok"
        except common.ToolError:
            ok = False
        expect(f"TraceMux {name}", ok, False)

    # ---- TraceMuxWrite (the write half under back-pressure: mux_drv's fifth argument)
    wtrace = os.path.join(d, "muxw.ndjson")
    common.run_bin("mux_drv", [os.path.join(d, "mux2.ndjson"), os.path.join(d, "mux2.json"), seed + 5, "-", wtrace], timeout=600)
    evs = _load(wtrace)
    expect("TraceMuxWrite clean", c14._validate_write(wtrace)[0] is None, True)

    def w_hole(m):
        g = [e for e in m if e["e"] == "got"]
        if not g or len(g[0]["cells"]) < 8:
            return False
        del g[0]["cells"][len(g[0]["cells"]) // 2]          # one cell of the stream is missing
        return True

    def w_dup(m):
        g = [e for e in m if e["e"] == "got"]
        if not g or len(g[0]["cells"]) < 8:
            return False
        k = len(g[0]["cells"]) // 3
        g[0]["cells"].insert(k, g[0]["cells"][k])             # one cell twice
        return True

    def w_ok(m):
        w = [e for e in m if e["e"] == "w" and not e["ok"] and e["n"] >= 2]
        if not w:
            return False
        w[0]["ok"] = True                                     # a write that gave up is recorded as completed
        return True

    for name, m in _generic(evs, [("a cell missing from the stream", w_hole), ("a cell delivered twice", w_dup), ("a failed write recorded as completed", w_ok)]):
        p = os.path.join(d, "muxw_mut.ndjson")
        _save(p, m)
        try:
            ok = c14._validate_write(p)[0] is None
        except common.ToolError:
            ok = False
        expect(f"TraceMuxWrite {name}", ok, False)

    # ---- TraceEpochs
    trace = os.path.join(d, "epochs.ndjson")
    common.run_bin("epoch_drv", [trace, os.path.join(d, "epochs.json"), seed + 6, 160, 3, 3], timeout=600)
    evs = _load(trace)
    expect("TraceEpochs clean", c08._validate_epochs(trace)[0] is None, True)

    def e_res(m):
        o = [e for e in m if e["e"] == "offer" and e["res"] == "err" and e["kind"] == "final"]
        if not o:
            return False
        o[len(o) // 2]["res"] = "ok"
        return True

    def e_exp(m):
        t = [e for e in m if e["e"] in ("tick", "restart") and len(e["snap"]["sched"]) >= 2]
        if not t:
            return False
        t[len(t) // 2]["snap"]["sched"][0]["exp"] += 1
        return True

    def e_next(m):
        o = [e for e in m if e["e"] == "offer" and e["res"] == "ok" and e["snap"]["next"] == e["before"]["next"] + 1]
        if not o:
            return False
        o[len(o) // 2]["snap"]["next"] -= 1
        return True

    for name, m in _generic(evs, [("refused block recorded as admitted", e_res), ("expiration shifted", e_exp), ("next number not advanced", e_next)]):
        p = os.path.join(d, "epochs_mut.ndjson")
        _save(p, m)
        try:
            ok = c08._validate_epochs(p)[0] is None
        except common.ToolError:
            ok = False
        expect(f"TraceEpochs {name}", ok, False)

    # ---- TraceRpcRate
    trace = os.path.join(d, "rpc.ndjson")
    common.run_bin("rpc_drv", [trace, os.path.join(d, "rpc.json"), seed + 8, 2, 10000000, "hammer", 40], timeout=600)
    evs = _load(trace)
    expect("TraceRpcRate clean", c15._validate_rpc(trace)[0] == "ok", True)

    def r_squeeze(m):
        st = [e for e in m if e["e"] == "start" and e["rpc"] == "consensus"]
        if len(st) < 12:
            return False
        t0 = st[0]["t"]
        for e in m:
            if e["e"] in ("start", "end") and e["rpc"] == "consensus":
                e["t"] = t0
        return True

    def r_inflight(m):
        idx = [i for i, e in enumerate(m) if e["e"] == "end" and e["rpc"] == "ping"]
        if len(idx) < 3:
            return False
        # move an `end` of ping after the next `start`: two pings in flight
        i = idx[1]
        j = next((k for k in range(i + 1, len(m)) if m[k]["e"] == "start" and m[k]["rpc"] == "ping"), None)
        if j is None:
            return False
        e = m.pop(i)
        e["t"] = m[j - 1]["t"]
        m.insert(j, e)
        return True

    for name, m in _generic(evs, [("all consensus calls at one instant", r_squeeze), ("two pings in flight", r_inflight)]):
        p = os.path.join(d, "rpc_mut.ndjson")
        _save(p, m)
        try:
            ok = c15._validate_rpc(p)[0] == "ok"
        except common.ToolError:
            ok = False
        expect(f"TraceRpcRate {name}", ok, False)

    # ---- TraceAddrDial
    import nodeaddrs
    rep_a, traces_a = nodeaddrs.record(d, seed + 9, 1, 50)
    trace = traces_a[0]
    evs = _load(trace)
    expect("TraceAddrDial clean", nodeaddrs.validate(trace)[0] is None, True)

    def a_dial(m):
        dl = [e for e in m if e["e"] == "dial"]
        if not dl:
            return False
        e = dl[len(dl) // 2]
        held = {x["a"] for b in m if b["e"] == "batch" for x in b["entries"] if x["k"] == e["m"]}
        free = [a for a in range(1, 7) if a not in held]
        e["a"] = free[0] if free else 6
        return True

    def a_book(m):
        ak = [e for e in m if e["e"] == "ack" and e["ok"] and e["book"]["v1"]["a"] != 0]
        if not ak:
            return False
        ak[len(ak) // 2]["book"]["v1"]["ver"] += 1
        return True

    def a_fwd(m):
        fw = [e for e in m if e["e"] == "fwd"]
        if not fw:
            return False
        fw[len(fw) // 2]["genuine"] = False
        return True

    def a_nodial(m):
        # remove every dial after the first accepted batch: the connection loops never caught up
        first = next((i for i, e in enumerate(m) if e["e"] == "dial"), None)
        if first is None:
            return False
        m[:] = [e for i, e in enumerate(m) if e["e"] != "dial"]
        return True

    for name, m in _generic(evs, [("dial to an address never stored", a_dial), ("book entry differs after an accepted batch", a_book), ("forged announcement forwarded", a_fwd), ("connection loops never dial", a_nodial)]):
        p = os.path.join(d, "addr_mut.ndjson")
        _save(p, m)
        try:
            ok = nodeaddrs.validate(p)[0] is None
        except common.ToolError:
            ok = False
        expect(f"TraceAddrDial {name}", ok, False)

    with open(os.path.join(common.OUT, "selftest.json"), "w") as f:
        json.dump([{"case": a, "tlc": b, "verdict": c} for a, b, c in results], f, indent=1)
    log(f"[selftest] {len(results)} cases, {bad} unexpected")
    return 0 if bad == 0 else 2

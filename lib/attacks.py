"""T4: weakened-spec attack schedules. For every safety mechanism named in the property anchors, the mechanism is switched
off in the SPEC (CONSTANT Weaken), TLC finds a counterexample to a property on the weakened spec, and the counterexample's
environment actions (VIEW-hidden lastAct) are exported as a schedule that is replayed on the REAL code: on the correct tree the
attack fizzles; on a tree where the mechanism is broken it reproduces the violation on real outputs."""
import json
import os
import common
from common import log

SCEN_DIR = os.path.join(common.SCEN, "bft")

VARIANTS = {
    "a": ("{1,3,4}", "{2}", [2]),
    "b": ("{1,2,4}", "{3}", [3]),
    "c": ("{1,2,3}", "{4}", [4]),
}
STD_INVS = "TypeOK Agreement CertUnique NoCommitEquivocation DurableBeforeVisible ViewJustified HeldCertsBacked SelfJustifying"

# weaken -> list of (variant, maxcrash, maxview, properties served)
CATALOGUE = {
    "no_phase_gate": [("a", 0, 2)],
    "no_leader_check": [("c", 0, 2)],
    "no_reproposal_rule": [("b", 0, 2)],
    "no_reproposal_rule_proposer": [("c", 0, 2), ("b", 0, 2)],
    "subquorum_minus_1": [("b", 0, 2), ("a", 0, 3)],
    "quorum_minus_1": [("a", 0, 2), ("b", 0, 2)],
    "high_qc_min_instead_of_max": [("b", 0, 3), ("a", 0, 3)],
    "repropose_when_geq": [("b", 0, 3)],
    "timeout_reports_stale_high_vote": [("b", 0, 2), ("c", 0, 2)],
    "accept_unverified_block_in_sync": [("c", 0, 2)],
    "accept_older_qc": [("c", 0, 2), ("a", 0, 2)],
    "send_before_persist": [("a", 1, 2)],
    "no_persist_on_timeout": [("a", 1, 2), ("c", 1, 2)],
    "restart_forgets_phase": [("a", 1, 2)],
    "restart_forgets_high_vote": [("b", 1, 2), ("a", 1, 2)],
    "justification_prefers_timeout": [("c", 0, 2)],
    # 4th element: the invariants to violate (default: all of STD_INVS, shortest counterexample of any of them)
    "tqc_stale_votes": [("b", 0, 2, "Agreement")],
    "high_vote_keeps_older_same_number": [("b", 0, 3, "CertUnique")],
    # liveness weakening: the target is the stuck-candidate predicate, the verdict comes from the good-period continuation (C06)
    "backup_before_justification": [("b", 1, 2, "NoStuckCandidate")],
    # a second schedule for one weakening: key = weaken@tag
    "send_before_persist@agreement": [("a", 1, 2, "Agreement")],
    "no_persist_on_timeout@certunique": [("a", 1, 2, "CertUnique")],
}


# faithful-spec behaviours reaching interesting states (T2): name -> (example predicate that must be VIOLATED, variant, maxcrash)
EXAMPLES = {
    "block_committed": ("NoBlockCommitted", "c", 0),
    "two_blocks": ("NoTwoBlocks", "c", 0),
    "reproposal": ("NoReproposal", "c", 0),
    "block_committed_byz_leader": ("NoBlockCommitted", "a", 0),
    "reproposal_byz": ("NoReproposal", "b", 0),
    "two_blocks_after_crash": ("NoTwoBlocksAfterCrash", "c", 1),
}


def _cfg_text(variant, weaken, maxcrash, maxview, init="InitView1", invs=None, props=True):
    correct, faulty, _ = VARIANTS[variant]
    return f'''CONSTANTS
  Validators = {{1,2,3,4}}
  Weight <- W3111
  Correct = {correct}
  Faulty = {faulty}
  Payloads = {{"p","q"}}
  BadPayloads = {{}}
  Weaken = "{weaken}"
  MaxView = {maxview}
  ViewCap = {maxview}
  HonestPayloads <- Alternating
  EnableLeaderNV = FALSE
  MaxCrash = {maxcrash}
  MaxBlocks = 2
INIT {init}
NEXT NextMC
VIEW MCView
CONSTRAINT Bound
INVARIANTS {invs or STD_INVS}
''' + ("PROPERTIES StoreAppendOnly SignedViewsMonotone Monotone\n" if props else "")


def generate(weaken, variant, maxcrash, maxview, cap=180, invs=None):
    """Returns scenario dict or None if TLC finds no counterexample within the cap."""
    d = os.path.join(common.OUT, "attacks")
    os.makedirs(d, exist_ok=True)
    cfgname = f"MC_attack_{weaken}_{variant}.cfg"
    cfgpath = os.path.join(common.SPECS, "bft", cfgname)
    with open(cfgpath, "w") as f:
        f.write(_cfg_text(variant, weaken, maxcrash, maxview, invs=invs, props=invs is None))
    dump = os.path.join(d, f"{weaken}_{variant}_{invs or 'std'}.json")
    if os.path.exists(dump):
        os.remove(dump)
    try:
        r = common.tlc("bft", "MC_Chonky", cfg=cfgname, workers=12, timeout=cap, xmx="16g", dump_trace=dump)
    finally:
        os.remove(cfgpath)
    if not r.violated or not os.path.exists(dump):
        return None
    ce = json.load(open(dump))["counterexample"]["state"]
    acts = [s[1]["lastAct"] for s in ce if s[1]["lastAct"]["a"] != "init"]
    return {"weaken": weaken, "violates": r.violated, "variant": variant,
            "config": {"weights": [3, 1, 1, 1], "faulty": VARIANTS[variant][2]},
            "init": "view1", "acts": acts, "suffix": True, "spec_states_to_find": r.distinct,
            "note": "counterexample of the WEAKENED specification; on the faithful code this schedule must not violate anything"}


# Directed schedules (MC_Guided.tla): key -> (weaken, script operator, validators, weights operator, weights, maxview, invariant)
GUIDED = {
    "high_vote_keeps_older_same_number@agreement_u6": ("high_vote_keeps_older_same_number", "StaleHighVoteU6", 6, "W111111", [1] * 6, 4, "Agreement", [], "Alternating"),
    "tqc_same_view_skips_cqc@agreement_u6": ("tqc_same_view_skips_cqc", "SecondTimeoutQCU6", 6, "W111111", [1] * 6, 4, "Agreement", [3], "AnyPayload"),
    "high_vote_tally_by_view@agreement_u6": ("high_vote_tally_by_view", "SplitTallyU6", 6, "W111111", [1] * 6, 4, "Agreement", [6], "AnyPayload"),
}


def generate_guided(key):
    weaken, script, n, wop, weights, maxview, inv, faulty, hp = GUIDED[key]
    d = os.path.join(common.OUT, "attacks")
    os.makedirs(d, exist_ok=True)
    vs = "{" + ",".join(str(i) for i in range(1, n + 1)) + "}"
    cs = "{" + ",".join(str(i) for i in range(1, n + 1) if i not in faulty) + "}"
    fs = "{" + ",".join(str(i) for i in faulty) + "}"

    def cfg(w):
        return f'''CONSTANTS
  Validators = {vs}
  Weight <- {wop}
  Correct = {cs}
  Faulty = {fs}
  Payloads = {{"p","q"}}
  BadPayloads = {{}}
  Weaken = "{w}"
  MaxView = {maxview}
  ViewCap = {maxview}
  HonestPayloads <- {hp}
  EnableLeaderNV = FALSE
  MaxCrash = 0
  MaxBlocks = 2
  Script <- {script}
INIT GInit
NEXT GNext
VIEW GView
INVARIANTS {inv}
CHECK_DEADLOCK FALSE
'''
    cfgname = f"MC_guided_{script}.cfg"
    cfgpath = os.path.join(common.SPECS, "bft", cfgname)
    dump = os.path.join(d, f"guided_{script}.json")
    try:
        # the faithful specification must survive the same script (otherwise the script shows nothing)
        with open(cfgpath, "w") as f:
            f.write(cfg("none"))
        r0 = common.tlc("bft", "MC_Guided", cfg=cfgname, workers=4, timeout=600, xmx="8g")
        if r0.violated:
            raise common.ToolError(f"guided script {script}: the FAITHFUL specification violates {r0.violated} - needs triage")
        with open(cfgpath, "w") as f:
            f.write(cfg(weaken))
        if os.path.exists(dump):
            os.remove(dump)
        r = common.tlc("bft", "MC_Guided", cfg=cfgname, workers=4, timeout=600, xmx="8g", dump_trace=dump)
    finally:
        os.remove(cfgpath)
    if not r.violated or not os.path.exists(dump):
        return None
    ce = json.load(open(dump))["counterexample"]["state"]
    acts = [s[1]["lastAct"] for s in ce if s[1]["lastAct"]["a"] != "init"]
    return {"weaken": weaken, "violates": r.violated, "variant": script, "config": {"weights": weights, "faulty": faulty},
            "init": "view1", "acts": acts, "suffix": True, "spec_states_to_find": r.distinct,
            "note": "DIRECTED schedule (MC_Guided.tla): the script fixes which action happens at which replica, TLC checks it is a behaviour of the WEAKENED "
                    "specification violating the invariant (and that the faithful specification survives the same script); on the faithful code it must not violate anything"}


def regen():
    os.makedirs(SCEN_DIR, exist_ok=True)
    found = 0
    for key in GUIDED:
        got = generate_guided(key)
        path = os.path.join(SCEN_DIR, f"attack_{key.replace('@', '_')}.json")
        if got:
            with open(path, "w") as f:
                json.dump(got, f, indent=1)
            found += 1
            log(f"[regen] guided {key}: {got['violates']} violated with {len(got['acts'])} actions")
        else:
            log(f"[regen] guided {key}: no counterexample (no scenario written)")
    for key, tries in CATALOGUE.items():
        weaken = key.split("@")[0]
        got = None
        for t in tries:
            (variant, maxcrash, maxview) = t[:3]
            got = generate(weaken, variant, maxcrash, maxview, cap=600 if len(t) > 3 else 180, invs=t[3] if len(t) > 3 else None)
            if got:
                break
        path = os.path.join(SCEN_DIR, f"attack_{key.replace('@', '_')}.json")
        if got:
            with open(path, "w") as f:
                json.dump(got, f, indent=1)
            found += 1
            log(f"[regen] {weaken}: {got['violates']} violated on variant {got['variant']} with {len(got['acts'])} actions")
        else:
            log(f"[regen] {weaken}: no counterexample within the cap (no scenario written)")
    for name, (inv, variant, maxcrash) in EXAMPLES.items():
        got = generate("none", variant, maxcrash, 2, cap=300, invs=inv)
        path = os.path.join(SCEN_DIR, f"example_{name}.json")
        if got:
            got["note"] = "behaviour of the FAITHFUL specification (shortest trace violating the example predicate); replayed on the real code step by step (T2)"
            got["example"] = name
            with open(path, "w") as f:
                json.dump(got, f, indent=1)
            found += 1
            log(f"[regen] example {name}: {len(got['acts'])} actions")
        else:
            raise common.ToolError(f"example predicate {inv} is not violated on the faithful spec: the model is vacuous for it")
    return found


def scenarios():
    if not os.path.isdir(SCEN_DIR):
        return []
    return sorted(os.path.join(SCEN_DIR, f) for f in os.listdir(SCEN_DIR) if f.endswith(".json"))

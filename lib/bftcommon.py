"""Shared machinery of the BFT properties (C01, C02, C03, C05, C06, C16): seeded random driver on the real
StateMachines, trace validation against TraceChonky.tla with a per-property invariant selection, TLC model runs."""
import json
import os
import re
import time
import common
from common import log

CONFIGS_QUICK = [("W4a", 500), ("W4b", 400), ("W4c", 400), ("U6", 400), ("H4", 300)]
CONFIGS_THOROUGH = [("W4a", 900), ("W4b", 900), ("W4c", 900), ("U6", 900), ("U6a", 900), ("W5b", 900), ("H4", 600), ("H6", 600)]


def run_random(prop, seed, tier, suffix=True, suffix_mode=1, tag=""):
    """Runs the random driver for every config; returns list of dict(config, seed, steps, trace, report)."""
    common.cargo_build()
    d = common.outdir(prop, "traces")
    runs = []
    cfgs = CONFIGS_QUICK if tier == "quick" else CONFIGS_THOROUGH
    nseeds = 2 if tier == "quick" else 8
    for (cfg, steps) in cfgs:
        for k in range(nseeds):
            s = seed * 1000 + k
            trace = os.path.join(d, f"{cfg}_{s}{tag}.ndjson")
            rep = os.path.join(d, f"{cfg}_{s}{tag}.json")
            rc, so, se = common.run_bin("bft_drive", ["random", trace, rep, s, steps, cfg, str(suffix_mode) if suffix else "0"], timeout=900)
            if rc != 0 and not os.path.exists(rep):
                raise common.ToolError(f"bft_drive failed rc={rc} cfg={cfg} seed={s}: {se[-800:]}")
            runs.append({"config": cfg, "seed": s, "steps": steps, "trace": trace, "report": common.load_report(rep), "suffix": suffix_mode if suffix else 0})
    return runs


_BRIEF_DIFF = re.compile(r'diff (?:=|\|->)\s*\[\s*l \|-> (\d+),\s*what \|->\s*"([^"]*)"')
_BAD = re.compile(r'l \|-> (\d+),\s*p \|-> "(C\d+)",\s*what \|->\s*"([^"]*)"')


def validate_trace(trace, cfg_name):
    """Runs TLC on TraceChonky with the given cfg. Returns dict(ok, events, violated, diff, bad, consumed)."""
    r = common.tlc("bft", "TraceChonky", cfg=cfg_name, workers=1, timeout=900, env_extra={"TRACE": trace}, dfs=True,
                   xss="1g", xmx="4g")
    res = {"ok": r.ok, "states": r.distinct, "violated": r.violated, "diff": None, "bad": [], "out_tail": r.out[-1500:]}
    if r.violated:
        ms = list(_BRIEF_DIFF.finditer(r.out))
        if ms and ms[-1].group(2) != "none":
            res["diff"] = {"event": int(ms[-1].group(1)), "what": ms[-1].group(2)}
        seen = set()
        for m in re.finditer(r'\[[^\[\]]*p \|-> "C\d+"[^\[\]]*\]', r.out, re.S):
            rec = m.group(0)
            ml = re.search(r'\bl \|-> (\d+)', rec)
            mp = re.search(r'\bp \|-> "(C\d+)"', rec)
            mw = re.search(r'what \|->\s*"([^"]*)"', rec)
            if ml and mp and mw:
                k = (int(ml.group(1)), mp.group(1), mw.group(1))
                if k not in seen:
                    seen.add(k)
                    res["bad"].append({"event": k[0], "property": k[1], "what": k[2]})
    if "TRACE-NOT-CONSUMED" in r.out and not r.violated:
        raise common.ToolError("trace not consumed by TraceChonky (malformed event?):\n" + r.out[-1500:])
    return res


def validate_runs(prop, runs, cfg_name, want_props):
    """Validates every run's trace; raises Violation on the first property-level finding for `want_props`
    (or non-conformance when 'conf' in want_props). Returns (n_traces, n_events)."""
    n_events = 0
    for run in runs:
        v = validate_trace(run["trace"], cfg_name)
        n_events += v["states"]
        if v["ok"]:
            continue
        hit = None
        for b in v["bad"]:
            if b["property"] in want_props:
                hit = f"{b['what']} (event {b['event']} of the recorded trace)"
                break
        if hit is None and v["diff"] and "conf" in want_props:
            hit = f"replica deviates from the ChonkyBFT replica specification: {v['diff']['what']} (event {v['diff']['event']})"
        if hit is None:
            raise common.ToolError(f"trace validation failed without a finding for {prop}: {v['violated']}\n{v['out_tail']}")
        keep = os.path.join(common.outdir(prop, "replay"), os.path.basename(run["trace"]))
        os.replace(run["trace"], keep)
        if run.get("io"):
            kb = os.path.join(common.outdir(prop, "replay"), "io_behaviours.ndjson")
            os.replace(os.path.join(os.path.dirname(run["trace"]), "io_behaviours.ndjson"), kb)
            path = common.write_replay(prop, "trace_violation", {"property": prop, "mode": "io", "behaviours": kb, "what": hit, "trace": keep, "cfg": cfg_name})
            raise common.Violation(prop, hit, path)
        path = common.write_replay(prop, "trace_violation", {"property": prop, "mode": "scenario" if run.get("scenario") else "random",
                                                             "scenario": run.get("scenario"), "config": run["config"],
                                                             "seed": run["seed"], "steps": run["steps"], "suffix": run.get("suffix", 1), "what": hit,
                                                             "trace": keep, "cfg": cfg_name})
        raise common.Violation(prop, hit, path)
    return len(runs), n_events


def driver_failures(prop, runs, keys):
    fails = []
    for run in runs:
        for f in run["report"]["failures"]:
            if f["key"] in keys:
                fails.append(f)
    common.handle_failures(prop, fails, "driver_failure")


def counters(runs):
    tot = {}
    for run in runs:
        for k, v in run["report"]["counters"].items():
            if k.startswith("class:ERR"):
                k = "class:ERR"
            tot[k] = tot.get(k, 0) + v
    return tot


def model(prop, cfgs, workers=12, timeout=600):
    """Runs MC_Chonky on each cfg name. Returns list of dict(cfg, states, transitions, depth, exhaustive, wall).
    A violation on the faithful spec is reported as V-model only after confirmation (here: ToolError asking for triage,
    since a counterexample on the faithful model is first of all a modelling question, DESIGN §2)."""
    res = []
    for cfg in cfgs:
        tmo = timeout
        if isinstance(cfg, tuple):
            cfg, tmo = cfg
        r = common.tlc("bft", "MC_Chonky", cfg=cfg + ".cfg", workers=workers, timeout=tmo, xmx="16g")
        if r.violated:
            raise common.ToolError(f"faithful model {cfg} violates {r.violated} — needs triage (model vs code):\n" + r.out[-3000:])
        res.append({"cfg": cfg, "states": r.distinct, "transitions": r.generated, "depth": r.depth,
                    "exhaustive": (not r.timed_out) and r.queue == 0, "wall_s": round(r.wall, 1)})
        log(f"[{prop}] model {cfg}: {r.distinct} distinct states, {r.generated} generated, depth {r.depth}, "
            f"{'complete' if not r.timed_out else 'cut by time cap'} in {r.wall:.0f}s")
    return res


def replay_random(prop, path, cfg_name, want_props):
    c = json.load(open(path))
    common.cargo_build()
    d = common.outdir(prop, "replay")
    trace = os.path.join(d, "replay.ndjson")
    rep = os.path.join(d, "replay_report.json")
    if c.get("mode") == "io":
        common.run_bin("bft_drive", ["io", c["behaviours"], trace, rep], timeout=900)
        run = {"config": "replica_io", "seed": 0, "steps": 0, "trace": trace, "report": common.load_report(rep), "io": True}
        import shutil
        shutil.copy(c["behaviours"], os.path.join(d, "io_behaviours.ndjson"))
        validate_runs(prop, [run], cfg_name, want_props)
        log("replay: no violation reproduced")
        return 0
    if c.get("mode") == "scenario":
        common.run_bin("bft_drive", ["replay", c["scenario"], trace, rep], timeout=900)
    else:
        common.run_bin("bft_drive", ["random", trace, rep, c["seed"], c["steps"], c["config"], str(c.get("suffix", 1))], timeout=900)
    run = {"config": c["config"], "seed": c.get("seed", 0), "steps": c.get("steps", 0), "trace": trace, "report": common.load_report(rep),
           "scenario": c.get("scenario")}
    driver_failures(prop, [run], {"panic", "no_progress"} if prop == "C06" else {"panic"})
    validate_runs(prop, [run], cfg_name, want_props)
    log("replay: no violation reproduced")
    return 0


def run_scenarios(prop):
    """Replays every committed scenario (T4 attacks from weakened specs, T2 examples of the faithful spec) on the real code."""
    import attacks
    common.cargo_build()
    d = common.outdir(prop, "traces")
    runs = []
    for scn in attacks.scenarios():
        name = os.path.basename(scn)[:-5]
        trace = os.path.join(d, f"scn_{name}.ndjson")
        rep = os.path.join(d, f"scn_{name}.json")
        rc, so, se = common.run_bin("bft_drive", ["replay", scn, trace, rep], timeout=600)
        if rc != 0 and not os.path.exists(rep):
            raise common.ToolError(f"bft_drive replay failed rc={rc} scenario={name}: {se[-800:]}")
        runs.append({"config": "scenario:" + name, "seed": 0, "steps": 0, "trace": trace, "report": common.load_report(rep),
                     "scenario": scn})
    return runs


def run_io(prop, tier, seed):
    """T2 for the single replica: behaviours of ReplicaIO.tla replayed on a real StateMachine (all peers played by the harness)."""
    import iogen
    common.cargo_build()
    d = common.outdir(prop, "traces")
    n = 150 if tier == "quick" else 1500
    behs, gen = iogen.behaviours(n, seed, timeout=300 if tier == "quick" else 2400)
    bp = os.path.join(d, "io_behaviours.ndjson")
    common.write_ndjson(bp, behs)
    trace = os.path.join(d, "io_trace.ndjson")
    rep = os.path.join(d, "io_report.json")
    rc, so, se = common.run_bin("bft_drive", ["io", bp, trace, rep], timeout=(600 if tier == "quick" else 3000))
    if rc != 0 and not os.path.exists(rep):
        raise common.ToolError(f"bft_drive io failed: {se[-800:]}")
    r = common.load_report(rep)
    return {"config": "replica_io", "seed": seed, "steps": 0, "trace": trace, "report": r, "io": True, "behaviours": len(behs), "spec_states": gen}


def run_property(prop, tier, seed, model_cfgs_quick, model_cfgs_thorough, trace_cfg, want_props, driver_keys,
                 rule, assumptions, suffix=True, model_timeout_quick=200, model_timeout_thorough=3000, extra=None, with_io=False):
    """Generic BFT property check: TLC on the system model + random driver traces validated by TLC."""
    t0 = time.time()
    cfgs = model_cfgs_quick if tier == "quick" else model_cfgs_thorough
    extra_cov = extra(prop, tier, seed) if extra else {}     # cheap function-level tables first
    if os.environ.get("VERIF_MATRIX_SKIP_MODEL"):
        # tools/seed_matrix.py only: the system model does not depend on /repo, so re-checking it for every seeded change is skipped there
        log(f"[{prop}] model part skipped (VERIF_MATRIX_SKIP_MODEL)")
        mres = [{"cfg": c if isinstance(c, str) else c[0], "states": 0, "transitions": 0, "depth": 0, "exhaustive": False, "wall_s": 0.0} for c in cfgs]
    else:
        mres = model(prop, cfgs, timeout=model_timeout_quick if tier == "quick" else model_timeout_thorough)
    runs = run_random(prop, seed, tier, suffix=suffix)
    scn_runs = run_scenarios(prop)
    for sr in scn_runs:
        c = sr["report"]["counters"]
        if sr["config"].startswith("scenario:example_") and (c.get("skipped", 0) or c.get("outcome_differs", 0)):
            log(f"NOTE drift component=bft scenario={sr['config']}: {c.get('skipped',0)} step(s) of a faithful-spec behaviour could not be "
                f"materialised / {c.get('outcome_differs',0)} outcome(s) differ (conformance itself is decided by trace validation)")
    runs = runs + scn_runs
    if with_io:
        runs.append(run_io(prop, tier, seed))
    cnt = counters(runs)
    viol = 0
    try:
        driver_failures(prop, runs, driver_keys)
        ntr, nev = validate_runs(prop, runs, trace_cfg, want_props)
    except common.Violation:
        viol = 1
        ntr, nev = 0, 0
        raise
    finally:
        states = sum(m["states"] for m in mres)
        trans = sum(m["transitions"] for m in mres)
        sample_run = runs[0]["report"]["samples"][0] if runs and runs[0]["report"]["samples"] else {}
        cov = {
            "states": max(states, 1), "transitions": max(trans, 1),
            "traces_validated_against_impl": ntr,
            "samples": [sample_run, {"model_runs": mres}],
            "evaluations": cnt.get("events", 0),
            "distinct_nontrivial": len([k for k in cnt if k.startswith("class:")]) + len(mres),
            "rule": rule,
            "exhaustive": all(m["exhaustive"] for m in mres),
            "trace_events_checked_by_tlc": nev,
            "driver_counters": {k: v for k, v in cnt.items() if not k.startswith("class:ERR")},
            "scenarios_replayed": [os.path.basename(r["scenario"]) for r in scn_runs],
        }
        cov.update(extra_cov)
        common.write_evidence(prop, tier, seed, "model_checking", cov, assumptions, time.time() - t0, viol)
    log(f"[{prop}] ok: {states} model states; {ntr} traces / {nev} events validated")
    return 0

"""C18 at node level (AddrDial.tla + TraceAddrDial.tla + node_addrs): batches through the real push_validator_addrs RPC of a running node."""
import os
import re
import common
from common import log

PROP = "C18"


def model(tier):
    cfgname = "MC_AddrDial_gen.cfg"
    p = os.path.join(common.SPECS, "network", cfgname)
    members, maxts = ('{"v1"}', 1) if tier == "quick" else ('{"v1", "v2"}', 0)
    with open(p, "w") as f:
        f.write(f'CONSTANTS Members = {members} Outsiders = {{"x"}} MaxVer = 1 MaxTs = {maxts} MaxA = 2\nSPECIFICATION DSpec\n'
                'INVARIANTS HeldGenuine DialAuthentic FwdHeld\nPROPERTIES HeldMonotone DialServed\nCHECK_DEADLOCK FALSE\n')
    try:
        r = common.tlc("network", "MC_AddrDial", cfg=cfgname, workers=8, timeout=2400, xmx="8g")
    finally:
        os.remove(p)
    if not r.ok:
        raise common.ToolError("AddrDial.tla properties fail on the specification:\n" + r.out[-1500:])
    return r


def validate(trace):
    r = common.tlc("network", "TraceAddrDial", cfg="TraceAddrDial.cfg", workers=1, timeout=600, env_extra={"TRACE": trace}, dfs=True, xss="1g", xmx="4g")
    drift = r.out.count('"DRIFT"')
    if drift:
        log(f"NOTE drift component=node_addrs: the RPC outcome of {drift} batch(es) differs from the specification (acknowledged although invalid, or rejected although valid); the address book is what the property is about")
    if r.ok:
        return None, r.distinct
    m = [x for x in re.finditer(r'bad (?:=|\|->) "([^"]*)"', r.out) if x.group(1) != "none"]
    if r.violated in ("HeldGenuine", "DialAuthentic", "FwdHeld"):
        return f"invariant {r.violated} of AddrDial.tla violated on the recorded trace", r.distinct
    if m:
        return m[-1].group(1), r.distinct
    raise common.ToolError("TraceAddrDial failed without a finding:\n" + r.out[-1500:])


def record(d, seed, runs, nbatches):
    prefix = os.path.join(d, f"node_{seed}")
    rp = os.path.join(d, f"node_report_{seed}.json")
    if os.path.exists(rp):
        os.remove(rp)
    rc, so, se = common.run_bin("node_addrs", [prefix, rp, seed, runs, nbatches], timeout=1500)
    if rc != 0 and not os.path.exists(rp):
        raise common.ToolError("node_addrs failed: " + se[-800:])
    rep = common.load_report(rp)
    if any(f["key"] == "node_not_up" for f in rep["failures"]):
        raise common.ToolError("node_addrs: the node under test never came up")
    return rep, [f"{prefix}_{i}.ndjson" for i in range(runs)]


def run(tier, seed):
    """Returns (coverage dict). Raises Violation."""
    d = common.outdir(PROP, "node")
    m = model(tier)
    runs, nb = (6, 60) if tier == "quick" else (40, 120)
    rep, traces = record(d, seed, runs, nb)
    for f in rep["failures"]:
        f["case"] = {"mode": "node_addrs", "seed": seed, "case": f["case"]}
    common.handle_failures(PROP, rep["failures"], "node_failure")
    events = 0
    for t in traces:
        what, n = validate(t)
        events += n
        if what:
            path = common.write_replay(PROP, "node_trace_violation", {"property": PROP, "mode": "node_addrs", "seed": seed, "runs": runs, "batches": nb, "what": what, "trace": t})
            raise common.Violation(PROP, what, path)
    c = rep["counters"]
    if c.get("dials_observed", 0) == 0 or c.get("forwards_observed", 0) == 0 or c.get("batches_rejected", 0) == 0:
        raise common.ToolError(f"node_addrs observed nothing to judge (counters {c}) — vacuous run")
    log(f"[C18] node level: {len(traces)} runs / {events} events validated ({c.get('dials_observed')} dials, {c.get('forwards_observed')} forwards, {c.get('batches_rejected')} rejected batches)")
    return {"model_states": m.distinct, "runs": len(traces), "events_validated": events, "dials_observed": c.get("dials_observed"), "forwards_observed": c.get("forwards_observed"),
            "batches_rejected": c.get("batches_rejected"),
            "rule": "AddrDial.tla (book + connection loops + forwarders): HeldGenuine, DialAuthentic, FwdHeld, HeldMonotone, DialServed by TLC; TraceAddrDial.tla: every batch "
                    "pushed through the real push_validator_addrs RPC of a running validator node is applied to the spec, the RPC outcome and the node's book are compared after "
                    "every acknowledgement, every connection attempt of the node (one loopback listener per validator and address id) must go to an address the book held, "
                    "the connection loops must have caught up before the next batch, every forwarded announcement must have been held"}


def replay(c):
    d = common.outdir(PROP, "node")
    rep, traces = record(d, c["seed"], c["runs"], c["batches"])
    common.handle_failures(PROP, rep["failures"], "replay_failure")
    for t in traces:
        what, n = validate(t)
        if what:
            path = common.write_replay(PROP, "replay_violation", dict(c, what=what, trace=t))
            raise common.Violation(PROP, what, path)
    log("replay: no violation")
    return 0

#!/usr/bin/env python3
"""Generates /verif/MANIFEST.json from the table below (single source of truth) and validates it."""
import json
import os
import sys

ROOT = os.path.dirname(os.path.dirname(os.path.abspath(__file__)))

HOOK_COMMITS = ["b1474d3", "17f8504", "209f7d4", "d1c653d", "95035df", "920cc08", "6e834a5", "da9a5fd", "b20d73f", "6f5243c", "e421a4b"]

CHECKS = {
    "C07": {
        "category": "proof",
        "technique": "TLA+ spec Quorum.tla: theorem proved by TLAPS for all naturals + TLC re-check and case table replayed into the real functions (T3)",
        "text": "The C07 arithmetic (5f+1<=n, quorum intersections, sub-quorum bounds, all intermediates within 0..n hence "
                "no 64-bit overflow) is proved for every natural n on the TLA+ definition; the Rust functions are compared "
                "exactly with the TLC-enumerated table and with the proved-unique characterisation at 64-bit boundaries.",
        "note": "Trusted: TLAPS/SMT, TLC. The Rust code is tied to the proved function by enumeration (n<=3000/20000) and "
                "boundary/seeded sampling in u128, not by a proof about Rust.",
        "design_ref": "§7 C07",
    },
}

CHECKS["C11"] = {
    "category": "model_checking",
    "technique": "TLA+ spec Leader.tla checked by TLC over all bounded schedules; its function table replayed into the real Schedule::view_leader (T3), all listing permutations",
    "text": "Leader.tla states totality, eligibility, rotation law (freq 0 = never) and exact weight-proportionality over hash "
            "residues; TLC checks them on every schedule of the bounded space and emits the table; the real function is compared on "
            "every table entry, on every residue (views searched to realise each), on 64-bit views and weights, under every permutation.",
    "note": "Exhaustive for <=3 (quick) / <=4 (thorough) validators with weights 1..3; keccak uniformity assumed; 64-bit views by the law.",
    "design_ref": "§7 C11",
}

BFT_NOTE = ("Model bounds: weights <3,1,1,1>, one faulty weight-1 validator, views <= 2 (bootstrapped at view 1), <= 2 blocks, 2 payloads; "
            "vote collection abstracted to 'any formable certificate is receivable'. Code side: seeded schedules on real StateMachines with real "
            "BLS keys over the harness engine; unforgeability and hash collision-freedom assumed; validity labels of harness-crafted certificates trusted.")
CHECKS["C01"] = {
    "category": "model_checking",
    "technique": "TLA+ ChonkyBFT.tla checked by TLC (Agreement, StoreAppendOnly); TLC trace validation (TraceChonky.tla) of seeded adversarial runs of the real replicas (Byzantine crafting, twins), of weakened-spec attack schedules and of directed schedules (MC_Guided.tla)",
    "text": "Design-level: every interleaving / Byzantine choice of the bounded model is enumerated. Code-level: every event of every recorded run of the "
            "real StateMachines (Byzantine equivocation with real signatures, twins = further real replicas running with a faulty key, loss/dup/reorder, crashes, block sync through EngineManager) is a TLC state in "
            "which agreement and append-only are evaluated on the blocks actually persisted.",
    "note": BFT_NOTE, "design_ref": "§7 C01",
}
CHECKS["C02"] = {
    "category": "model_checking",
    "technique": "TLA+ Justification.tla: ReproposalSound checked by TLC, its certificate table replayed into real high_vote/high_qc/get_implied_block (T3); CertUnique on ChonkyBFT.tla and on validated traces",
    "text": "The re-proposal decision function is compared with the specification on every certificate of the bounded alphabet (150k+), the soundness "
            "theorem is checked on the spec, and certificate uniqueness is an invariant of the system model and of every observed state of real runs.",
    "note": BFT_NOTE, "design_ref": "§7 C02",
}
CHECKS["C03"] = {
    "category": "model_checking",
    "technique": "TLA+ ChonkyBFT.tla with crash actions checked by TLC; TLC trace validation of real replicas over a crashable engine that orders every send against every durable write",
    "text": "Crash at every handler boundary and after every prefix of emitted messages in the model; on the code, crash injection at durable writes "
            "(applied / not applied) and the send-vs-persist order observed without source change; equivocation, vote-after-timeout, view regression and "
            "durable-before-visible evaluated by TLC per event.",
    "note": BFT_NOTE, "design_ref": "§7 C03",
}
CHECKS["C05"] = {
    "category": "model_checking",
    "technique": "TLC trace validation: every step of the real StateMachine predicted by the TLA+ replica specification (Replica.tla) and compared; monitors for monotonicity, justification, self-justifying messages",
    "text": "C05 states conformance to the replica specification: each recorded step (accept/reject, full post-state incl. vote caches, emitted messages, "
            "proposer notification) must equal the TLA+ handler applied to the observed pre-state, for valid, stale, future, wrong-leader, wrong-chain, "
            "unsigned and Byzantine-crafted inputs.",
    "note": BFT_NOTE, "design_ref": "§7 C05",
}
CHECKS["C16"] = {
    "category": "model_checking",
    "technique": "TLA+ PrunableQueue.tla by TLC, all bounded operation sequences replayed on the real create_input_channel() (T2) + racing sender threads judged by the spec's content invariants; cache-bound monitor by TLC on validated replica traces",
    "text": "Queue: exhaustive operation sequences (messages of two senders, two kinds, three views, valid / forged, and validly signed variants naming another genesis or another block - the slot must be (sender, kind) only) with exact output comparison; after races of 4 sender threads the queue content must satisfy OnePerSenderKind / OnlyValid / KeepsMax / NothingLost. Replica bookkeeping: per-event snapshot of the four vote caches checked "
            "against the committee-size bound, including future-view floods by faulty validators.",
    "note": BFT_NOTE, "design_ref": "§7 C16",
}

CHECKS["C06"] = {
    "category": "model_checking",
    "technique": "TLA+ MC_Progress.tla (good-period scheduler) checked by TLC for liveness under weak fairness; good-period continuation (T5) of every recorded prefix on the real replicas",
    "text": "Model: Progress and BoundedProgress for all good-period schedules, three leader orders, with a weakened-spec vacuity guard. Code: after every "
            "adversarial prefix the real replicas are run synchronously (real inbound queue, timers at quiescence, block fetch) and must all store a new block - and then one more block per validator, so that the views of the silent faulty leaders are left by timeout certificates; "
            "in the harsher ending everything the faulty validators ever sent first reaches every correct replica and one round of timer messages is lost.",
    "note": BFT_NOTE + " Good period = global quiescence before timers; bound on timer rounds is generous, not minimal.",
    "design_ref": "§7 C06",
}

CHECKS["C04"] = {
    "category": "model_checking",
    "technique": "TLA+ Certs.tla validity predicates; TLC enumerates certificate / add-sequence case tables with the spec's verdict, replayed into the real verify()/add() with real BLS signatures (T3)",
    "text": "Accept/reject of commit certificates, timeout certificates, blocks, proposals and new-views is compared with the specification over every "
            "signer subset (incl. weight at / below quorum), every single-field corruption of the catalogue and every incremental assembly of <= 3 votes, "
            "on weighted and unit committees.",
    "note": "BLS soundness assumed; corruption catalogue is single-field; committees <= 6 validators.",
    "design_ref": "§7 C04",
}

CHECKS["C18"] = {
    "category": "model_checking",
    "technique": "TLA+ AddrBook.tla checked by TLC (Monotone, Authentic, RejectedBatchNoChange, Convergence); every enumerated transition replayed on the real ValidatorAddrsWatch with real signatures (T2); AddrDial.tla (book + connection loops + forwarding) checked by TLC and traces of a real running node validated against it (TraceAddrDial.tla, T1)",
    "text": "Node level: seeded batches through the real push_validator_addrs RPC of a running validator node - the book after every acknowledgement, every connection attempt of the node "
            "(loopback listeners stand for the addresses) and every forwarded announcement must be explained by the specification. Table: all batches of <= 2 announcements over member/outsider keys, versions, timestamps and forgery, from every reachable book: result and resulting "
            "book of the real update() must equal the specification's; stored entries must verify under their validator's key.",
    "note": "2 committee keys, versions/timestamps 0..1; BLS soundness assumed; batches of 3+ entries not enumerated.",
    "design_ref": "§7 C18",
}

CHECKS["C19"] = {
    "category": "model_checking",
    "technique": "TLA+ FetchQueue.tla checked by TLC (safety + NoLostWakeup liveness); TLC trace validation (TraceFetch.tla) of a seeded driver of the real gossip::fetch::Queue; GossipFetch.tla checked by TLC and every scripted peer it enumerates replayed against a real running node (T2)",
    "text": "Every interleaving of request/cancel/announce/accept/complete/fail of the bounded model; on the code every hand-out must be an enabled spec "
            "action (announced, lowest, once), the pending set must equal the spec's at every quiescent point, and no idle peer may be left unserved. End to end: a real node "
            "fetching from a peer that announces a range and answers right / another number / a forged payload / an empty response / not at all (connection kept open: the call's timeout must free the request) asks only for announced numbers and, once an honest peer is "
            "there, ends up with every block.",
    "note": "Single-threaded runtime with quiescence between commands; real multi-threaded interleavings are not controlled. One live requester per block.",
    "design_ref": "§7 C19",
}

CHECKS["C08"] = {
    "category": "model_checking",
    "technique": "TLA+ BlockStore.tla and Epochs.tla checked by TLC; TLC trace validation (TraceStore.tla, TraceEpochs.tla) of the real EngineManager + runner under seeded drivers with a driver-scheduled persistence layer and an execution layer with a dynamic validator schedule",
    "text": "Design: every interleaving of offers, pushes, hand-outs, durable completions, side-channel jumps, pruning and restarts. Code: every quiescent "
            "observation (queued/persisted ranges, every readable block, the hand-out sequence, call results) is a TLC state checked for verified-only, "
            "contiguity, read-back, no substitution, ordered gap-free hand-out and progress of the queue. Admission: externally justified vs certified blocks around "
            "genesis.first_block, claimed epoch known / unknown, signed by the committee stored for that epoch or another, corrupted certificates; the schedule loop "
            "(learning the pending epoch, expiration of the previous one, pruning) and restarts are explained step by step by Epochs.tla.",
    "note": "Persistence layer = harness model (ordered, may lag/jump/prune); store driver uses pre-genesis blocks, admission driver real certificates of one-member committees; single-threaded runtime with quiescence between commands; "
            "the gossip-level requested-number guard is out of reach of this check.",
    "design_ref": "§7 C08",
}

CHECKS["C15"] = {
    "category": "model_checking",
    "technique": "TLA+ Limiter.tla (lazy token bucket with delayed consumption) checked by TLC; TLC evaluation of WindowBound / Fifo / CancelNeutral on recorded histories of the real Limiter, and of TraceRpcRate.tla (window and in-flight bounds) on handler histories of the real rpc::Service, both on a manual clock; TraceNodeRate.tla on the answer times of a real running node hammered per RPC kind",
    "text": "Model: every interleaving of calls, grants, cancels, drops and ticks (WindowBound, Fifo, bucket sanity). Code: seeded scripts run twice (with and "
            "without the cancelled calls) on the real limiter; the window bound, arrival-order service and cancel-neutrality are evaluated by TLC on the grant histories. "
            "Per connection: the real rpc::Service (ping, consensus servers) against real clients without client-side rate, a raw mux peer that answers every OPEN in advance, "
            "one that stays silent and then says everything at once, and one that claims 1000 streams and uses stream ids beyond the limits; handler starts per window and concurrent handlers are bounded by TLC on the recorded history. Node level: a running node with a different rate per RPC kind answers, per kind, no more calls than the rate configured for that kind allows.",
    "note": "Manual clock, single-threaded runtime with quiescence between clock advances. Two RPC kinds stand for all; the bound on handler starts carries an additive INFLIGHT term except for raw peers whose request accompanies the OPEN (there the limiter bound itself is checked).",
    "design_ref": "§7 C15",
}

CHECKS["C13"] = {
    "category": "model_checking",
    "technique": "TLA+ NoiseStream.tla (frame segmentation, tamper outcomes) evaluated by TLC over all bounded scenarios; each scenario replayed on a real noise::Stream pair over a scripted, fragmenting transport (T2)",
    "text": "Every write/flush sequence of the boundary sizes with every single-point tampering at every frame: the reader must obtain exactly the specified "
            "prefix (all bytes when untampered), the wire must respect the 64 KiB frame bound, under seeded fragmentation and Pending patterns of both directions.",
    "note": "AEAD soundness assumed; <= 3 writer operations per scenario; fragmentation sampled by seed; the specified end kind (eof/error) is informational (drift), "
            "the property-level verdict is on the delivered bytes.",
    "design_ref": "§7 C13",
}

CHECKS["C12"] = {
    "category": "model_checking",
    "technique": "TLA+ Handshake.tla (Dolev-Yao style adversary, Auth checked by TLC), SessionId.tla (the session identifier binds both ends' ephemeral contributions: SidUnique, RelayRefused; replayed with real noise ends against a raw noise peer that reuses its ephemeral key) and Pool.tla; their case tables / operation sequences replayed on the real handshakes over real noise sessions, on the real PoolWatch, and on a real running node dialled over loopback TCP (T2)",
    "text": "Auth is checked on the specification for every adversary message; every message class (claimed key, session, chain, signer) is then put on a real "
            "encrypted loopback session against the real gossip and validator handshakes (incl. validator pool admission) and the verdict and attributed key "
            "compared; pool sequences are exhaustive for 5 operations plus a concurrent stress; the same sequences (connect = dial + authenticate, remove = hang up) and racing "
            "dials are replayed against a real node's gossip and validator listeners, comparing admission and the node's inbound pools with Pool.tla.",
    "note": "Signature unforgeability and collision-freedom of the transcript hash assumed; honest ends draw fresh ephemeral keys (snow does); malformed/unsigned frames are covered by C10, not here; pool thread interleavings not controlled.",
    "design_ref": "§7 C12",
}

CHECKS["C14"] = {
    "category": "model_checking",
    "technique": "TLA+ Mux.tla (reusable-stream protocol) checked by TLC; per-stream records of two real Muxes over a fragmenting transport evaluated by TLC (TraceMux.tla) + flood scenarios (DATA flood by a real Mux, OPEN/CLOSE flood by a raw peer); MuxBuffer.tla (permits before bytes) checked by TLC, its blocked states (one and two streams sharing the semaphores) compared byte-exactly with what the real Mux pulls from a raw flooding peer; MuxWrite.tla (write half: frame buffer, bounded hand-over, writes that give up) checked by TLC and runs with failing write_all calls under back-pressure validated by TLC (TraceMuxWrite.tla)",
    "text": "Design: isolation, local end-of-stream and matching incarnations for every interleaving of the OPEN/DATA/CLOSE protocol on one stream id. Code: "
            "concurrent transient streams with self-identifying payloads (some abandoned half-read) must pair one-to-one within a capability, complete and "
            "intact both ways; open streams per capability <= min of the announced limits; bytes pulled from the transport under a DATA flood stay within the buffers, frames pulled under a control-frame flood within read_frame_count; what the peer reads from a stream whose writer gave up some writes under back-pressure is every completed write and a prefix of every failed one, in order.",
    "note": "Thread schedules are perturbed, not controlled; the adversarial peer is a non-cooperating real Mux (protocol-violating frames belong to C10); limits 1..3, 3 capabilities.",
    "design_ref": "§7 C14",
}

CHECKS["C10"] = {
    "category": "model_checking",
    "technique": "TLA+ ConnAdv.tla (reaction of the multiplexer to every frame-header class), MuxBuffer.tla (inbound buffering: permits before bytes) and Listener.tla (stages of the connection establishment x malformed input classes) enumerated by TLC and replayed on a real Mux and on the listener of a real running node (T2); table-driven extremes and seeded mutations through the real decoders, replica handler, inbound queue and noise stream under catch_unwind",
    "text": "PARTIAL. Decided: every mux header path of the bounded alphabet; every (stage, malformed class, endpoint) path of the connection establishment against a "
            "running node, which must stay up, keep admitting honest peers and drain its pools; single-field extremes of the std conversions and genesis; validly signed consensus "
            "messages with maximal views / empty / oversized collections; garbage ciphertext; the buffering limits of the multiplexer (MuxBuffer.tla: what a real Mux pulls from a raw flooding peer, "
            "byte-exact against the specification's blocked state, with an application that reads nothing or only part of a frame). Sampled only: decoder totality over byte strings (seeded mutations, "
            "truncations, random strings).",
    "note": "Not covered: arbitrary byte strings exhaustively (a fuzzing question); RPC bodies are malformed by class (garbage, oversize, truncated, empty, wrong message), not field by field. Four defects found by this check were repaired (known_findings.txt).",
    "design_ref": "§7 C10, §9",
}

CHECKS["C17"] = {
    "category": "model_checking",
    "technique": "TLA+ Scope.tla checked by TLC over every schedule of every bounded task-tree program; the spec's per-program outcome sets compared with the real scope::run! and (every third run) scope::run_blocking! on a multi-threaded runtime (T2)",
    "text": "For each program the model yields the exact set of outcomes the scope may return (ok / which error / panic) under any schedule; the real scope must stay "
            "within it over many perturbed runs, must have joined every task when it returns, and may never hang when all tasks can finish (cancellation reaches waiting tasks). In a fifth of the runs the waker "
            "given to ctx.canceled() stalls the cancelling thread, so that a failure recorded only after the cancellation it caused loses the race. The caller's context rotates through the shapes the model's `outer` flag stands for "
            "(own deadline, tighter deadline under a finite parent, cascade from the parent, enclosing scope ending); waiting tasks wait on descendants of the scope's context.",
    "note": "Program space: <= 2 (quick) / 3 (thorough) tasks, root task ok / error / panic, async and blocking flavour, no nested scopes inside the program; a driver process that dies while executing a program (dangling borrows after an early return) is re-run on that program alone and only a reproducible death is a verdict; real thread schedules are perturbed, not controlled; no concurrency hook was needed.",
    "design_ref": "§7 C17",
}

CHECKS["C09"] = {
    "category": "model_checking",
    "technique": "TLA+ WireCanon.tla (Valid / Value / Canonical over abstract protobuf serialisations) checked by TLC; its table replayed into the real canonical_raw (T3); seeded encode/decode/normalise round trips of the public message types",
    "text": "PARTIAL. Decided: the canonical form of every bounded serialisation of a schema covering all field shapes (uniqueness, idempotence, value preservation "
            "on the spec; byte equality with the real canonical_raw). Sampled: losslessness and byte agreement for seeded values of 12 public wire/storage types, "
            "including alternative valid serialisations (field order, packed / unpacked, non-minimal varints).",
    "note": "Not decided: 'all values of all types' (byte-level fidelity is outside what a TLA+ model enumerates); crate-private RPC/handshake types; build-time schema checks. One defect found by this check was repaired.",
    "design_ref": "§7 C09, §9",
}

NOT_YET = "no check claimed"
NA_REASONS = {}


def main():
    props = [json.loads(l) for l in open(os.path.join(ROOT, "properties.jsonl"))]
    checks = []
    na = []
    for p in props:
        pid = p["id"]
        c = CHECKS.get(pid)
        if c is None:
            na.append({"property_id": pid, "reason": NA_REASONS.get(pid, NOT_YET)})
            continue
        checks.append({
            "property_id": pid,
            "quick_cmd": f"./check {pid} --tier quick",
            "thorough_cmd": f"./check {pid} --tier thorough",
            "evidence_file": f"/verif/evidence/{pid}.json",
            "replay_cmd_template": f"./check {pid} --replay {{path}}",
            "engine": "tla",
            "level_claimed": {"category": c["category"], "text": c["text"], "design_ref": c["design_ref"]},
            "level_note": c["note"],
            "technique": c["technique"],
        })
    m = {
        "version": 1,
        "setup_cmd": "./check setup",
        "hooks": {
            "guard": "era_consensus_verif",
            "enable": "RUSTFLAGS --cfg era_consensus_verif via /verif/harness/.cargo/config.toml; the harness has path "
                      "dependencies on /repo/node/** so every check rebuilds /repo's working tree with hooks on",
            "baseline_off_cmd": "cd /repo/node && cargo nextest run --workspace --no-fail-fast --test-threads 8 --offline",
            "source_commits": HOOK_COMMITS,
            "add_only": True,
        },
        "engines": [{
            "name": "tla",
            "path": "/verif/specs",
            "serves_properties": sorted(CHECKS.keys()),
            "kind_free_text": "explicit TLA+ specifications checked with TLC (exhaustive / simulate), TLAPS for arithmetic; "
                              "bound to the Rust code by trace validation (T1), behaviour replay (T2), case-table replay (T3), "
                              "weakened-spec attack schedules (T4); harness in /verif/harness",
        }],
        "checks": checks,
        "notes": "See DESIGN.md. ./check <id> --tier quick|thorough; exit 0 ok / 1 VIOLATION / 2 TOOL-ERROR.",
        "not_applicable": na,
    }
    path = os.path.join(ROOT, "MANIFEST.json")
    with open(path, "w") as f:
        json.dump(m, f, indent=1)
        f.write("\n")
    try:
        import jsonschema
        jsonschema.validate(m, json.load(open("/root/.vp/MANIFEST.schema.json")))
        print("MANIFEST valid:", len(checks), "checks,", len(na), "not_applicable")
    except ImportError:
        print("MANIFEST written (jsonschema unavailable)")


if __name__ == "__main__":
    sys.exit(main())

"""C15 — rate limits. (a) Limiter.tla: implementation-shaped lazy token bucket with delayed consumption; TLC checks WindowBound
(<= b + T/r + 1 permits in any window), Fifo and bucket-state sanity over every interleaving of calls, grants, cancels, drops and ticks.
The real limiter::Limiter on a ManualClock executes seeded scripts twice (with / without the cancelled calls); TLC evaluates WindowBound,
Fifo and CancelNeutral on the recorded histories (TraceLimiter.tla). (b) The per-connection half (RPC streams over mux) is NOT covered."""
import os
import re
import time
import common
from common import log

PROP = "C15"


def _validate(trace):
    r = common.tlc("concurrency", "TraceLimiter", cfg="TraceLimiter.cfg", workers=1, timeout=600, env_extra={"TRACE": trace}, xss="1g", xmx="4g")
    m = re.search(r'<<\s*"VERDICT",\s*"([^"]*)",\s*(\d+),\s*(\d+),\s*(TRUE|FALSE)\s*>>', r.out)
    if not m:
        raise common.ToolError("TraceLimiter produced no verdict:\n" + r.out[-1500:])
    return m.group(1), int(m.group(2)) + int(m.group(3)), m.group(4) == "TRUE"


def run(tier, seed):
    t0 = time.time()
    common.cargo_build()
    d = common.outdir(PROP)
    m = common.tlc("concurrency", "Limiter", cfg="MC_Limiter.cfg", workers=8, timeout=900)
    if not m.ok:
        raise common.ToolError("Limiter.tla properties fail on the specification:\n" + m.out[-1500:])
    plan = [(24, 2), (24, 3), (30, 1), (16, 5)]
    nseeds = 6 if tier == "quick" else 60
    traces, grants, comparable, samples, viol = 0, 0, 0, [], 0
    try:
        for (ncalls, burst) in plan:
            for k in range(nseeds):
                s = seed * 1000 + k
                trace = os.path.join(d, f"t_{ncalls}_{burst}_{s}.ndjson")
                rep = os.path.join(d, f"r_{ncalls}_{burst}_{s}.json")
                refresh = [10_000_000, 7_000_003][k % 2]
                rc, so, se = common.run_bin("limiter_drv", [trace, rep, s, ncalls, burst, refresh], timeout=600)
                if rc != 0 and not os.path.exists(rep):
                    raise common.ToolError("limiter_drv failed: " + se[-800:])
                r = common.load_report(rep)
                common.handle_failures(PROP, r["failures"], "driver_failure")
                verdict, ng, comp = _validate(trace)
                traces += 1
                grants += ng
                comparable += 1 if comp else 0
                if len(samples) < 2:
                    samples.append(r["samples"][0])
                if verdict != "ok":
                    viol = 1
                    path = common.write_replay(PROP, "trace_violation", {"property": PROP, "seed": s, "ncalls": ncalls, "burst": burst, "refresh": refresh,
                                                                         "what": verdict, "trace": trace})
                    raise common.Violation(PROP, verdict, path)
    finally:
        cov = {"states": m.distinct, "transitions": m.generated, "traces_validated_against_impl": traces, "samples": samples or [{}],
               "evaluations": grants, "distinct_nontrivial": traces,
               "rule": "model: BFS of Limiter.tla (burst 2, 4 calls of 1..2 permits, 6 ticks); code: one script per (calls, burst, seed, refresh period), "
                       "executed twice (with/without cancelled calls); evaluations = grants checked; CancelNeutral is evaluated on the "
                       f"{comparable} scripts in which every cancellable call was really cancelled",
               "exhaustive": True, "scripts_with_cancel_comparison": comparable,
               "not_covered": "per-connection / per-RPC enforcement (rpc::Service over mux, INFLIGHT) — no harness for the RPC layer was built"}
        common.write_evidence(PROP, tier, seed, "model_checking", cov,
                              ["time = ManualClock; clock advances are fractions and multiples of the refresh period",
                               "part (b) of the property (RPC streams) is claimed only through the limiter it is built on"], time.time() - t0, viol)
    log(f"[C15] ok: model {m.distinct} states; {traces} scripts, {grants} grants checked, {comparable} cancel comparisons")
    return 0


def replay(path, seed):
    import json
    c = json.load(open(path))
    common.cargo_build()
    d = common.outdir(PROP)
    trace = os.path.join(d, "replay.ndjson")
    rep = os.path.join(d, "replay.json")
    common.run_bin("limiter_drv", [trace, rep, c["seed"], c["ncalls"], c["burst"], c["refresh"]])
    verdict, ng, comp = _validate(trace)
    if verdict != "ok":
        raise common.Violation(PROP, verdict, path)
    log("replay: no violation")
    return 0

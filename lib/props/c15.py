"""C15 — rate limits. (a) Limiter.tla: implementation-shaped lazy token bucket with delayed consumption; TLC checks WindowBound
(<= b + T/r + 1 permits in any window), Fifo and bucket-state sanity over every interleaving of calls, grants, cancels, drops and ticks.
The real limiter::Limiter on a ManualClock executes seeded scripts twice (with / without the cancelled calls); TLC evaluates WindowBound,
Fifo and CancelNeutral on the recorded histories (TraceLimiter.tla). (b) The per-connection half (RPC streams over mux) is NOT covered."""
import os
import re
import time
import common
from common import log

PROP = "C15"


def _validate(trace):
    r = common.tlc("concurrency", "TraceLimiter", cfg="TraceLimiter.cfg", workers=1, timeout=900, env_extra={"TRACE": trace}, xss="1g", xmx="4g")
    m = re.search(r'<<\s*"VERDICT",\s*"([^"]*)",\s*(\d+),\s*(\d+),\s*(TRUE|FALSE)\s*>>', r.out)
    if not m:
        raise common.ToolError("TraceLimiter produced no verdict:\n" + r.out[-1500:])
    return m.group(1), int(m.group(2)) + int(m.group(3)), m.group(4) == "TRUE"


def _validate_rpc(trace):
    r = common.tlc("concurrency", "TraceRpcRate", cfg="TraceRpcRate.cfg", workers=1, timeout=600, env_extra={"TRACE": trace}, xss="1g", xmx="4g")
    m = re.search(r'<<\s*"VERDICT",\s*"([^"]*)",\s*(\d+),\s*(-?\d+),\s*(-?\d+),\s*(-?\d+),\s*(-?\d+)\s*>>', r.out)
    if not m:
        raise common.ToolError("TraceRpcRate produced no verdict:\n" + r.out[-1500:])
    return m.group(1), int(m.group(2)), max(int(m.group(5)), int(m.group(6)))


def _node_rates(d, seed, k):
    """Part (c): a real running node with a different rate per RPC kind, hammered kind by kind; TraceNodeRate.tla. Returns (verdict, answered, trace)."""
    import json
    trace = os.path.join(d, f"node_rates_{seed}_{k}.ndjson")
    rep = os.path.join(d, f"node_rates_{seed}_{k}.json")
    for f_ in (trace, rep):
        if os.path.exists(f_):
            os.remove(f_)
    rc, so, se = common.run_bin("node_rates", [trace, rep, seed * 10 + k], timeout=600)
    if rc != 0 and not os.path.exists(rep):
        raise common.ToolError("node_rates failed: " + se[-800:])
    r = common.load_report(rep)
    if any(f["key"] == "node_not_up" for f in r["failures"]):
        raise common.ToolError("node_rates: the node under test never came up")
    common.handle_failures(PROP, r["failures"], "node_rate_driver_failure")
    t = common.tlc("concurrency", "TraceNodeRate", cfg="TraceNodeRate.cfg", workers=1, timeout=300, env_extra={"TRACE": trace}, xss="1g", xmx="2g")
    m = re.search(r'<<\s*"VERDICT",\s*"([^"]*)",\s*"(.*)"\s*>>', t.out)
    if not m:
        raise common.ToolError("TraceNodeRate produced no verdict:\n" + t.out[-1500:])
    answered = json.loads(m.group(2).replace('\\"', '"'))
    return m.group(1), answered, trace


def run(tier, seed):
    t0 = time.time()
    common.cargo_build()
    d = common.outdir(PROP)
    m = common.tlc("concurrency", "Limiter", cfg="MC_Limiter.cfg", workers=8, timeout=900)
    if not m.ok:
        raise common.ToolError("Limiter.tla properties fail on the specification:\n" + m.out[-1500:])
    plan = [(24, 2), (24, 3), (30, 1), (16, 5)]
    nseeds = 6 if tier == "quick" else 60
    traces, grants, comparable, samples, viol = 0, 0, 0, [], 0
    rpc_traces, rpc_starts, rpc_saturated, rpc_samples = 0, 0, 0, []
    node_rate_runs = []
    try:
        for (ncalls, burst) in plan:
            for k in range(nseeds):
                s = seed * 1000 + k
                trace = os.path.join(d, f"t_{ncalls}_{burst}_{s}.ndjson")
                rep = os.path.join(d, f"r_{ncalls}_{burst}_{s}.json")
                refresh = [10_000_000, 7_000_003][k % 2]
                rc, so, se = common.run_bin("limiter_drv", [trace, rep, s, ncalls, burst, refresh], timeout=600)
                if rc != 0 and not os.path.exists(rep):
                    raise common.ToolError("limiter_drv failed: " + se[-800:])
                r = common.load_report(rep)
                common.handle_failures(PROP, r["failures"], "driver_failure")
                verdict, ng, comp = _validate(trace)
                traces += 1
                grants += ng
                comparable += 1 if comp else 0
                if len(samples) < 2:
                    samples.append(r["samples"][0])
                if verdict != "ok":
                    viol = 1
                    path = common.write_replay(PROP, "trace_violation", {"property": PROP, "seed": s, "ncalls": ncalls, "burst": burst, "refresh": refresh,
                                                                         "what": verdict, "trace": trace})
                    raise common.Violation(PROP, verdict, path)
        # ---- part (b): the real rpc::Service over one connection against remote sides that call as fast as they can
        for mode in ["hammer", "raw", "rawlate", "greedy"]:
            for k in range(3 if tier == "quick" else 20):
                for burst in ([1, 2, 5] if tier == "quick" else [1, 2, 3, 5, 10]):
                    s = seed * 1000 + k
                    refresh = [10_000_000, 7_000_003][k % 2]
                    trace = os.path.join(d, f"rpc_{mode}_{burst}_{s}.ndjson")
                    rep = os.path.join(d, f"rpc_{mode}_{burst}_{s}.json")
                    steps = 40 if tier == "quick" else 120
                    rc, so, se = common.run_bin("rpc_drv", [trace, rep, s, burst, refresh, mode, steps], timeout=600)
                    if rc != 0 and not os.path.exists(rep):
                        raise common.ToolError("rpc_drv failed: " + se[-800:])
                    r = common.load_report(rep)
                    common.handle_failures(PROP, r["failures"], "rpc_driver_failure")
                    verdict, nstarts, tight = _validate_rpc(trace)
                    rpc_traces += 1
                    rpc_starts += nstarts
                    if mode != "greedy":
                        rpc_saturated += 1 if tight >= 0 else 0
                    if tight > 0 and verdict == "ok":
                        log(f"NOTE drift component=rpc_rate handler starts exceed the bound on limiter grants by {tight} (allowed up to INFLIGHT) in {trace}")
                    if len(rpc_samples) < 3 and k == 0 and burst == 2:
                        rpc_samples.append({"run": r["samples"][0], "counters": r["counters"]})
                    if verdict != "ok":
                        viol = 1
                        path = common.write_replay(PROP, "rpc_trace_violation", {"property": PROP, "kind": "rpc", "seed": s, "burst": burst, "refresh": refresh,
                                                                                 "mode": mode, "steps": steps, "what": verdict, "trace": trace})
                        raise common.Violation(PROP, verdict, path)
        # ---- part (c): node level - every RPC kind a gossip node serves is limited by the rate configured FOR THAT KIND
        for k in range(1 if tier == "quick" else 5):
            verdict, answered, ntrace = _node_rates(d, seed, k)
            if sum(answered.values()) == 0:
                # a loaded machine: once more before calling it a harness problem
                verdict, answered, ntrace = _node_rates(d, seed, k + 50)
            node_rate_runs.append(answered)
            if sum(answered.values()) == 0:
                raise common.ToolError("node_rates: the node answered no call at all (harness problem)")
            if verdict != "ok":
                viol = 1
                path = common.write_replay(PROP, "node_rate_violation", {"property": PROP, "kind": "node_rates", "seed": seed, "k": k, "what": verdict, "trace": ntrace, "answered": answered})
                raise common.Violation(PROP, verdict, path)
    finally:
        cov = {"states": m.distinct, "transitions": m.generated, "traces_validated_against_impl": traces, "samples": samples or [{}],
               "evaluations": grants, "distinct_nontrivial": traces,
               "rule": "model: BFS of Limiter.tla (burst 2, 4 calls of 1..2 permits, 6 ticks); code: one script per (calls, burst, seed, refresh period), "
                       "executed twice (with/without cancelled calls); evaluations = grants checked; CancelNeutral is evaluated on the "
                       f"{comparable} scripts in which every cancellable call was really cancelled",
               "exhaustive": True, "scripts_with_cancel_comparison": comparable,
               "node_level": {"runs": len(node_rate_runs), "calls_answered_per_kind_within_2500ms_of_16_issued": node_rate_runs[:2],
                              "rule": "part (c): a real running node with push_block_store_state / get_block / push_validator_addrs limited to bursts 2 / 9 / 5 (refresh 20 s); "
                                      "per kind a fresh peer without client-side rate issues 16 calls at once; TraceNodeRate.tla: answers in any window <= b + T/r + 1 + INFLIGHT of THAT kind"},
               "rpc": {"connections": rpc_traces, "handler_starts_checked": rpc_starts, "runs_where_the_rate_limit_was_saturated": rpc_saturated,
                       "samples": rpc_samples,
                       "rule": "part (b): the real rpc::Service (ping INFLIGHT 1, consensus INFLIGHT 3, one Rate) over the scripted transport on a ManualClock; remote = "
                               "real clients without client-side rate (hammer), a raw mux peer that pre-answers every OPEN (raw), the same claiming 1000 streams and "
                               "using stream ids beyond the limits (greedy), the raw peer staying silent for a third of the run and then saying everything at once (rawlate); "
                               "TraceRpcRate.tla: starts in any window <= b + T/r + 1 + INFLIGHT (for raw / rawlate, where the request accompanies the OPEN, without the INFLIGHT term), concurrent <= INFLIGHT"}}
        common.write_evidence(PROP, tier, seed, "model_checking", cov,
                              ["time = ManualClock; clock advances are fractions and multiples of the refresh period",
                               "part (b): two RPC kinds (ping, consensus) stand for all; the bound on handler starts carries an additive INFLIGHT term "
                               "(grants whose handler had not started yet)"], time.time() - t0, viol)
    if rpc_saturated == 0:
        raise common.ToolError("no RPC run saturated the rate limit: part (b) was not exercised")
    log(f"[C15] ok: model {m.distinct} states; {traces} scripts, {grants} grants checked, {comparable} cancel comparisons; rpc: {rpc_traces} connections, {rpc_starts} handler starts, {rpc_saturated} saturated")
    return 0


def replay(path, seed):
    import json
    c = json.load(open(path))
    common.cargo_build()
    d = common.outdir(PROP)
    trace = os.path.join(d, "replay.ndjson")
    rep = os.path.join(d, "replay.json")
    if c.get("kind") == "node_rates":
        verdict, answered, _ = _node_rates(d, c["seed"], c.get("k", 0))
        if verdict != "ok":
            raise common.Violation(PROP, verdict, path)
        log("replay: no violation")
        return 0
    if c.get("kind") == "rpc":
        common.run_bin("rpc_drv", [trace, rep, c["seed"], c["burst"], c["refresh"], c["mode"], c["steps"]])
        verdict, n, tight = _validate_rpc(trace)
        if verdict != "ok":
            raise common.Violation(PROP, verdict, path)
        log("replay: no violation")
        return 0
    common.run_bin("limiter_drv", [trace, rep, c["seed"], c["ncalls"], c["burst"], c["refresh"]])
    verdict, ng, comp = _validate(trace)
    if verdict != "ok":
        raise common.Violation(PROP, verdict, path)
    log("replay: no violation")
    return 0

"""C10 — no input from the network can crash a node (PARTIAL, see level_note). ConnAdv.tla specifies the reaction of the multiplexer to
every frame-header class (continue / close, never crash; closed stays closed); TLC enumerates all header paths, each replayed on a real Mux
(T2). Value-level part: directed extremes of the std conversions and genesis versions, seeded mutations / truncations / random bytes of
every public wire and storage type through the real decoders, validly signed consensus messages with extreme views / collections through
the real replica handler and the real inbound queue, garbage ciphertext through the real noise handshake and stream — all under catch_unwind."""
import os
import time
import common
from common import log

PROP = "C10"


def run(tier, seed):
    t0 = time.time()
    common.cargo_build()
    d = common.outdir(PROP)
    cfgname = "MC_ConnAdv_gen.cfg"
    maxlen = 2 if tier == "quick" else 3
    with open(os.path.join(common.SPECS, "network", cfgname), "w") as f:
        f.write(f"CONSTANTS MaxLen = {maxlen}\nINIT Init\nNEXT NextB\nINVARIANTS Done\nPROPERTIES ClosedIsFinal\nCHECK_DEADLOCK FALSE\n")
    try:
        r = common.tlc("network", "MC_ConnAdv", cfg=cfgname, workers=4, timeout=1800, xmx="8g")
    finally:
        os.remove(os.path.join(common.SPECS, "network", cfgname))
    if not r.ok:
        raise common.ToolError("ConnAdv.tla fails on the specification:\n" + r.out[-1500:])
    cases = r.printed("CASE")
    total_paths = len(cases)
    if tier == "thorough":
        cases = [c for i, c in enumerate(cases) if len(c["path"]) < 3 or (i + seed) % 6 == 0]
    cp = os.path.join(d, "mux_cases.ndjson")
    common.write_ndjson(cp, cases)
    rp = os.path.join(d, "mux_report.json")
    rc, so, se = common.run_bin("conn_adv", ["mux", cp, rp], timeout=1500)
    if rc != 0 and not os.path.exists(rp):
        raise common.ToolError("conn_adv mux failed: " + se[-800:])
    rep1 = common.load_report(rp)
    fails = list(rep1["failures"])
    drift = rep1["counters"].get("reaction_drift", 0)
    if drift:
        log(f"NOTE drift component=mux: {drift} header path(s) end open/closed differently from ConnAdv.tla's prediction (no crash): {rep1['notes'][:2]}")
    evals = rep1["evaluations"]
    distinct = rep1["distinct"]
    samples = rep1["samples"][:2]
    rounds = 2 if tier == "quick" else 10
    for k in range(rounds):
        rp2 = os.path.join(d, f"data_report_{k}.json")
        rc, so, se = common.run_bin("conn_adv", ["data", rp2, seed * 100 + k, 150 if tier == "quick" else 600], timeout=1500)
        if rc != 0 and not os.path.exists(rp2):
            raise common.ToolError("conn_adv data failed: " + se[-800:])
        rep2 = common.load_report(rp2)
        fails += rep2["failures"]
        evals += rep2["evaluations"]
        distinct += rep2["distinct"]
        samples += rep2["samples"][:1]
    # ---- node level: every path of Listener.tla against the listener of a real running node
    r7 = common.tlc("network", "MC_Listener", cfg="MC_Listener.cfg", workers=1, timeout=600)
    if not r7.ok:
        raise common.ToolError("Listener.tla fails on the specification:\n" + r7.out[-1500:])
    lcases = r7.printed("CASE")
    cp7 = os.path.join(d, "listener_cases.ndjson")
    common.write_ndjson(cp7, lcases)
    rp7 = os.path.join(d, "listener_report.json")
    for f_ in (rp7, rp7 + ".current"):
        if os.path.exists(f_):
            os.remove(f_)
    rc, so, se = common.run_bin("node_fuzz", [cp7, rp7, seed, 6 if tier == "quick" else 60], timeout=1800)
    if rc != 0 and not os.path.exists(rp7):
        cur = rp7 + ".current"
        if rc in (-6, -11, 134, 139) and os.path.exists(cur):
            import json as _json
            case = _json.load(open(cur))
            fails.append({"key": "node_process_died", "what": f"the process hosting the node died (exit {rc}) while this input was being handled: {se[-300:]}", "case": {"mode": "listener", "case": case}})
            rep7 = {"evaluations": 0, "distinct": 0, "failures": [], "counters": {}, "samples": []}
        else:
            raise common.ToolError("node_fuzz failed: " + se[-800:])
    else:
        rep7 = common.load_report(rp7)
        if any(f["key"] == "node_not_up" for f in rep7["failures"]):
            raise common.ToolError("node_fuzz: the node under test never came up")
        for f in rep7["failures"]:
            f["case"] = {"mode": "listener", "case": f["case"]}
        fails += rep7["failures"]
        if not rep7["failures"] and rep7["counters"].get("stages_reached", 0) < 8:
            raise common.ToolError(f"node_fuzz reached only {rep7['counters'].get('stages_reached')} of 8 stages: the honest prefixes do not work")
    evals += rep7["evaluations"]
    distinct += rep7["distinct"]
    # ---- "never buffers more than its configured limits": MuxBuffer.tla's blocked states against a raw flooding peer (shared with C14)
    buf_cov, buf_fails = buffering(d, seed)
    fails += buf_fails
    cov = {"states": total_paths, "transitions": evals, "traces_validated_against_impl": rep1["evaluations"], "samples": samples[:4],
           "evaluations": evals, "distinct_nontrivial": distinct,
           "rule": f"mux: every path of <= {maxlen} frame headers over kind {{OPEN,DATA,CLOSE,both bits}} x side x id {{in range, first out of range, max}} x DATA "
                   "length class, after a correct handshake; data: 54 timestamp/duration extremes, socket address / bit vector / rate extremes, 5 genesis versions, "
                   "seeded mutations + truncations + random strings of 10 wire/storage types, 22 validly signed extreme consensus messages x {handler, inbound "
                   "queue}, 6 garbage inputs x {noise handshake, noise transport}",
           "exhaustive": False, "reaction_drift": drift,
           "listener": {"paths": len(lcases), "inputs_played": rep7["evaluations"], "stages_reached": rep7["counters"].get("stages_reached", 0), "rpc_bodies_sent": rep7["counters"].get("rpc_bodies_sent", 0),
                        "rule": "Listener.tla: stage {encryption frame, noise handshake, endpoint frame, identity handshake, mux handshake, mux frames} x malformed class "
                                "{garbage, oversize length, truncated, empty, well-formed frame of another stage, hang-up} x endpoint; the honest prefix is performed "
                                "for real against a running node over loopback TCP; after every input an honest configured peer must be admitted and the pools must drain"},
           "buffering": buf_cov,
           "not_covered": "totality of every decoder over every byte string (sampled only)"}
    common.write_evidence(PROP, tier, seed, "model_checking", cov,
                          ["harness is built with panic=unwind so that a panic of the code under test is observed instead of aborting the run",
                           "decoders are exercised through zksync_protobuf::decode of the public types only"], time.time() - t0, len(fails))
    common.handle_failures(PROP, fails, "adversarial_input")
    log(f"[C10] ok: {total_paths} header paths, {len(lcases)} listener paths, {evals} adversarial inputs, no panic")
    return 0


BUF_KEYS = ("mux_buffer_bound_exact", "mux_buffer_bound", "mux_frame_count_bound")


def buffering(d, seed):
    mb = common.tlc("network", "MC_MuxBuffer", cfg="MC_MuxBuffer.cfg", workers=1, timeout=900)
    if not mb.ok:
        raise common.ToolError("MuxBuffer.tla properties fail on the specification:\n" + mb.out[-1500:])
    mbp = os.path.join(d, "muxbuffer_cases.ndjson")
    cases = mb.printed("CASE")
    common.write_ndjson(mbp, cases)
    rp = os.path.join(d, "buffer_report.json")
    if os.path.exists(rp):
        os.remove(rp)
    rc, so, se = common.run_bin("mux_drv", [os.path.join(d, "buffer_trace.ndjson"), rp, seed * 100 + 77, mbp], timeout=600)
    if rc != 0 and not os.path.exists(rp):
        raise common.ToolError("mux_drv failed: " + se[-800:])
    r = common.load_report(rp)
    fails = []
    for f in r["failures"]:
        if f["key"] in BUF_KEYS:
            f["case"] = {"mode": "buffer", "seed": seed}
            fails.append(f)
    return ({"muxbuffer_states": mb.distinct, "raw_peer_scenarios": len(cases), "exact_flood_cases": r["counters"].get("exact_flood_cases", 0),
             "flood_pulled": r["counters"].get("flood_pulled", 0), "flood_bound": r["counters"].get("flood_bound", 0),
             "rule": "MuxBuffer.tla (Bounded, AllPulled): a raw peer sends the frame list of each scenario (DATA floods on one and two streams, control-frame floods) to a real "
                     "Mux whose application reads nothing; bytes pulled from the transport compared with the specification's blocked state"}, fails)


def replay(path, seed):
    import json
    c = json.load(open(path))
    common.cargo_build()
    d = common.outdir(PROP)
    case = c["case"]
    if isinstance(case, dict) and case.get("mode") == "buffer":
        _, fails = buffering(d, case.get("seed", seed))
        common.handle_failures(PROP, fails, "replay_failure")
        log("replay: no violation")
        return 0
    if isinstance(case, dict) and case.get("mode") == "listener":
        cp = os.path.join(d, "replay_case.ndjson")
        common.write_ndjson(cp, [case["case"]["case"]])
        rp = os.path.join(d, "replay_report.json")
        common.run_bin("node_fuzz", [cp, rp, case["case"].get("seed", seed), 20])
        rep = common.load_report(rp)
        common.handle_failures(PROP, rep["failures"], "replay_failure")
        log("replay: no violation")
        return 0
    if isinstance(case, dict) and case.get("mode") == "mux":
        cp = os.path.join(d, "replay_case.ndjson")
        common.write_ndjson(cp, [case["case"]])
        rp = os.path.join(d, "replay_report.json")
        common.run_bin("conn_adv", ["mux", cp, rp])
    else:
        rp = os.path.join(d, "replay_report.json")
        common.run_bin("conn_adv", ["data", rp, seed, 150])
    rep = common.load_report(rp)
    common.handle_failures(PROP, rep["failures"], "replay_failure")
    log("replay: no panic")
    return 0

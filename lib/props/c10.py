"""C10 — no input from the network can crash a node (PARTIAL, see level_note). ConnAdv.tla specifies the reaction of the multiplexer to
every frame-header class (continue / close, never crash; closed stays closed); TLC enumerates all header paths, each replayed on a real Mux
(T2). Value-level part: directed extremes of the std conversions and genesis versions, seeded mutations / truncations / random bytes of
every public wire and storage type through the real decoders, validly signed consensus messages with extreme views / collections through
the real replica handler and the real inbound queue, garbage ciphertext through the real noise handshake and stream — all under catch_unwind."""
import os
import time
import common
from common import log

PROP = "C10"


def run(tier, seed):
    t0 = time.time()
    common.cargo_build()
    d = common.outdir(PROP)
    cfgname = "MC_ConnAdv_gen.cfg"
    maxlen = 2 if tier == "quick" else 3
    with open(os.path.join(common.SPECS, "network", cfgname), "w") as f:
        f.write(f"CONSTANTS MaxLen = {maxlen}\nINIT Init\nNEXT NextB\nINVARIANTS Done\nPROPERTIES ClosedIsFinal\nCHECK_DEADLOCK FALSE\n")
    try:
        r = common.tlc("network", "MC_ConnAdv", cfg=cfgname, workers=4, timeout=1800, xmx="8g")
    finally:
        os.remove(os.path.join(common.SPECS, "network", cfgname))
    if not r.ok:
        raise common.ToolError("ConnAdv.tla fails on the specification:\n" + r.out[-1500:])
    cases = r.printed("CASE")
    total_paths = len(cases)
    if tier == "thorough":
        cases = [c for i, c in enumerate(cases) if len(c["path"]) < 3 or (i + seed) % 6 == 0]
    cp = os.path.join(d, "mux_cases.ndjson")
    common.write_ndjson(cp, cases)
    rp = os.path.join(d, "mux_report.json")
    rc, so, se = common.run_bin("conn_adv", ["mux", cp, rp], timeout=1500)
    if rc != 0 and not os.path.exists(rp):
        raise common.ToolError("conn_adv mux failed: " + se[-800:])
    rep1 = common.load_report(rp)
    fails = list(rep1["failures"])
    drift = rep1["counters"].get("reaction_drift", 0)
    if drift:
        log(f"NOTE drift component=mux: {drift} header path(s) end open/closed differently from ConnAdv.tla's prediction (no crash): {rep1['notes'][:2]}")
    evals = rep1["evaluations"]
    distinct = rep1["distinct"]
    samples = rep1["samples"][:2]
    rounds = 2 if tier == "quick" else 10
    for k in range(rounds):
        rp2 = os.path.join(d, f"data_report_{k}.json")
        rc, so, se = common.run_bin("conn_adv", ["data", rp2, seed * 100 + k, 150 if tier == "quick" else 600], timeout=1500)
        if rc != 0 and not os.path.exists(rp2):
            raise common.ToolError("conn_adv data failed: " + se[-800:])
        rep2 = common.load_report(rp2)
        fails += rep2["failures"]
        evals += rep2["evaluations"]
        distinct += rep2["distinct"]
        samples += rep2["samples"][:1]
    cov = {"states": total_paths, "transitions": evals, "traces_validated_against_impl": rep1["evaluations"], "samples": samples[:4],
           "evaluations": evals, "distinct_nontrivial": distinct,
           "rule": f"mux: every path of <= {maxlen} frame headers over kind {{OPEN,DATA,CLOSE,both bits}} x side x id {{in range, first out of range, max}} x DATA "
                   "length class, after a correct handshake; data: 54 timestamp/duration extremes, socket address / bit vector / rate extremes, 5 genesis versions, "
                   "seeded mutations + truncations + random strings of 10 wire/storage types, 22 validly signed extreme consensus messages x {handler, inbound "
                   "queue}, 6 garbage inputs x {noise handshake, noise transport}",
           "exhaustive": False, "reaction_drift": drift,
           "not_covered": "totality of every decoder over every byte string (sampled only); preface / RPC layer (crate-private, no harness); buffering limits are C14's flood scenario"}
    common.write_evidence(PROP, tier, seed, "model_checking", cov,
                          ["harness is built with panic=unwind so that a panic of the code under test is observed instead of aborting the run",
                           "decoders are exercised through zksync_protobuf::decode of the public types only"], time.time() - t0, len(fails))
    common.handle_failures(PROP, fails, "adversarial_input")
    log(f"[C10] ok: {total_paths} header paths, {evals} adversarial inputs, no panic")
    return 0


def replay(path, seed):
    import json
    c = json.load(open(path))
    common.cargo_build()
    d = common.outdir(PROP)
    case = c["case"]
    if isinstance(case, dict) and case.get("mode") == "mux":
        cp = os.path.join(d, "replay_case.ndjson")
        common.write_ndjson(cp, [case["case"]])
        rp = os.path.join(d, "replay_report.json")
        common.run_bin("conn_adv", ["mux", cp, rp])
    else:
        rp = os.path.join(d, "replay_report.json")
        common.run_bin("conn_adv", ["data", rp, seed, 150])
    rep = common.load_report(rp)
    common.handle_failures(PROP, rep["failures"], "replay_failure")
    log("replay: no panic")
    return 0

"""C02a: Justification.tla case table (T3) -> real high_vote / high_qc / get_implied_block."""
import os
import common
from common import log

PROP = "C02"
COMMITTEES = {
    "W4": ("MC_Just_W4", "3,1,1,1"),
    "W4n": ("MC_Just_W4", "3,1n,1,1n"),   # same cases; two members not leader-eligible (thresholds are over the TOTAL weight)
    "U6": ("MC_Just_U6", "1,1,1,1,1,1"),
    "W5b": ("MC_Just_W5b", "2,2,2,2,2,1"),
}


_CACHE = {}


def _gen(name):
    cfg, weights = COMMITTEES[name]
    if cfg in _CACHE:
        return _CACHE[cfg], weights
    r = common.tlc("bft", "MC_Just", cfg=cfg + ".cfg", workers=1, timeout=1200, xmx="8g")
    if not r.ok:
        raise common.ToolError("MC_Just failed:\n" + r.out[-1500:])
    cases = r.printed("CASE")
    if not cases:
        raise common.ToolError("MC_Just printed no cases")
    _CACHE[cfg] = cases
    return cases, weights


def run_table(tier):
    common.cargo_build()
    d = common.outdir(PROP, "table")
    # specification-level theorem (ReproposalSound) on the weighted committee
    r = common.tlc("bft", "MC_Just", cfg="MC_Just_W4s.cfg", workers=1, timeout=1200)
    if not r.ok:
        raise common.ToolError("ReproposalSound fails on Justification.tla (specification-level):\n" + r.out[-1500:])
    total, fails, samples = 0, [], []
    names = ["W4", "W4n", "U6"] if tier == "quick" else ["W4", "W4n", "U6", "W5b"]
    for name in names:
        cases, weights = _gen(name)
        cp = os.path.join(d, f"cases_{name}.ndjson")
        common.write_ndjson(cp, cases)
        rp = os.path.join(d, f"report_{name}.json")
        rc, so, se = common.run_bin("implied_replay", [cp, rp, weights], timeout=1800)
        if rc != 0:
            raise common.ToolError(f"implied_replay failed: {se[-800:]}")
        rep = common.load_report(rp)
        total += rep["evaluations"]
        for f in rep["failures"]:
            f["case"] = {"mode": "table", "committee": name, "case": f["case"]}
            fails.append(f)
        samples += rep["samples"][:1]
        log(f"[C02] table {name}: {rep['evaluations']} certificates, {len(rep['failures'])} mismatches")
    common.handle_failures(PROP, fails, "table_failure")
    return {"table_certificates": total, "table_committees": names, "table_sample": samples[:2],
            "reproposal_sound_checked_on": "weights <3,1,1,1>, all commit/timeout quorums, all faulty sets, 15-report alphabet"}


def replay(c):
    common.cargo_build()
    d = common.outdir(PROP, "table")
    case = c["case"]
    name = case["committee"]
    cp = os.path.join(d, "replay_case.ndjson")
    common.write_ndjson(cp, [case["case"]])
    rp = os.path.join(d, "replay_report.json")
    common.run_bin("implied_replay", [cp, rp, COMMITTEES[name][1]])
    rep = common.load_report(rp)
    for f in rep["failures"]:
        f["case"] = {"mode": "table", "committee": name, "case": f["case"]}
    common.handle_failures(PROP, rep["failures"], "replay_failure")
    log("replay: no mismatch")
    return 0

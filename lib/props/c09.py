"""C09 — wire encoding lossless and canonical (PARTIAL, see level_note). WireCanon.tla: abstract protobuf serialisations over a test schema with
every field shape; CanonIsSer, CanonIdem, CanonUnique checked by TLC over all bounded serialisations; every serialisation with the spec's verdict
(reject / canonical form) replayed into the real canonical_raw with a descriptor built at run time (T3). Round trips: decode(encode(v)) = v,
encode canonical, alternative serialisations (prost's own encoding, shuffled field order) normalise to the same bytes, for seeded values of the
public wire / storage types."""
import os
import time
import common
from common import log

PROP = "C09"


def run(tier, seed):
    t0 = time.time()
    common.cargo_build()
    d = common.outdir(PROP)
    maxlen = 2
    cfgname = "MC_Wire_gen.cfg"
    with open(os.path.join(common.SPECS, "wire", cfgname), "w") as f:
        f.write(f"CONSTANTS MaxLen = {maxlen}\nINIT Init\nNEXT Next\n")
    try:
        r = common.tlc("wire", "MC_Wire", cfg=cfgname, workers=1, timeout=2400, xmx="8g", xss="512m")
    finally:
        os.remove(os.path.join(common.SPECS, "wire", cfgname))
    if not r.ok:
        raise common.ToolError("WireCanon.tla properties fail on the specification:\n" + r.out[-1500:])
    cases = r.printed("CASE")
    cp = os.path.join(d, "cases.ndjson")
    common.write_ndjson(cp, cases)
    rp = os.path.join(d, "canon_report.json")
    rc, so, se = common.run_bin("wire_replay", ["canon", cp, rp], timeout=900)
    if rc != 0 and not os.path.exists(rp):
        raise common.ToolError("wire_replay canon failed: " + se[-800:])
    rep = common.load_report(rp)
    fails = list(rep["failures"])
    evals = rep["evaluations"]
    samples = rep["samples"][:2]
    rp2 = os.path.join(d, "roundtrip_report.json")
    n = 60 if tier == "quick" else 1500
    rc, so, se = common.run_bin("wire_replay", ["roundtrip", rp2, seed, n], timeout=(600 if tier == "quick" else 3000))
    if rc != 0 and not os.path.exists(rp2):
        raise common.ToolError("wire_replay roundtrip failed: " + se[-800:])
    rep2 = common.load_report(rp2)
    fails += rep2["failures"]
    evals += rep2["evaluations"]
    # boundary classes of the standard-type conversions (StdValues.tla)
    r5 = common.tlc("wire", "StdValues", cfg="StdValues.cfg", workers=1, timeout=600)
    if not r5.ok:
        raise common.ToolError("StdValues.tla failed:\n" + r5.out[-1500:])
    std_cases = r5.printed("CASE")
    cp3 = os.path.join(d, "std_cases.ndjson")
    common.write_ndjson(cp3, std_cases)
    rp3 = os.path.join(d, "std_report.json")
    rc, so, se = common.run_bin("wire_replay", ["std", cp3, rp3], timeout=600)
    if rc != 0 and not os.path.exists(rp3):
        raise common.ToolError("wire_replay std failed: " + se[-800:])
    rep3 = common.load_report(rp3)
    fails += rep3["failures"]
    evals += rep3["evaluations"]
    cov = {"states": len(cases), "transitions": evals, "traces_validated_against_impl": rep["evaluations"], "samples": samples + rep2["samples"][:1],
           "evaluations": evals, "distinct_nontrivial": rep["distinct"] + rep2["distinct"],
           "rule": f"canonical part: every sequence of <= {maxlen} entries over 21 entry shapes (singular / repeated varint, fixed32, bytes, nested and repeated "
                   "nested messages incl. inner empty packed chunks, packed chunks of 0/1/2 elements, unknown field, wrong wire types) x 5 spellings (redundant continuation bytes on values / tags / length prefixes / all); round trips: "
                   f"{n} seeded values for each of 12 wire / storage types x {{prost encoding, shuffled field order, randomly padded varints at every nesting level}}; std conversions: {len(std_cases)} boundary "
                   "classes of SocketAddr (incl. IPv4-mapped / -compatible IPv6, also inside a signed NetAddress whose signature must survive), Duration, Utc, BitVec, Rate",
           "std_classes": {"cases": len(std_cases), "outside_domain_or_unrepresentable": rep3["counters"].get("std_case_outside_the_property_domain", 0) + rep3["counters"].get("std_case_not_representable", 0)},
           "exhaustive": False,
           "not_covered": "'all values of all types': field contents are seeded samples (the repository's own test_encode_random covers the same ground); build-time schema "
                          "restrictions (protobuf_build/canonical.rs) are a compile-time check, not reachable by a run-time trace; RPC and handshake message types are crate-private"}
    common.write_evidence(PROP, tier, seed, "model_checking", cov,
                          ["a TLA+ model has no handle on byte-level fidelity beyond the value classes it enumerates (DESIGN §9)"], time.time() - t0, len(fails))
    common.handle_failures(PROP, fails, "wire_failure")
    log(f"[C09] ok: {len(cases)} serialisations, {rep2['evaluations']} round trips, {len(std_cases)} std boundary classes")
    return 0


def replay(path, seed):
    import json
    c = json.load(open(path))["case"]
    common.cargo_build()
    d = common.outdir(PROP)
    rp = os.path.join(d, "replay_report.json")
    if c.get("type") in ("std::net::SocketAddr", "time::Duration", "time::Utc", "BitVec", "limiter::Rate", "LeaderProposal", "ReplicaTimeout", "ReplicaCommit", "FinalBlock", "Block", "TimeoutQC", "Genesis", "ChonkyV2State", "Signed<NetAddress>", "Signed<ConsensusMsg>") or c.get("mode") == "std" and "case" not in c:
        r5 = common.tlc("wire", "StdValues", cfg="StdValues.cfg", workers=1, timeout=600)
        cp = os.path.join(d, "replay_case.ndjson")
        common.write_ndjson(cp, r5.printed("CASE"))
        common.run_bin("wire_replay", ["std", cp, rp])
    elif c.get("mode") == "std":
        cp = os.path.join(d, "replay_case.ndjson")
        common.write_ndjson(cp, [c["case"]])
        common.run_bin("wire_replay", ["std", cp, rp])
    elif c.get("mode") == "canon":
        cp = os.path.join(d, "replay_case.ndjson")
        common.write_ndjson(cp, [c["case"]])
        common.run_bin("wire_replay", ["canon", cp, rp])
    else:
        common.run_bin("wire_replay", ["roundtrip", rp, seed, 200])
    rep = common.load_report(rp)
    common.handle_failures(PROP, rep["failures"], "replay_failure")
    log("replay: no violation")
    return 0

"""C13 — encrypted transport delivers exactly the bytes written, or fails. NoiseStream.tla: frame segmentation of a write/flush sequence,
FrameBound, NoTamperComplete, PrefixDelivery, and the outcome of each single tampering (flip, truncate, duplicate, swap, drop, inserted
zero-length / garbage frame). TLC enumerates the scenarios with the spec's predicted frames and outcome; noise_replay runs each on a real
noise::Stream pair over the scripted transport with seeded fragmentation and spurious Pendings (T2)."""
import os
import time
import common
from common import log

PROP = "C13"


def run(tier, seed):
    t0 = time.time()
    common.cargo_build()
    d = common.outdir(PROP)
    r = common.tlc("network", "MC_Noise", cfg="MC_Noise.cfg", workers=1, timeout=1800, xmx="8g")
    if not r.ok:
        raise common.ToolError("NoiseStream.tla properties fail on the specification:\n" + r.out[-1500:])
    cases = r.printed("CASE")
    total = len(cases)
    if tier == "quick":
        cases = [c for i, c in enumerate(cases) if (i + seed) % 4 == 0 or c["tamper"] == "none"]
    nrounds = 1 if tier == "quick" else 4
    evals, fails, samples, drift, notes = 0, [], [], 0, []
    for k in range(nrounds):
        cp = os.path.join(d, "cases.ndjson")
        common.write_ndjson(cp, cases)
        rp = os.path.join(d, f"report_{k}.json")
        rc, so, se = common.run_bin("noise_replay", [cp, rp, seed * 10 + k], timeout=(600 if tier == "quick" else 3000))
        if rc != 0:
            raise common.ToolError("noise_replay failed: " + se[-800:])
        rep = common.load_report(rp)
        evals += rep["evaluations"]
        fails += rep["failures"]
        samples += rep["samples"][:2]
        drift += rep["counters"].get("drift", 0)
        notes += rep["notes"][:2]
    if drift:
        log(f"NOTE drift component=noise: {drift} scenario(s) differ from the implementation-shaped prediction (frame sizes / end kind) without violating C13: {notes[:2]}")
    cov = {"states": total, "transitions": evals, "traces_validated_against_impl": evals, "samples": samples[:3],
           "evaluations": evals, "distinct_nontrivial": len(cases),
           "rule": "scenarios = all sequences of <= 3 operations over writes of {1, Max-1, Max, Max+1, 2Max+1} bytes (Max = 65519) and flush, x every tamper "
                   "kind x every frame position; states = scenarios enumerated by TLC (a function table, not a transition system); each replay uses a seeded "
                   "fragmentation / Pending pattern for both directions and a seeded read size",
           "exhaustive": tier != "quick", "scenarios_enumerated": total, "drift": drift}
    common.write_evidence(PROP, tier, seed, "model_checking", cov,
                          ["AEAD soundness (ChaChaPoly) assumed; tampering = single-point modifications of the catalogue", "fragmentation patterns are sampled, not enumerated"],
                          time.time() - t0, len(fails))
    common.handle_failures(PROP, fails, "scenario_failure")
    log(f"[C13] ok: {total} scenarios enumerated, {evals} replays, drift {drift}")
    return 0


def replay(path, seed):
    import json
    c = json.load(open(path))["case"]
    common.cargo_build()
    d = common.outdir(PROP)
    cp = os.path.join(d, "replay_case.ndjson")
    common.write_ndjson(cp, [c["case"]])
    rp = os.path.join(d, "replay_report.json")
    common.run_bin("noise_replay", [cp, rp, c.get("seed", 1)])
    rep = common.load_report(rp)
    common.handle_failures(PROP, rep["failures"], "replay_failure")
    log("replay: no violation")
    return 0

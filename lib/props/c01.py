"""C01 — Agreement. ChonkyBFT.tla (Agreement, StoreAppendOnly, CertUnique) by TLC; real StateMachines under a seeded
adversarial driver (loss/dup/reorder, Byzantine equivocation with real signatures, crashes, block sync) with every
observed state checked by TLC (TraceChonky: NoBadC01 = two nodes differ / chain replaced; NoBadC08 for sync)."""
import bftcommon as b

PROP = "C01"
RULE = ("model: BFS of MC_Chonky (weights <3,1,1,1>, one faulty weight-1 validator, views bootstrapped at 1, bound 2, 2 payloads); "
        "code: seeded random schedules per committee config x seeds on real replicas; every event of every trace is a TLC state in "
        "which Agreement / append-only are evaluated on the blocks actually persisted; distinct = handler outcome classes seen + model configs")
ASSUME = ["BLS/keccak are sound; a correct key signs only inside its Replica instance (harness discipline)",
          "durable medium = harness engine (atomic set_state, blocks persisted on queue_next_block)",
          "model bounds: 4 validators, views <= 2, <= 2 blocks; larger committees sampled by the driver only"]


def run(tier, seed):
    return b.run_property(PROP, tier, seed, ["MC_Chonky_W4c1", ("MC_Chonky_W4a1", 100)], ["MC_Chonky_W4c1", "MC_Chonky_W4a1", "MC_Chonky_W4b1", "MC_Chonky_W4c0"],
                          "TraceChonky_C01.cfg", {"C01", "C08"}, {"panic"}, RULE, ASSUME, model_timeout_quick=260)


def replay(path, seed):
    return b.replay_random(PROP, path, "TraceChonky_C01.cfg", {"C01", "C08"})

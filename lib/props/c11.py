"""C11 — leader election. Leader.tla: TLC checks Total/Eligible/Rotation/WShare over the bounded schedule space and
prints the T3 table; leader_replay runs the real Schedule::new + view_leader on every case, every permutation."""
import json
import os
import time
import common
from common import log

PROP = "C11"


def _gen(tier, d):
    maxlen, maxw = (3, 3) if tier == "quick" else (4, 3)
    cfgname = "MC_Leader_gen.cfg"
    with open(os.path.join(common.SPECS, "bft", cfgname), "w") as f:
        f.write(f"CONSTANTS MaxLen = {maxlen} MaxW = {maxw} MaxFreq = 3 MaxView = 12\nINIT Init\nNEXT Next\n")
    try:
        r = common.tlc("bft", "MC_Leader", cfg=cfgname, workers=1, timeout=1800)
    finally:
        os.remove(os.path.join(common.SPECS, "bft", cfgname))
    if not r.ok:
        raise common.ToolError("TLC: Leader.tla spec-level properties failed:\n" + r.out[-1500:])
    cases = r.printed("CASE")
    if not cases:
        raise common.ToolError("no cases printed by MC_Leader")
    return cases, (maxlen, maxw)


def run(tier, seed):
    t0 = time.time()
    d = common.outdir(PROP)
    common.cargo_build()
    cases, (maxlen, maxw) = _gen(tier, d)
    cases_path = os.path.join(d, "cases.ndjson")
    common.write_ndjson(cases_path, cases)
    rep_path = os.path.join(d, "report.json")
    rc, so, se = common.run_bin("leader_replay", [cases_path, rep_path, 3000 if tier == "quick" else 20000], timeout=(900 if tier == "quick" else 14400))
    if rc != 0:
        raise common.ToolError(f"leader_replay failed rc={rc}: {se[-1500:]}")
    rep = common.load_report(rep_path)
    c = rep["counters"]
    cov = {
        "states": len(cases),
        "transitions": rep["evaluations"],
        "traces_validated_against_impl": len(cases),
        "samples": rep["samples"],
        "evaluations": rep["evaluations"],
        "distinct_nontrivial": rep["distinct"],
        "rule": f"all valid schedules with <= {maxlen} validators, weights 1..{maxw}, every eligible subset; round-robin: "
                "freq 0..3 x views 0..12 from the spec table + 7 64-bit views by the rotation law; weighted: freq 0,1,2, views "
                "scanned until every residue 0..W-1 of keccak(turn) mod W was realised; every permutation of the listing; "
                "4 schedules with 64-bit weights. states = schedules enumerated by TLC (the T3 table is a function table, not a "
                "transition system); distinct = distinct (schedule, mode, freq, view|residue) under the identity listing",
        "exhaustive": True,
        "residues_wanted": c.get("residues_wanted", 0),
        "residues_realised": c.get("residues_realised", 0),
    }
    viol = len(rep["failures"])
    common.write_evidence(PROP, tier, seed, "model_checking", cov,
                          ["keccak-256 is treated as a uniform hash: proportionality is exact over residues (WShare in Leader.tla)",
                           "64-bit views beyond TLC's 32-bit integers are checked by the rotation law evaluated in the harness"],
                          time.time() - t0, viol)
    if c.get("residues_realised", 0) < c.get("residues_wanted", 0):
        log(f"NOTE: only {c.get('residues_realised')} of {c.get('residues_wanted')} residues realised within the scan limit")
    common.handle_failures(PROP, rep["failures"])
    log(f"[C11] ok: {len(cases)} schedules, {rep['evaluations']} evaluations, {rep['distinct']} distinct cases")
    return 0


def replay(path, seed):
    c = json.load(open(path))["case"]
    d = common.outdir(PROP)
    common.cargo_build()
    cases, _ = _gen("thorough" if len(c.get("sched", [])) > 3 else "quick", d)
    sel = [x for x in cases if x["sched"] == c.get("sched")]
    cases_path = os.path.join(d, "replay_cases.ndjson")
    common.write_ndjson(cases_path, sel)
    rep_path = os.path.join(d, "replay_report.json")
    common.run_bin("leader_replay", [cases_path, rep_path, 20000])
    rep = common.load_report(rep_path)
    log(f"replay: {len(rep['failures'])} failure(s) on schedule {c.get('sched')}")
    common.handle_failures(PROP, rep["failures"], "replay_failure")
    return 0

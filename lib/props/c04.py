"""C04 — certificates accepted exactly when backed by a quorum. Certs.tla states validity; MC_Certs enumerates, per committee, every
signer subset x chain binding x bitmap length x signature corruption (commit certificates), every two-group split x corruption
and every assignment of validators to subsets of three reports (timeout certificates; overlapping, non-adjacent groups) and every sequence of <=3 incremental adds to a commit certificate and <=2..3 adds to a timeout certificate (then completed by valid votes), each with the SPEC's verdict; certs_replay materialises each case
with real BLS keys/signatures and compares accept/reject of the real verify()/add() (T3)."""
import os
import time
import common
from common import log

PROP = "C04"
COMMITTEES = {
    "W4": ("{1,2,3,4}", "W3111", "3,1,1,1"),
    "U4": ("{1,2,3,4}", "W1111", "1,1,1,1"),
    "U6": ("{1,2,3,4,5,6}", "W111111", "1,1,1,1,1,1"),
    "S2": ("{1,2}", "W12", "10,20"),
    "W5b": ("{1,2,3,4,5,6}", "W222221", "2,2,2,2,2,1"),
    # same weights as W4, two members not leader-eligible: quorums are over the total weight, eligibility must not matter
    "W4n": ("{1,2,3,4}", "W3111", "3,1n,1,1n"),
}


def _gen(comm, mode):
    vals, w, _ = COMMITTEES[comm]
    cfgname = f"MC_Certs_gen_{comm}_{mode}.cfg"
    p = os.path.join(common.SPECS, "bft", cfgname)
    with open(p, "w") as f:
        f.write(f'CONSTANTS Validators = {vals} Weight <- {w} BadPayloads = {{}} Weaken = "none" Mode = "{mode}"\nINIT Init\nNEXT Next\n')
    try:
        r = common.tlc("bft", "MC_Certs", cfg=cfgname, workers=1, timeout=1800, xmx="8g")
    finally:
        os.remove(p)
    if not r.ok:
        raise common.ToolError("MC_Certs failed:\n" + r.out[-1500:])
    return r.printed("CASE")


def _plan(tier):
    if tier == "quick":
        return [("W4", "cqc"), ("W4", "tqc"), ("W4", "tqc3"), ("U4", "tqc3"), ("W4", "add2"), ("W4", "tadd2"), ("U4", "tadd2"), ("W4n", "cqc"), ("W4n", "tqc"), ("U6", "cqc"), ("S2", "cqc"), ("S2", "tqc"), ("U4", "add3")]
    return [(c, m) for c in ["W4", "U4", "U6", "S2", "W5b", "W4n"] for m in ["cqc", "tqc", "add3"] if not (c in ("U6", "W5b") and m == "add3")] + [("U6", "add2"), ("W4", "tqc3"), ("U4", "tqc3"), ("S2", "tqc3"), ("W4", "tadd3"), ("U4", "tadd3"), ("U6", "tadd2")]


def run(tier, seed):
    t0 = time.time()
    common.cargo_build()
    d = common.outdir(PROP)
    total, distinct, fails, samples, tables = 0, 0, [], [], []
    for comm, mode in _plan(tier):
        cases = _gen(comm, mode)
        if tier == "thorough" and mode == "tadd3":
            cases = [c for i, c in enumerate(cases) if (i + seed) % 3 == 0]
        if tier == "quick" and mode == "add3":
            cases = [c for i, c in enumerate(cases) if (i + seed) % 4 == 0]
        cp = os.path.join(d, f"cases_{comm}_{mode}.ndjson")
        common.write_ndjson(cp, cases)
        rp = os.path.join(d, f"report_{comm}_{mode}.json")
        rc, so, se = common.run_bin("certs_replay", [cp, rp, COMMITTEES[comm][2]], timeout=(600 if tier == "quick" else 3000))
        if rc != 0:
            raise common.ToolError(f"certs_replay failed: {se[-800:]}")
        rep = common.load_report(rp)
        total += rep["evaluations"]
        distinct += rep["distinct"]
        for f in rep["failures"]:
            f["case"] = {"committee": comm, "mode": mode, "case": f["case"]}
            fails.append(f)
        samples += rep["samples"][:1]
        tables.append({"committee": comm, "table": mode, "cases": len(cases), "mismatches": len(rep["failures"]),
                       "not_materialisable": rep["counters"].get("tqc_case_not_materialisable", 0)})
        if rep["counters"].get("drift_tadd_groups"):
            log(f"NOTE drift component=timeout_qc_add: {rep['counters']['drift_tadd_groups']} case(s) keep a different number of message groups than Certs.tla after a refused vote (verdict = final verify)")
        log(f"[C04] {comm}/{mode}: {len(cases)} cases, {len(rep['failures'])} mismatches")
    cov = {
        "states": distinct, "transitions": total, "traces_validated_against_impl": distinct,
        "samples": samples[:4], "evaluations": total, "distinct_nontrivial": distinct,
        "rule": "one case = one certificate (or add sequence) enumerated by TLC from Certs.tla with the spec's verdict; states = cases, "
                "transitions = real verify()/add() calls compared (a commit-certificate case is also checked as FinalBlock, block with a "
                "mismatching payload, LeaderProposal and ReplicaNewView)",
        "exhaustive": True, "tables": tables,
    }
    viol = len(fails)
    common.write_evidence(PROP, tier, seed, "model_checking", cov,
                          ["BLS soundness (a genuine aggregate verifies, any corrupted one does not) is the cryptographic assumption; the spec's `sig` "
                           "flag is set by construction of each corruption", "multi-field corruptions are not enumerated"], time.time() - t0, viol)
    common.handle_failures(PROP, fails, "table_failure")
    log(f"[C04] ok: {distinct} cases, {total} real calls compared")
    return 0


def replay(path, seed):
    import json
    c = json.load(open(path))["case"]
    common.cargo_build()
    d = common.outdir(PROP)
    cp = os.path.join(d, "replay_case.ndjson")
    common.write_ndjson(cp, [c["case"]])
    rp = os.path.join(d, "replay_report.json")
    common.run_bin("certs_replay", [cp, rp, COMMITTEES[c["committee"]][2]])
    rep = common.load_report(rp)
    for f in rep["failures"]:
        f["case"] = {"committee": c["committee"], "mode": c["mode"], "case": f["case"]}
    common.handle_failures(PROP, rep["failures"], "replay_failure")
    log("replay: no mismatch")
    return 0

"""C18 — validator address book. AddrBook.tla: Update (reject duplicate key / forged newer entry, skip non-members and non-newer,
all-or-nothing), Monotone (action property), Authentic + RejectedBatchNoChange (asserted on every transition), Convergence (ASSUME over
all 3-element sets of honest announcements in all orders). TLC prints every transition (book, batch) -> (ok, book'), replayed on the
real ValidatorAddrsWatch with real signatures (T2)."""
import os
import time
import common
from common import log

PROP = "C18"


def _gen(tier):
    maxa = 1 if tier == "quick" else 2
    cfgname = "MC_AddrBook_gen.cfg"
    p = os.path.join(common.SPECS, "network", cfgname)
    with open(p, "w") as f:
        f.write(f'CONSTANTS Members = {{"v1", "v2"}} Outsiders = {{"x"}} MaxVer = 1 MaxTs = 1 MaxA = {maxa}\nINIT Init\nNEXT Next\n'
                'PROPERTIES Monotone\nCHECK_DEADLOCK FALSE\n')
    try:
        r = common.tlc("network", "MC_AddrBook", cfg=cfgname, workers=1, timeout=3000, xmx="8g")
    finally:
        os.remove(p)
    if not r.ok:
        raise common.ToolError("AddrBook.tla properties fail on the specification:\n" + r.out[-1500:])
    return r, r.printed("CASE")


def run(tier, seed):
    t0 = time.time()
    common.cargo_build()
    d = common.outdir(PROP)
    r, cases = _gen(tier)
    total = len(cases)
    if tier == "quick":
        # all single-entry batches + every 4th two-entry batch (BLS verification dominates); thorough replays everything
        cases = [c for i, c in enumerate(cases) if len(c["batch"]) == 1 or (i + seed) % 4 == 0]
    cp = os.path.join(d, "cases.ndjson")
    common.write_ndjson(cp, cases)
    rp = os.path.join(d, "report.json")
    rc, so, se = common.run_bin("addrbook_replay", [cp, rp], timeout=(600 if tier == "quick" else 3000))
    if rc != 0:
        raise common.ToolError("addrbook_replay failed: " + se[-800:])
    rep = common.load_report(rp)
    import nodeaddrs
    node_cov, viol = {}, 0
    try:
        common.handle_failures(PROP, rep["failures"], "transition_failure")
        node_cov = nodeaddrs.run(tier, seed)
    except common.Violation:
        viol = 1
        raise
    finally:
        _evidence(tier, seed, r, total, rep, node_cov, t0, viol)
    log(f"[C18] ok: {r.distinct} books, {total} transitions enumerated, {rep['evaluations']} replayed")
    return 0


def _evidence(tier, seed, r, total, rep, node_cov, t0, viol):
    cov = {
        "states": r.distinct, "transitions": total, "traces_validated_against_impl": rep["evaluations"],
        "samples": rep["samples"][:3], "evaluations": rep["evaluations"], "distinct_nontrivial": rep["distinct"],
        "rule": "states = reachable address books (2 committee keys x {none, (version,timestamp) in 0..1^2}); transitions = every batch of <= 2 "
                "entries over keys {v1,v2,outsider} x version x timestamp x forged from every reachable book; each replayed transition first "
                "re-establishes the pre-state on a fresh real address book",
        "exhaustive": tier != "quick", "transitions_enumerated": total, "node_level": node_cov,
    }
    common.write_evidence(PROP, tier, seed, "model_checking", cov,
                          ["forged = signature by another key (BLS soundness assumed)",
                           "node level: the connection attempt is the observation of 'the address a node will dial'; the node's own announcement (loopback) is not scripted"],
                          time.time() - t0, viol)


def replay(path, seed):
    import json
    c0 = json.load(open(path))
    common.cargo_build()
    if c0.get("mode") == "node_addrs":
        import nodeaddrs
        return nodeaddrs.replay(c0)
    c = c0["case"]
    if c.get("mode") == "node_addrs":
        import nodeaddrs
        return nodeaddrs.replay({"seed": c["seed"], "runs": 6, "batches": 60})
    d = common.outdir(PROP)
    cp = os.path.join(d, "replay_case.ndjson")
    common.write_ndjson(cp, [c["case"]])
    rp = os.path.join(d, "replay_report.json")
    common.run_bin("addrbook_replay", [cp, rp])
    rep = common.load_report(rp)
    common.handle_failures(PROP, rep["failures"], "replay_failure")
    log("replay: no mismatch")
    return 0

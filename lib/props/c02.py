"""C02 — certificate uniqueness / re-proposal rule. (a) Justification-level: TLC enumerates timeout certificates over
small committees with the spec's verdict (ReproposalSound checked on the spec) and the table is replayed into the real
TimeoutQC::high_vote/high_qc/get_implied_block (T3, implied_replay). (b) History-level: CertUnique on ChonkyBFT.tla by TLC and
on every observed state of the real-replica traces (NoBadC02)."""
import os
import time
import bftcommon as b
import common

PROP = "C02"
RULE = ("(a) every timeout certificate of the bounded report alphabet per committee (spec verdict vs real functions, exact); "
        "(b) BFS of MC_Chonky with CertUnique + seeded adversarial runs of real replicas, CertUnique evaluated by TLC on the commit "
        "votes the replicas actually signed (+ total faulty weight) in every event")
ASSUME = ["unforgeability: only votes actually signed by correct replicas count, faulty weight <= f is added to every candidate",
          "payload hash collision-free"]


def table(prop, tier, seed):
    import props.c02table as t
    return t.run_table(tier)


def run(tier, seed):
    return b.run_property(PROP, tier, seed, ["MC_Chonky_W4c1", ("MC_Chonky_W4b1", 100)], ["MC_Chonky_W4c1", "MC_Chonky_W4a1", "MC_Chonky_W4b1"],
                          "TraceChonky_C02.cfg", {"C02"}, {"panic"}, RULE, ASSUME, model_timeout_quick=260, extra=table)


def replay(path, seed):
    import json
    c = json.load(open(path))
    if c.get("mode") == "table":
        import props.c02table as t
        return t.replay(c)
    return b.replay_random(PROP, path, "TraceChonky_C02.cfg", {"C02"})

"""C17 — task scopes join every task, report a first failure, cancel the rest. Scope.tla models a scope running a PROGRAM (tree of main /
background tasks that succeed, fail, panic or wait for cancellation; body result; outside cancellation) and TLC explores every schedule of
every program of the bounded space, printing every reachable outcome (OutcomeSound checked on the model). Every program is then run with
the real scope::run! on a multi-threaded runtime; the observed outcome must be one the specification reaches, all tasks must have finished
at return, and no run may hang (T2)."""
import os
import time
import common
from common import log

PROP = "C17"


def run(tier, seed):
    t0 = time.time()
    common.cargo_build()
    d = common.outdir(PROP)
    maxtasks = 2 if tier == "quick" else 3
    cfgname = "MC_Scope_gen.cfg"
    with open(os.path.join(common.SPECS, "concurrency", cfgname), "w") as f:
        f.write(f"CONSTANTS MaxTasks = {maxtasks} Programs <- AllPrograms\nINIT Init\nNEXT Next\nINVARIANTS OutcomeSound Done\nCHECK_DEADLOCK FALSE\n")
    try:
        r = common.tlc("concurrency", "MC_Scope", cfg=cfgname, workers=8, timeout=2400, xmx="16g")
    finally:
        os.remove(os.path.join(common.SPECS, "concurrency", cfgname))
    if not r.ok:
        raise common.ToolError("Scope.tla: OutcomeSound fails on the specification:\n" + r.out[-1500:])
    cases = r.printed("CASE")
    cp = os.path.join(d, "cases.ndjson")
    common.write_ndjson(cp, cases)
    rp = os.path.join(d, "report.json")
    reps = 40 if tier == "quick" else 30
    for stale in (rp, rp + ".cur"):
        if os.path.exists(stale):
            os.remove(stale)
    rc, so, se = common.run_bin("scope_drv", [cp, rp, seed, reps], timeout=(600 if tier == "quick" else 3000))
    if rc != 0 and (not os.path.exists(rp) or os.path.getsize(rp) == 0):
        rep = {"evaluations": 1, "distinct": 1, "samples": [], "failures": died(d, rp, rc, se, seed), "counters": {}, "notes": []}
    else:
        rep = common.load_report(rp)
    cov = {"states": r.distinct, "transitions": r.generated, "traces_validated_against_impl": rep["evaluations"], "samples": rep["samples"][:3] or [{}],
           "evaluations": rep["evaluations"], "distinct_nontrivial": rep["distinct"],
           "rule": f"programs = every task tree with <= {maxtasks} tasks over kinds {{ok, e1, e2, panic, wait_ok, wait_e3}} x main/background x parent x body "
                   "result {ok, e0, panic of the root task} x outside cancellation; model: every schedule of every program; code: each non-hanging program executed "
                   f"{reps} times with random yields on 4 worker threads; distinct = programs executed",
           "exhaustive": True, "programs_skipped_may_hang": rep["counters"].get("programs_skipped_may_hang", 0),
           "distinct_program_outcomes_observed": rep["counters"].get("distinct_program_outcomes_observed", 0),
           "program_outcomes_in_spec": len({(str(c["prog"]), c["outcome"]) for c in cases})}
    common.write_evidence(PROP, tier, seed, "model_checking", cov,
                          ["thread schedules of the real runtime are whatever tokio produces under random yields (not enumerated); the specification's outcome "
                           "set per program is exhaustive", "nested scopes (other than as a way of waiting / as the caller's context) and tasks spawned late (after their parent's first step) are not in the program space",
                           "'no other task failed strictly before it' is checked through the outcome sets (e.g. an error of a task that only fails after observing "
                           "cancellation caused by another failure can never be the result)",
                           "every third execution runs the program as a blocking scope (scope::run_blocking!, spawn_blocking / spawn_bg_blocking, blocking waits)"],
                          time.time() - t0, len(rep["failures"]))
    common.handle_failures(PROP, rep["failures"], "program_failure")
    log(f"[C17] ok: {r.distinct} model states, {rep['distinct']} programs x {reps} runs")
    return 0


def died(d, rp, rc, se, seed):
    """The driver process died (signal / abort) while executing a program with the real scope. Tasks borrow the scope and its context for the scope's lifetime
    (that is what 'returns only after every task has finished' buys): a scope that returns early leaves them with dangling borrows. The program at fault is re-run
    alone, twice; only a reproducible death is a verdict."""
    import json
    cur = rp + ".cur"
    if not os.path.exists(cur):
        raise common.ToolError(f"scope_drv failed (rc={rc}): " + se[-800:])
    c = json.load(open(cur))
    cases = [{"prog": c["prog"], "outcome": o} for o in c["allowed"]]
    cp = os.path.join(d, "died_case.ndjson")
    common.write_ndjson(cp, cases)
    again = 0
    for k in range(2):
        rp2 = os.path.join(d, f"died_report_{k}.json")
        if os.path.exists(rp2):
            os.remove(rp2)
        rc2, so2, se2 = common.run_bin("scope_drv", [cp, rp2, seed + k, 300], timeout=600)
        if rc2 != 0 and (not os.path.exists(rp2) or os.path.getsize(rp2) == 0):
            again += 1
        elif os.path.exists(rp2):
            rep2 = common.load_report(rp2)
            if rep2["failures"]:
                return rep2["failures"]
    if again == 2:
        return [{"key": "scope_process_died", "what": f"the process executing this program with the real scope dies (rc={rc}; reproduced twice on the program alone): "
                                       "the scope returned - or unwound - while tasks spawned in it were still running, leaving them with dangling borrows of the scope and its context",
                                       "case": {"prog": c["prog"], "seed": c["seed"], "allowed": c["allowed"]}}]
    raise common.ToolError(f"scope_drv died once (rc={rc}) on {json.dumps(c['prog'])} but not when the program was re-run alone: " + se[-600:])


def replay(path, seed):
    import json
    c = json.load(open(path))["case"]
    common.cargo_build()
    d = common.outdir(PROP)
    cases = [{"prog": c["prog"], "outcome": o} for o in c["allowed"]]
    cp = os.path.join(d, "replay_case.ndjson")
    common.write_ndjson(cp, cases)
    rp = os.path.join(d, "replay_report.json")
    common.run_bin("scope_drv", [cp, rp, c.get("seed", seed), 200])
    rep = common.load_report(rp)
    common.handle_failures(PROP, rep["failures"], "replay_failure")
    log("replay: no violation")
    return 0

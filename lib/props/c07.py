"""C07 — quorum threshold arithmetic. Quorum.tla: theorem proved by TLAPS for all naturals; TLC re-checks
the conjunction on 1..MaxN and prints the T3 table; quorum_check compares the real functions with the
table and with the (proved-unique) characterisation on 64-bit boundary and seeded points."""
import os
import time
import common
from common import log

PROP = "C07"


def run(tier, seed):
    t0 = time.time()
    d = common.outdir(PROP)
    common.cargo_build()
    # 1. proof
    obl, proved, out = common.tlapm("bft", "Quorum")
    log(f"[C07] TLAPS: {proved}/{obl} obligations proved")
    if proved != obl:
        raise common.ToolError("TLAPS failed to prove Quorum.tla theorems (specification-side problem):\n" + out[-1500:])
    # 2. TLC guard + table
    maxn = 3000 if tier == "quick" else 20000
    cfg = os.path.join(d, "MC_Quorum.cfg")
    with open(os.path.join(common.SPECS, "bft", "MC_Quorum_gen.cfg"), "w") as f:
        f.write(f"CONSTANT MaxN = {maxn}\nINIT Init\nNEXT Next\n")
    r = common.tlc("bft", "MC_Quorum", cfg="MC_Quorum_gen.cfg", workers=1, timeout=900)
    os.remove(os.path.join(common.SPECS, "bft", "MC_Quorum_gen.cfg"))
    if not r.ok:
        raise common.ToolError("TLC: Quorum assumptions failed on the specification:\n" + r.out[-1500:])
    cases = r.printed("CASE")
    nrows = len([c for c in cases if c.get("kind") != "committee"])
    ncomm = len(cases) - nrows
    if nrows != maxn or ncomm == 0:
        raise common.ToolError(f"expected {maxn} table rows and a committee table, got {nrows} / {ncomm}")
    cases_path = os.path.join(d, "cases.ndjson")
    common.write_ndjson(cases_path, cases)
    # 3. real code
    rep_path = os.path.join(d, "report.json")
    extra = 20000 if tier == "quick" else 2000000
    rc, so, se = common.run_bin("quorum_check", [cases_path, rep_path, seed, extra])
    if rc != 0:
        raise common.ToolError(f"quorum_check failed rc={rc}: {se[-1500:]}")
    rep = common.load_report(rep_path)
    viol = len(rep["failures"])
    cov = {
        "obligations": obl,
        "discharged": proved,
        "checker_cmd": "tlapm --threads 8 --cleanfp specs/bft/Quorum.tla ; tlc MC_Quorum (ASSUME over 1..%d) ; harness quorum_check" % maxn,
        "trusted_base": ["TLAPS 1.6.0-pre SMT backend", "TLC 1.8.0", "the Rust functions are tied to the proved function by "
                         "exact comparison on the enumerated table and by the characterisation 5f+1<=n<5f+6 (proved unique) "
                         "on sampled 64-bit points, not by a proof about Rust"],
        "evaluations": rep["evaluations"],
        "distinct_nontrivial": rep["distinct"],
        "rule": "table rows n=1..%d (spec value vs code, exact) + 64-bit boundary points (around 2^16,2^31..2^63, u64::MAX, "
                "u64::MAX/3, /5) + %d seeded log-uniform points checked against the characterisation in u128 with overflow "
                "checks on; distinct = distinct n" % (maxn, extra),
        "samples": rep["samples"],
        "exhaustive": False,
        "tlc_table_rows": maxn, "committee_table_rows": ncomm,
    }
    common.write_evidence(PROP, tier, seed, "proof", cov,
                          ["TLA+ integers are unbounded; 64-bit safety follows from Bounded(n): all intermediates lie in 0..n",
                           "code tied to spec by enumeration/sampling"], time.time() - t0, viol)
    common.handle_failures(PROP, rep["failures"])
    log(f"[C07] ok: {obl} obligations, table {maxn}, {rep['evaluations']} evaluations")
    return 0


def replay(path, seed):
    import json
    c = json.load(open(path))
    d = common.outdir(PROP)
    common.cargo_build()
    case = c["case"]
    n = case.get("n")
    cases_path = os.path.join(d, "replay_cases.ndjson")
    if "f" in case and "origin" not in case:
        common.write_ndjson(cases_path, [case])
    else:
        common.write_ndjson(cases_path, [])
    rep_path = os.path.join(d, "replay_report.json")
    common.run_bin("quorum_check", [cases_path, rep_path, seed, 0])
    rep = common.load_report(rep_path)
    log(f"replay n={n}: {len(rep['failures'])} failure(s)")
    common.handle_failures(PROP, rep["failures"], "replay_failure")
    return 0

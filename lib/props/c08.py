"""C08 — block store: verified, gap-free, append-only. BlockStore.tla (OnlyVerified, Contiguous, HandedInOrder, NoSubstitution,
PersistedMonotone) by TLC over every interleaving of offers, pushes, hand-outs, durable-write completions, side-channel jumps, pruning
and restarts; the real EngineManager + runner under a seeded driver whose persistence layer is scheduled by the driver, every quiescent
observation checked by TLC (TraceStore.tla)."""
import os
import re
import time
import common
from common import log

PROP = "C08"


def _validate(trace):
    r = common.tlc("engine", "TraceStore", cfg="TraceStore.cfg", workers=1, timeout=900, env_extra={"TRACE": trace}, dfs=True, xss="1g", xmx="4g")
    if r.ok:
        return None, r.distinct
    m = [x for x in re.finditer(r'bad (?:=|\|->) "([^"]*)"', r.out) if x.group(1) != "none"]
    if m:
        return m[-1].group(1), r.distinct
    raise common.ToolError("TraceStore failed without a finding:\n" + r.out[-1500:])


def _validate_epochs(trace):
    r = common.tlc("engine", "TraceEpochs", cfg="TraceEpochs.cfg", workers=1, timeout=600, env_extra={"TRACE": trace}, xss="1g", xmx="4g")
    m = re.search(r'<<\s*"VERDICT",\s*"([^"]*)",\s*(\d+),\s*(\d+)\s*>>', r.out)
    if not m:
        raise common.ToolError("TraceEpochs produced no verdict:\n" + r.out[-1500:])
    what = None if m.group(1) == "ok" else f"{m.group(1)} (event {m.group(2)} of the recorded trace)"
    return what, int(m.group(3))


def run(tier, seed):
    t0 = time.time()
    common.cargo_build()
    d = common.outdir(PROP)
    mcfg = "MC_BlockStore.cfg" if tier == "quick" else "MC_BlockStore_4.cfg"
    m = common.tlc("engine", "BlockStore", cfg=mcfg, workers=12, timeout=2400, xmx="16g")
    if not m.ok:
        raise common.ToolError("BlockStore.tla properties fail on the specification:\n" + m.out[-1500:])
    plan = [(300, 40, "mixed"), (300, 12, "mixed"), (700, 400, "bulk"), (400, 300, "burst0")] if tier == "quick" else \
        [(300, 40, "mixed"), (300, 12, "mixed"), (700, 400, "bulk"), (1000, 500, "bulk"), (500, 6, "mixed"), (1000, 300, "mixed"), (400, 300, "burst0")]
    nseeds = 3 if tier == "quick" else 15
    traces, events, samples, viol = 0, 0, [], 0
    ep_states, ep_traces, ep_events, ep_admitted, ep_max_known, ep_samples = 0, 0, 0, 0, 0, []
    gf_cov = {}
    try:
        for (steps, maxn, profile) in plan:
            for k in range(nseeds):
                s = seed * 100 + k
                trace = os.path.join(d, f"t_{steps}_{maxn}_{s}.ndjson")
                rep = os.path.join(d, f"r_{steps}_{maxn}_{s}.json")
                rc, so, se = common.run_bin("blockstore_drv", [trace, rep, s, steps, maxn, profile], timeout=900)
                if rc != 0 and not os.path.exists(rep):
                    raise common.ToolError("blockstore_drv failed: " + se[-800:])
                r = common.load_report(rep)
                common.handle_failures(PROP, r["failures"], "driver_failure")
                what, n = _validate(trace)
                events += n
                traces += 1
                if len(samples) < 3 or (profile == "bulk" and len(samples) < 4):
                    samples.append({"run": r["samples"][0], "counters": r["counters"]})
                if what:
                    viol = 1
                    path = common.write_replay(PROP, "trace_violation", {"property": PROP, "seed": s, "steps": steps, "maxn": maxn, "profile": profile, "what": what, "trace": trace})
                    raise common.Violation(PROP, what, path)
        # ---- block admission by kind / number / claimed epoch / signing committee and the dynamic validator schedule (Epochs.tla)
        for cfgname, must_fail in [("MC_Epochs_honest.cfg", None), ("MC_Epochs_byz.cfg", None), ("MC_Epochs_lag.cfg", "RightCommittee")]:
            me = common.tlc("engine", "MC_Epochs", cfg=cfgname, workers=8, timeout=900, xmx="8g")
            if must_fail:
                if me.violated != must_fail:
                    raise common.ToolError(f"{cfgname}: expected {must_fail} to be violated (the environment assumption would be vacuous), got {me.violated}")
            elif not me.ok:
                raise common.ToolError(f"Epochs.tla properties fail on the specification ({cfgname}):\n" + me.out[-1500:])
            else:
                ep_states += me.distinct
        for (g, l) in [(3, 3), (0, 2), (2, 4), (5, 1)]:
            for k in range(3 if tier == "quick" else 25):
                s = seed * 100 + k
                trace = os.path.join(d, f"ep_{g}_{l}_{s}.ndjson")
                rep = os.path.join(d, f"ep_{g}_{l}_{s}.json")
                steps = 260 if tier == "quick" else 800
                rc, so, se = common.run_bin("epoch_drv", [trace, rep, s, steps, g, l], timeout=600)
                if rc != 0 and not os.path.exists(rep):
                    raise common.ToolError("epoch_drv failed: " + se[-800:])
                r = common.load_report(rep)
                common.handle_failures(PROP, r["failures"], "epoch_driver_failure")
                what, n = _validate_epochs(trace)
                ep_traces += 1
                ep_events += n
                ep_admitted += r["counters"].get("admitted", 0)
                ep_max_known = max(ep_max_known, r["counters"].get("max_epochs_known", 0))
                if len(ep_samples) < 2:
                    ep_samples.append({"run": r["samples"][0], "counters": r["counters"]})
                if what:
                    viol = 1
                    path = common.write_replay(PROP, "epoch_trace_violation", {"property": PROP, "kind": "epochs", "seed": s, "steps": steps, "G": g, "L": l, "what": what, "trace": trace})
                    raise common.Violation(PROP, what, path)
        if ep_max_known < 3:
            raise common.ToolError("epoch_drv never reached three known epochs: pruning of the schedule was not exercised")
        # ---- peer-supplied blocks at node level (gossip/runner.rs: requested number, queue verification)
        import gossipfetch
        gf_cov, gf_fails = gossipfetch.run(PROP, tier, seed, {"store_not_genuine", "fetch_request_lost"})
        if gf_fails:
            viol = 1
            common.handle_failures(PROP, gf_fails, "gossip_fetch_failure")
    finally:
        cov = {"states": m.distinct, "transitions": m.generated, "traces_validated_against_impl": traces, "samples": samples or [{}],
               "evaluations": events, "distinct_nontrivial": traces,
               "rule": "model: BFS of BlockStore.tla (3-4 block numbers, 2 valid + 1 invalid candidate block per number); code: one trace per (steps, "
                       "max number, seed); runs with max number 260+ cross the real CACHE_CAPACITY = 100; each quiescent observation is one TLC state",
               "exhaustive": True,
               "peer_supplied_blocks": gf_cov,
               "admission_and_epochs": {"model_states": ep_states, "traces": ep_traces, "events": ep_events, "blocks_admitted": ep_admitted, "max_epochs_known": ep_max_known,
                                        "samples": ep_samples,
                                        "rule": "Epochs.tla: BFS with honest+informed committees (RightCommittee, NumberingOK, NextKnown, PrunedOnlyFinished), with Byzantine "
                                                "committees (AtMostThree, Contiguous, OnlyLastOpen) and, as a vacuity guard, with lagging honest committees (RightCommittee must "
                                                "fail); code: a real EngineManager over an execution layer with a dynamic schedule (two one-member committees alternating every L "
                                                "blocks), seeded offers of externally justified / certified blocks (number, claimed epoch, signing committee, corruptions), "
                                                "schedule-loop ticks on a ManualClock and restarts, every step explained by TraceEpochs.tla"}}
        common.write_evidence(PROP, tier, seed, "model_checking", cov,
                              ["pre-genesis blocks with an external justification (verification = harness rule) keep the runs cheap; the certificate path of "
                               "queue_block is exercised by C01's block sync", "the side channel delivers the block this node already accepted for a number, if any",
                               "the peer-side guard in gossip/runner.rs (requested number) is exercised by the node-level part (GossipFetch.tla)"],
                              time.time() - t0, viol)
    log(f"[C08] ok: model {m.distinct} states; {traces} traces / {events} observations validated; epochs: {ep_states} model states, {ep_traces} traces / {ep_events} events, {ep_admitted} blocks admitted")
    return 0


def replay(path, seed):
    import json
    c = json.load(open(path))
    common.cargo_build()
    d = common.outdir(PROP)
    trace = os.path.join(d, "replay.ndjson")
    rep = os.path.join(d, "replay.json")
    if isinstance(c.get("case"), dict) and c["case"].get("mode") == "gossip_fetch":
        import gossipfetch
        return gossipfetch.replay(PROP, c["case"], seed, {"store_not_genuine", "fetch_request_lost"})
    if c.get("kind") == "epochs":
        common.run_bin("epoch_drv", [trace, rep, c["seed"], c["steps"], c["G"], c["L"]])
        what, n = _validate_epochs(trace)
        if what:
            raise common.Violation(PROP, what, path)
        log("replay: no violation")
        return 0
    common.run_bin("blockstore_drv", [trace, rep, c["seed"], c["steps"], c["maxn"], c.get("profile", "mixed")])
    what, n = _validate(trace)
    if what:
        raise common.Violation(PROP, what, path)
    log("replay: no violation")
    return 0

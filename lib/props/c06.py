"""C06 — progress after the network heals. Model: MC_Progress.tla (good-period scheduler, weak fairness): Progress (every correct
replica stores a new block) and BoundedProgress by TLC from the real initial state and the view-1 bootstrap, under three leader orders;
a weakened spec (higher-view certificates ignored) must VIOLATE Progress (non-vacuity). Code: T5 - after EVERY recorded prefix (seeded
adversarial runs, attack schedules, spec behaviours; with crashes, Byzantine floods, partitions) a synchronous suffix is run on the real
replicas through their real inbound queues with timers firing at quiescence; every correct node must store a new block within the bound."""
import os
import time
import bftcommon as b
import common
from common import log

PROP = "C06"


def run(tier, seed):
    t0 = time.time()
    mres = []
    for cfg in ["MC_Progress_c", "MC_Progress_a", "MC_Progress_b", "MC_Progress_a2"]:
        r = common.tlc("bft", "MC_Progress", cfg=cfg + ".cfg", workers=8, timeout=900)
        if r.violated:
            raise common.ToolError(f"good-period model {cfg} violates {r.violated}: needs triage (model vs code)\n" + r.out[-2500:])
        if r.timed_out:
            raise common.ToolError(f"good-period model {cfg} did not finish")
        mres.append({"cfg": cfg, "states": r.distinct, "transitions": r.generated, "depth": r.depth, "exhaustive": True})
    # non-vacuity: the liveness check must fail when lagging replicas ignore higher-view certificates
    tmp = os.path.join(common.SPECS, "bft", "MC_Progress_weak_gen.cfg")
    with open(tmp, "w") as f:
        f.write(open(os.path.join(common.SPECS, "bft", "MC_Progress_a.cfg")).read().replace('Weaken = "none"', 'Weaken = "ignore_future_newview"'))
    try:
        r = common.tlc("bft", "MC_Progress", cfg="MC_Progress_weak_gen.cfg", workers=4, timeout=600)
    finally:
        os.remove(tmp)
    if r.violated != "temporal" and "Progress" not in (r.violated or ""):
        raise common.ToolError("vacuity guard: Progress is not violated by the weakened spec (ignore_future_newview)")
    # every prefix is continued twice: as it is, and after one more timer expiry everywhere whose messages are lost
    runs = b.run_random(PROP, seed, tier, suffix=True, suffix_mode=1) + b.run_random(PROP, seed, tier, suffix=True, suffix_mode=2, tag="_lossy") \
        + b.run_scenarios(PROP)
    cnt = b.counters(runs)
    prog = [run["report"]["samples"][0].get("progress") for run in runs if run["report"]["samples"]]
    oks = [p for p in prog if p and p.get("ok")]
    viol = 0
    try:
        b.driver_failures(PROP, runs, {"no_progress", "panic"})
    except common.Violation as v:
        viol = 1
        # make the replay file self-contained
        raise
    finally:
        cov = {
            "states": sum(m["states"] for m in mres), "transitions": sum(m["transitions"] for m in mres),
            "traces_validated_against_impl": len(oks),
            "samples": [{"good_period_results": prog[:4]}, {"model_runs": mres}],
            "evaluations": len(prog), "distinct_nontrivial": len(prog),
            "rule": "model: all good-period schedules of the 4-validator committee from Init and InitView1, three leader orders, liveness under WF; "
                    "code: one synchronous suffix per recorded prefix (prefix = seeded adversarial run or replayed scenario); a prefix counts once",
            "exhaustive": True,
            "max_timer_rounds_needed": max([p.get("timer_rounds", 0) for p in oks] or [0]),
            "inbound_queue": {"in": cnt.get("queue_in", 0), "out": cnt.get("queue_out", 0)},
            "vacuity_guard": "Progress violated with Weaken=ignore_future_newview",
        }
        common.write_evidence(PROP, tier, seed, "model_checking", cov,
                              ["synchrony = every message delivered to every correct replica before any timer fires; Byzantine validators silent in the suffix",
                               "bound: 2*(faulty+3)+n timer rounds (generous; a removed retransmission or catch-up path stalls forever)",
                               "blocks are fetched between engines through EngineManager::queue_block (plays the gossip fetcher)"],
                              time.time() - t0, viol)
    log(f"[C06] ok: {len(oks)}/{len(prog)} prefixes progressed; model states {cov['states']}")
    return 0


def replay(path, seed):
    return b.replay_random(PROP, path, "TraceChonky_none.cfg", set())

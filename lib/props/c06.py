"""C06 — progress after the network heals. Model: MC_Progress.tla (good-period scheduler, weak fairness): Progress (every correct
replica stores a new block) and BoundedProgress by TLC from the real initial state and the view-1 bootstrap, under three leader orders;
a weakened spec (higher-view certificates ignored) must VIOLATE Progress (non-vacuity). Code: T5 - after EVERY recorded prefix (seeded
adversarial runs, attack schedules, spec behaviours; with crashes, Byzantine floods, partitions) a synchronous suffix is run on the real
replicas through their real inbound queues with timers firing at quiescence; every correct node must store a new block within the bound."""
import os
import time
import bftcommon as b
import common
from common import log

PROP = "C06"


def run(tier, seed):
    t0 = time.time()
    mres = []
    for cfg in ["MC_Progress_c", "MC_Progress_a", "MC_Progress_b", "MC_Progress_a2"]:
        r = common.tlc("bft", "MC_Progress", cfg=cfg + ".cfg", workers=8, timeout=900)
        if r.violated:
            raise common.ToolError(f"good-period model {cfg} violates {r.violated}: needs triage (model vs code)\n" + r.out[-2500:])
        if r.timed_out:
            raise common.ToolError(f"good-period model {cfg} did not finish")
        mres.append({"cfg": cfg, "states": r.distinct, "transitions": r.generated, "depth": r.depth, "exhaustive": True})
    # non-vacuity: the liveness check must fail when lagging replicas ignore higher-view certificates
    tmp = os.path.join(common.SPECS, "bft", "MC_Progress_weak_gen.cfg")
    with open(tmp, "w") as f:
        f.write(open(os.path.join(common.SPECS, "bft", "MC_Progress_a.cfg")).read().replace('Weaken = "none"', 'Weaken = "ignore_future_newview"'))
    try:
        r = common.tlc("bft", "MC_Progress", cfg="MC_Progress_weak_gen.cfg", workers=4, timeout=600)
    finally:
        os.remove(tmp)
    if r.violated != "temporal" and "Progress" not in (r.violated or ""):
        raise common.ToolError("vacuity guard: Progress is not violated by the weakened spec (ignore_future_newview)")
    # every prefix is continued twice: as it is, and after one more timer expiry everywhere whose messages are lost
    runs = b.run_random(PROP, seed, tier, suffix=True, suffix_mode=1) + b.run_random(PROP, seed, tier, suffix=True, suffix_mode=2, tag="_lossy") \
        + b.run_scenarios(PROP)
    # ---- the REAL replica loop (bft::Config::run: own view timer, bootstrap, inbound queue, proposer task) under a router with a bad period
    loop_runs = []
    common.cargo_build()
    dl = common.outdir(PROP, "loop")
    for cfgname in (["W4a", "U6", "H4"] if tier == "quick" else ["W4a", "W4c", "U6", "H4"]):
        for sc in ["fresh", "lossy", "restart"]:
            for k in range(1 if tier == "quick" else 6):
                s = seed * 10 + k
                rp = os.path.join(dl, f"loop_{cfgname}_{sc}_{s}.json")
                if os.path.exists(rp):
                    os.remove(rp)
                rc, so, se = common.run_bin("bft_loop", [rp, s, cfgname, sc], timeout=600)
                if rc != 0 and not os.path.exists(rp):
                    raise common.ToolError(f"bft_loop failed rc={rc}: {se[-600:]}")
                r = common.load_report(rp)
                loop_runs.append({"config": cfgname, "scenario": sc, "seed": s, "trace": None, "report": r, "steps": 0, "suffix": 0})
    runs = runs + loop_runs
    cnt = b.counters(runs)
    prog = [run["report"]["samples"][0].get("progress") for run in runs if run["report"]["samples"] and run not in loop_runs]
    oks = [p for p in prog if p and p.get("ok")]
    viol = 0
    try:
        b.driver_failures(PROP, runs, {"no_progress", "panic", "disagreement"})
    except common.Violation as v:
        viol = 1
        # make the replay file self-contained
        raise
    finally:
        cov = {
            "states": sum(m["states"] for m in mres), "transitions": sum(m["transitions"] for m in mres),
            "traces_validated_against_impl": len(oks),
            "samples": [{"good_period_results": prog[:4]}, {"model_runs": mres}],
            "evaluations": len(prog), "distinct_nontrivial": len(prog),
            "rule": "model: all good-period schedules of the 4-validator committee from Init and InitView1, three leader orders, liveness under WF; "
                    "code: one synchronous suffix per recorded prefix (prefix = seeded adversarial run or replayed scenario); a prefix counts once",
            "exhaustive": True,
            "max_timer_rounds_needed": max([p.get("timer_rounds", 0) for p in oks] or [0]),
            "inbound_queue": {"in": cnt.get("queue_in", 0), "out": cnt.get("queue_out", 0)},
            "vacuity_guard": "Progress violated with Weaken=ignore_future_newview",
            "real_loop_runs": [{"config": x["config"], "scenario": x["scenario"], "ms_to_progress": x["report"]["counters"].get("ms_to_progress"),
                                "delivered": x["report"]["counters"].get("delivered"), "dropped": x["report"]["counters"].get("dropped")} for x in loop_runs],
        }
        common.write_evidence(PROP, tier, seed, "model_checking", cov,
                              ["synchrony = every message delivered to every correct replica before any timer fires; Byzantine validators silent in the suffix",
                               "bound: 2*(faulty+3)+n timer rounds (generous; a removed retransmission or catch-up path stalls forever)",
                               "blocks are fetched between engines through EngineManager::queue_block (plays the gossip fetcher)"],
                              time.time() - t0, viol)
    log(f"[C06] ok: {len(oks)}/{len(prog)} prefixes progressed; model states {cov['states']}")
    return 0


def replay(path, seed):
    import json
    c = json.load(open(path))
    case = c.get("case") or {}
    if isinstance(case, dict) and "scenario" in case and "config" in case and "mode" not in case:
        common.cargo_build()
        rp = os.path.join(common.outdir(PROP, "loop"), "replay.json")
        common.run_bin("bft_loop", [rp, case["seed"], case["config"], case["scenario"]], timeout=600)
        r = common.load_report(rp)
        common.handle_failures(PROP, [f for f in r["failures"] if f["key"] in ("no_progress", "panic", "disagreement")], "replay_failure")
        log("replay: no violation")
        return 0
    return b.replay_random(PROP, path, "TraceChonky_none.cfg", set())

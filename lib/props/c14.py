"""C14 — multiplexed streams isolated, ordered, flow-controlled. Mux.tla: the reusable-stream protocol (CLOSE / OPEN handshake, incarnations
on one stream id over a FIFO transport) with Isolation, EosLocal, Matched checked by TLC over every interleaving. Code: two real Muxes over the
scripted, fragmenting transport on a multi-threaded runtime with concurrent self-identifying transient streams on three capabilities in both
directions; per-stream records evaluated by TLC (TraceMux.tla: pairing/isolation, open bound) + a flooding peer against a non-reading application."""
import os
import re
import time
import common
from common import log

PROP = "C14"


def _validate(trace):
    r = common.tlc("network", "TraceMux", cfg="TraceMux.cfg", workers=1, timeout=600, env_extra={"TRACE": trace}, xss="1g", xmx="4g")
    m = re.search(r'<<\s*"VERDICT",\s*"([^"]*)",\s*(\d+),\s*(\d+)\s*>>', r.out)
    if not m:
        raise common.ToolError("TraceMux produced no verdict:\n" + r.out[-1500:])
    return m.group(1), int(m.group(2))


def _validate_write(trace):
    """TraceMuxWrite.tla: is what the peer read 'every completed write, a prefix of every failed one, in order, nothing else'?"""
    r = common.tlc("network", "TraceMuxWrite", cfg="TraceMuxWrite.cfg", workers=1, timeout=600, env_extra={"TRACE": trace}, dfs=True, xss="1g", xmx="4g")
    if r.ok:
        return None, r.distinct
    m = re.search(r'"TRACE-NOT-EXPLAINED",\s*"[^"]*",\s*(\d+)', r.out)
    if r.violated == "NoHoleT":
        return "data accepted by a write is missing from what the stream carries (NoHole of MuxWrite.tla)", r.distinct
    if m:
        return ("what the peer's reader obtained is not 'every completed write, a prefix of every failed one, in order': no behaviour of MuxWrite.tla explains "
                f"event {m.group(1)} of the recorded run"), r.distinct
    raise common.ToolError("TraceMuxWrite failed without a verdict:\n" + r.out[-1500:])


def _model_write(tier="quick"):
    res = {}
    consts = "FrameSize = 3 MaxBytes = 9 MaxCall = 4" if tier == "quick" else "FrameSize = 5 MaxBytes = 40 MaxCall = 12"
    for weaken in ("none", "detach_before_reserve"):
        cfgname = "MC_MuxWrite_gen.cfg"
        with open(os.path.join(common.SPECS, "network", cfgname), "w") as f:
            f.write(f'CONSTANTS {consts} Weaken = "{weaken}"\nINIT Init\nNEXT Next\nINVARIANTS NoHole Complete\nCHECK_DEADLOCK FALSE\n')
        try:
            res[weaken] = common.tlc("network", "MuxWrite", cfg=cfgname, workers=2, timeout=600)
        finally:
            os.remove(os.path.join(common.SPECS, "network", cfgname))
    if not res["none"].ok:
        raise common.ToolError("MuxWrite.tla: NoHole / Complete fail on the specification:\n" + res["none"].out[-1500:])
    if res["detach_before_reserve"].violated != "NoHole":
        raise common.ToolError("MuxWrite.tla: the weakened variant does not violate NoHole - the check is vacuous")
    return res["none"]


def run(tier, seed):
    t0 = time.time()
    common.cargo_build()
    d = common.outdir(PROP)
    mw = _model_write(tier)
    cfgname = "MC_Mux_gen.cfg"
    with open(os.path.join(common.SPECS, "network", cfgname), "w") as f:
        f.write(f"CONSTANTS MaxInc = {2 if tier == 'quick' else 3} MaxData = 2\nSPECIFICATION Spec\nINVARIANTS Isolation EosLocal Matched\nCHECK_DEADLOCK FALSE\n")
    try:
        m = common.tlc("network", "Mux", cfg=cfgname, workers=8, timeout=2400, xmx="12g")
    finally:
        os.remove(os.path.join(common.SPECS, "network", cfgname))
    if not m.ok:
        raise common.ToolError("Mux.tla invariants fail on the specification:\n" + m.out[-1500:])
    # buffering clause: MuxBuffer.tla (permits before bytes) -> the exact amount a non-reading application lets the multiplexer pull
    mb = common.tlc("network", "MC_MuxBuffer", cfg="MC_MuxBuffer.cfg", workers=1, timeout=900)
    if not mb.ok:
        raise common.ToolError("MuxBuffer.tla properties fail on the specification:\n" + mb.out[-1500:])
    mb_cases = mb.printed("CASE")
    if len(mb_cases) < 6:
        raise common.ToolError("MuxBuffer.tla printed no blocked states")
    mbp = os.path.join(d, "muxbuffer_cases.ndjson")
    common.write_ndjson(mbp, mb_cases)
    nseeds = 8 if tier == "quick" else 60
    traces, streams, samples, viol = 0, 0, [], 0
    wruns, wstates, wfailed = 0, 0, 0
    try:
        for k in range(nseeds):
            s = seed * 100 + k
            trace = os.path.join(d, f"t_{s}.ndjson")
            rep = os.path.join(d, f"r_{s}.json")
            wtrace = os.path.join(d, f"w_{s}.ndjson")
            if os.path.exists(wtrace):
                os.remove(wtrace)
            rc, so, se = common.run_bin("mux_drv", [trace, rep, s, mbp if k % 4 == 0 else "-", wtrace], timeout=600)
            if rc != 0 and not os.path.exists(rep):
                raise common.ToolError("mux_drv failed: " + se[-800:])
            r = common.load_report(rep)
            for f in r["failures"]:
                f["case"] = {"seed": s}
            common.handle_failures(PROP, r["failures"], "driver_failure")
            for n in r["notes"]:
                log("NOTE " + n)
            verdict, n = _validate(trace)
            traces += 1
            streams += n
            wfailed += r["counters"].get("cancel_writes_failed_calls", 0)
            if os.path.exists(wtrace):
                wv, wn = _validate_write(wtrace)
                wruns += 1
                wstates += wn
                if wv:
                    viol = 1
                    path = common.write_replay(PROP, "write_trace_violation", {"property": PROP, "case": {"seed": s}, "what": wv, "trace": wtrace})
                    raise common.Violation(PROP, wv, path)
            if len(samples) < 2:
                samples.append({"run": r["samples"][0], "flood": {k2: v for k2, v in r["counters"].items() if k2.startswith("flood")}})
            if verdict != "ok":
                viol = 1
                path = common.write_replay(PROP, "trace_violation", {"property": PROP, "case": {"seed": s}, "what": verdict, "trace": trace})
                raise common.Violation(PROP, verdict, path)
    finally:
        cov = {"states": m.distinct, "transitions": m.generated, "traces_validated_against_impl": traces, "samples": samples or [{}],
               "evaluations": streams, "distinct_nontrivial": traces,
               "rule": "model: BFS of Mux.tla (one reusable stream, 2-3 incarnations, 2 data frames each way); code: per seed one run with random limits in 1..3 per "
                       "capability and side, 3 capabilities, 12 client tasks x 6 streams with message sizes around the frame size, seeded fragmentation of the "
                       "transport; evaluations = transient streams paired by TLC; plus one flood scenario per seed; "
                       f"MuxBuffer.tla ({mb.distinct} states, Bounded + AllPulled): {len(mb_cases)} flood scenarios of a raw peer against a non-reading application, bytes pulled "
                       "from the transport compared with the specification's blocked state (exact); "
                       f"MuxWrite.tla ({mw.distinct} states, NoHole + Complete; weakened variant violates NoHole): per seed one run of 36 write_all calls under short deadlines "
                       "against a peer that reads late over a 512-byte pipe, validated by TraceMuxWrite.tla (hand-over to the writer task inferred)",
               "write_half": {"runs_validated": wruns, "write_calls_that_failed_under_backpressure": wfailed, "tlc_states": wstates},
               "exhaustive": True}
        common.write_evidence(PROP, tier, seed, "model_checking", cov,
                              ["thread interleavings of the real runtime are perturbed (fragmentation, Pending), not controlled",
                               "the flooding peer is a real Mux whose application writes without limit (the protocol has no credit messages to ignore); "
                               "protocol-violating frames are C10's subject"], time.time() - t0, viol)
    log(f"[C14] ok: model {m.distinct} states; {traces} runs, {streams} transient streams paired")
    return 0


def replay(path, seed):
    import json
    c = json.load(open(path))["case"]
    common.cargo_build()
    d = common.outdir(PROP)
    trace = os.path.join(d, "replay.ndjson")
    rep = os.path.join(d, "replay.json")
    mb = common.tlc("network", "MC_MuxBuffer", cfg="MC_MuxBuffer.cfg", workers=1, timeout=900)
    mbp = os.path.join(d, "muxbuffer_cases.ndjson")
    common.write_ndjson(mbp, mb.printed("CASE"))
    wtrace = os.path.join(d, "replay_w.ndjson")
    if os.path.exists(wtrace):
        os.remove(wtrace)
    common.run_bin("mux_drv", [trace, rep, c["seed"], mbp, wtrace])
    r = common.load_report(rep)
    common.handle_failures(PROP, r["failures"], "replay_failure")
    verdict, n = _validate(trace)
    if verdict != "ok":
        raise common.Violation(PROP, verdict, path)
    if os.path.exists(wtrace):
        wv, _ = _validate_write(wtrace)
        if wv:
            raise common.Violation(PROP, wv, path)
    log("replay: no violation")
    return 0

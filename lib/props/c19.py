"""C19 — block fetch requests never lost, only to peers that have the block. FetchQueue.tla: Pending, OneAtATime, OnlyWanted by TLC
(3 blocks, 2 peers, every interleaving of request/cancel/announce/accept/hand/complete/fail) and NoLostWakeup (leads-to under weak fairness).
Code: seeded driver of the real gossip::fetch::Queue; every event is validated by TLC against the spec (T1): a hand-out the spec does not
allow (not announced / not lowest / twice), a pending set differing from the spec, or a lost wake-up at quiescence is the violation."""
import os
import time
import common
from common import log

PROP = "C19"


def _validate(trace):
    r = common.tlc("network", "TraceFetch", cfg="TraceFetch.cfg", workers=1, timeout=600, env_extra={"TRACE": trace}, dfs=True, xss="1g", xmx="4g")
    if r.ok:
        return None, r.distinct
    import re
    m = [x for x in re.finditer(r'bad (?:=|\|->) "([^"]*)"', r.out) if x.group(1) != "none"]
    if r.violated in ("Pending", "OneAtATime"):
        return f"invariant {r.violated} of FetchQueue.tla violated on the recorded trace", r.distinct
    if m:
        return m[-1].group(1), r.distinct
    raise common.ToolError("TraceFetch failed without a finding:\n" + r.out[-1500:])


def run(tier, seed):
    t0 = time.time()
    common.cargo_build()
    d = common.outdir(PROP)
    m = common.tlc("network", "FetchQueue", cfg="MC_FetchQueue.cfg", workers=8, timeout=900)
    if not m.ok:
        raise common.ToolError("FetchQueue.tla properties fail on the specification:\n" + m.out[-1500:])
    plan = [(4, 3, 300), (3, 2, 300), (6, 4, 400)]
    nseeds = 3 if tier == "quick" else 20
    traces, events, samples, viol = 0, 0, [], 0
    gf_cov = {}
    try:
        for (nb, np_, steps) in plan:
            for k in range(nseeds):
                s = seed * 100 + k
                trace = os.path.join(d, f"t_{nb}_{np_}_{s}.ndjson")
                rep = os.path.join(d, f"r_{nb}_{np_}_{s}.json")
                rc, so, se = common.run_bin("fetch_drv", [trace, rep, s, steps, nb, np_], timeout=600)
                if rc != 0 and not os.path.exists(rep):
                    raise common.ToolError("fetch_drv failed: " + se[-800:])
                r = common.load_report(rep)
                common.handle_failures(PROP, r["failures"], "driver_failure")
                what, n = _validate(trace)
                events += n
                traces += 1
                if len(samples) < 2:
                    samples.append({"run": r["samples"][0], "counters": r["counters"]})
                if what:
                    viol = 1
                    path = common.write_replay(PROP, "trace_violation", {"property": PROP, "seed": s, "steps": steps, "nblocks": nb, "npeers": np_,
                                                                         "what": what, "trace": trace})
                    raise common.Violation(PROP, what, path)
        # ---- end to end on a real node: scripted peers that misbehave or leave, then an honest peer
        import gossipfetch
        gf_cov, gf_fails = gossipfetch.run(PROP, tier, seed, {"fetch_not_announced", "fetch_request_lost"})
        if gf_fails:
            viol = 1
            common.handle_failures(PROP, gf_fails, "gossip_fetch_failure")
    finally:
        cov = {"states": m.distinct, "transitions": m.generated, "traces_validated_against_impl": traces, "samples": samples or [{}],
               "evaluations": events, "distinct_nontrivial": traces,
               "rule": "model: BFS of FetchQueue.tla (3 blocks, 2 peers) incl. liveness NoLostWakeup; code: one trace per (blocks, peers, seed), every event "
                       "an enabled spec action, `quiet` events compare the real queue content with the spec and check quiescence",
               "exhaustive": True, "node_level": gf_cov}
        common.write_evidence(PROP, tier, seed, "model_checking", cov,
                              ["single-threaded runtime with quiescence between commands (interleavings of the real multi-threaded runtime are not controlled)",
                               "one live requester per block number, as run_block_fetcher issues them"], time.time() - t0, viol)
    log(f"[C19] ok: model {m.distinct} states; {traces} traces / {events} events validated")
    return 0


def replay(path, seed):
    import json
    c = json.load(open(path))
    common.cargo_build()
    if isinstance(c.get("case"), dict) and c["case"].get("mode") == "gossip_fetch":
        import gossipfetch
        return gossipfetch.replay(PROP, c["case"], seed, {"fetch_not_announced", "fetch_request_lost"})
    d = common.outdir(PROP)
    trace = os.path.join(d, "replay.ndjson")
    rep = os.path.join(d, "replay.json")
    common.run_bin("fetch_drv", [trace, rep, c["seed"], c["steps"], c["nblocks"], c["npeers"]])
    what, n = _validate(trace)
    if what:
        raise common.Violation(PROP, what, path)
    log("replay: no violation")
    return 0

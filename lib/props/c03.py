"""C03 — no vote equivocation, even across crashes. ChonkyBFT.tla with Crash at every step and after every prefix of the
emitted messages (NoCommitEquivocation, SignedViewsMonotone, DurableBeforeVisible) by TLC; real replicas over a crashable engine
that orders every outbound message relative to every durable write (no source change), with crashes injected at durable writes
(applied / not applied); TLC evaluates the monitors on every observed event (NoBadC03)."""
import bftcommon as b

PROP = "C03"
RULE = ("model: BFS of MC_Chonky with MaxCrash=1 (crash between handlers, after persist with k messages out); code: seeded runs with "
        "crash/restart and crash-at-set_state (both outcomes); per event TLC checks: one commit vote per view and key over all "
        "incarnations, no commit at or below a timed-out view, vote views monotone, each message recorded by the durable state at the moment it left")
ASSUME = ["durable medium = harness engine (atomic set_state); torn writes inside a real database are out of scope",
          "a killed process is simulated by failing the durable write and discarding the incarnation"]


def run(tier, seed):
    return b.run_property(PROP, tier, seed, [("MC_Chonky_W4c1x", 150)], ["MC_Chonky_W4c1x", ("MC_Chonky_W4a1x", 1500)],
                          "TraceChonky_C03.cfg", {"C03"}, {"panic"}, RULE, ASSUME, model_timeout_quick=150)


def replay(path, seed):
    return b.replay_random(PROP, path, "TraceChonky_C03.cfg", {"C03"})

"""C12 — connections only for authenticated, expected, unique peers. Handshake.tla: acceptance predicate of the four endpoint kinds and the
Auth theorem against a Dolev-Yao style adversary (checked by TLC over sessions, keys, chains); its message-class table is materialised on
real noise sessions over loopback TCP against the real gossip / validator handshakes (+ validator pool admission). Pool.tla: all operation
sequences replayed on the real PoolWatch, plus a concurrent stress with a quota probe."""
import os
import time
import common
from common import log

PROP = "C12"


def run(tier, seed):
    t0 = time.time()
    common.cargo_build()
    d = common.outdir(PROP)
    r1 = common.tlc("network", "MC_Handshake", cfg="MC_Handshake.cfg", workers=1, timeout=900)
    if not r1.ok:
        raise common.ToolError("Handshake.tla: Auth fails on the specification:\n" + r1.out[-1500:])
    hs = r1.printed("CASE")
    # ---- SessionId.tla: the assumption Handshake.tla rests on (an identifier per session, bound to BOTH ends' contributions)
    sid_cov, sid_fails = run_sid(tier, d)
    maxops = 5 if tier == "quick" else 6
    cfgname = "MC_Pool_gen.cfg"
    with open(os.path.join(common.SPECS, "network", cfgname), "w") as f:
        f.write(f'CONSTANTS Keys = {{"a", "x", "y"}} Allowed = {{"a"}} Limit = 1 MaxOps = {maxops}\nINIT Init\nNEXT Next\nINVARIANTS OnePerKeyAndQuota Done\nCHECK_DEADLOCK FALSE\n')
    try:
        r2 = common.tlc("network", "MC_Pool", cfg=cfgname, workers=4, timeout=900, xmx="8g")
    finally:
        os.remove(os.path.join(common.SPECS, "network", cfgname))
    if not r2.ok:
        raise common.ToolError("Pool.tla invariant fails on the specification:\n" + r2.out[-1500:])
    pool = r2.printed("CASE")
    fails, samples, evals = list(sid_fails), [], 0
    rounds = 2 if tier == "quick" else 10
    for k in range(rounds):
        cp = os.path.join(d, "hs_cases.ndjson")
        common.write_ndjson(cp, hs)
        rp = os.path.join(d, f"hs_report_{k}.json")
        rc, so, se = common.run_bin("conn_replay", ["handshake", cp, rp], timeout=1800)
        if rc != 0:
            raise common.ToolError("conn_replay handshake failed: " + se[-800:])
        rep = common.load_report(rp)
        fails += rep["failures"]
        evals += rep["evaluations"]
        samples += rep["samples"][:1]
    cp = os.path.join(d, "pool_cases.ndjson")
    common.write_ndjson(cp, pool)
    for k in range(rounds):
        rp = os.path.join(d, f"pool_report_{k}.json")
        rc, so, se = common.run_bin("conn_replay", ["pool", cp, rp, seed * 10 + k], timeout=1800)
        if rc != 0:
            raise common.ToolError("conn_replay pool failed: " + se[-800:])
        rep = common.load_report(rp)
        fails += rep["failures"]
        evals += rep["evaluations"]
        samples += rep["samples"][:1]
    # ---- node level: the same pool sequences (and racing dials) against a REAL running node, per endpoint
    node = []
    for endpoint, keys, allowed, limit in [("gossip", '{"a", "x", "y"}', '{"a"}', 1), ("consensus", '{"v", "u", "w"}', '{"v", "u"}', 0)]:
        with open(os.path.join(common.SPECS, "network", cfgname), "w") as f:
            f.write(f'CONSTANTS Keys = {keys} Allowed = {allowed} Limit = {limit} MaxOps = 5\nINIT Init\nNEXT Next\nINVARIANTS OnePerKeyAndQuota Done\nCHECK_DEADLOCK FALSE\n')
        try:
            r3 = common.tlc("network", "MC_Pool", cfg=cfgname, workers=4, timeout=900, xmx="8g")
        finally:
            os.remove(os.path.join(common.SPECS, "network", cfgname))
        if not r3.ok:
            raise common.ToolError("Pool.tla invariant fails on the specification:\n" + r3.out[-1500:])
        ncases = r3.printed("CASE")
        cp = os.path.join(d, f"node_cases_{endpoint}.ndjson")
        common.write_ndjson(cp, ncases)
        rp = os.path.join(d, f"node_report_{endpoint}.json")
        rc, so, se = common.run_bin("node_admit", [endpoint, cp, rp, seed, 1500 if tier == "quick" else 100000], timeout=1800)
        if rc != 0 and not os.path.exists(rp):
            raise common.ToolError("node_admit failed: " + se[-800:])
        rep = common.load_report(rp)
        for f in rep["failures"]:
            f["case"] = {"mode": "node", "endpoint": endpoint, "case": f["case"]}
        if any(f["key"] in ("node_not_up", "harness_timeout") for f in rep["failures"]):
            raise common.ToolError("node_admit: the node under test never came up / a dial stayed undetermined for 30 s")
        fails += rep["failures"]
        evals += rep["evaluations"]
        node.append({"endpoint": endpoint, "sequences_replayed": rep["distinct"], "dials": rep["evaluations"], "concurrent_admitted": rep["counters"].get("concurrent_admitted", 0)})
        if rep["distinct"] == 0 and not rep["failures"]:
            raise common.ToolError("node_admit replayed nothing")
    cov = {"states": len(hs) + r2.distinct, "transitions": evals, "traces_validated_against_impl": evals, "samples": samples[:3],
           "evaluations": evals, "distinct_nontrivial": len(hs) + len(pool),
           "rule": "handshake: endpoint kind x claimed key {the endpoint itself, expected peer, attacker, honest non-member} x session {this, another} x chain x signer; pool: all "
                   f"sequences of {maxops} insert/remove over one configured and two non-configured keys with quota 1; + 8-task concurrent stress per round",
           "node_level": node,
           "node_level_rule": "Pool.tla sequences of 5 connect/hang-up operations (sampled to 1500 per endpoint in the quick tier) replayed on a real running node "
                              "(listener, preface, noise, handshake, pool, RPC service) over loopback TCP: gossip endpoint (1 static inbound, 2 non-configured, quota 1) and "
                              "validator endpoint (2 members, 1 non-member, no quota); admission observed as 'the node starts its RPC service' vs 'closes'; then 6 racing dial tasks",
           "session_id": sid_cov,
           "exhaustive": True, "auth_theorem": "checked by TLC: 3 sessions, 2 honest keys + attacker + non-member, 2 chains"}
    common.write_evidence(PROP, tier, seed, "model_checking", cov,
                          ["signatures unforgeable; the session id is unique per noise session (hash of the handshake transcript) and shared by its two ends only",
                           "validator admission = handshake + pool of committee keys with zero extra quota, as consensus/mod.rs wires it",
                           "thread interleavings of the concurrent pool stress are not controlled"], time.time() - t0, len(fails))
    common.handle_failures(PROP, fails, "case_failure")
    log(f"[C12] ok: {len(hs)} handshake classes x {rounds} rounds, {len(pool)} pool sequences x {rounds}; node level: {node}")
    return 0


def run_sid(tier, d):
    """SidUnique / RelayRefused on SessionId.tla (and their failure under the weakening, as a vacuity guard); every explored combination of sessions
    replayed with real noise::Stream ends and a raw noise adversary whose ephemeral key is fixed (reused)."""
    import json
    nsess = 2 if tier == "quick" else 3
    cfgname = "MC_SessionId_gen.cfg"
    res = {}
    for weaken in ("none", "sid_after_first_message"):
        with open(os.path.join(common.SPECS, "network", cfgname), "w") as f:
            f.write(f'CONSTANTS Honest = {{"a", "b"}} AdvEph = {{1, 2}} MaxSessions = {nsess} Weaken = "{weaken}"\nINIT Init\nNEXT Next\nCONSTRAINT Interesting\n'
                    f'INVARIANTS SidUnique RelayRefused Done\nCHECK_DEADLOCK FALSE\n')
        try:
            res[weaken] = common.tlc("network", "MC_SessionId", cfg=cfgname, workers=1, timeout=600)
        finally:
            os.remove(os.path.join(common.SPECS, "network", cfgname))
    if not res["none"].ok:
        raise common.ToolError("SessionId.tla: SidUnique / RelayRefused fail on the specification:\n" + res["none"].out[-1500:])
    if res["sid_after_first_message"].ok or res["sid_after_first_message"].violated not in ("SidUnique", "RelayRefused"):
        raise common.ToolError("SessionId.tla: the weakened variant (identifier taken after the first handshake message) does not violate SidUnique - the check is vacuous")
    seen, cases = set(), []
    for c in res["none"].printed("CASE"):
        k = json.dumps(c, sort_keys=True)
        if k not in seen:
            seen.add(k)
            cases.append(c)
    cp = os.path.join(d, "sid_cases.ndjson")
    common.write_ndjson(cp, cases)
    rp = os.path.join(d, "sid_report.json")
    rc, so, se = common.run_bin("sid_replay", [cp, rp], timeout=600)
    if rc != 0:
        raise common.ToolError("sid_replay failed: " + se[-800:])
    rep = common.load_report(rp)
    drift = rep["counters"].get("sid_differs_from_noise_handshake_hash", 0)
    if drift:
        log(f"NOTE drift component=noise: in {drift} session(s) the identifier of the real end is not the noise handshake hash the raw peer computed "
            "(the property is decided by uniqueness, not by this)")
    log(f"[C12] session identifiers: {res['none'].distinct} spec states, {len(cases)} session combinations replayed on real noise ends, weakened spec violates {res['sid_after_first_message'].violated}")
    return {"sid_failures": len(rep["failures"]), "spec_states": res["none"].distinct, "session_combinations_replayed": len(cases), "sessions_per_combination": nsess,
            "weakened_spec_violates": res["sid_after_first_message"].violated, "samples": rep["samples"][:2],
            "rule": "sessions between {honest, honest}, {adversary initiating, honest}, {honest, adversary responding}; the adversary reuses or varies its ephemeral key; "
                    "honest ends = real noise::Stream, adversary ends = raw noise peer with a fixed ephemeral key; identifiers equal within a session, distinct across sessions"}, rep["failures"]


def replay(path, seed):
    import json
    c = json.load(open(path))["case"]
    common.cargo_build()
    d = common.outdir(PROP)
    mode = c.get("mode", "handshake")
    if mode == "sid":
        cp = os.path.join(d, "replay_case.ndjson")
        common.write_ndjson(cp, [c["case"]])
        rp = os.path.join(d, "replay_report.json")
        common.run_bin("sid_replay", [cp, rp])
        rep = common.load_report(rp)
        common.handle_failures(PROP, rep["failures"], "replay_failure")
        log("replay: no violation")
        return 0
    if mode == "node":
        cp = os.path.join(d, "replay_case.ndjson")
        inner = c["case"]
        common.write_ndjson(cp, [{"ops": inner["ops"]}] if "ops" in inner else [])
        rp = os.path.join(d, "replay_report.json")
        common.run_bin("node_admit", [c["endpoint"], cp, rp, inner.get("seed", seed), 10])
        rep = common.load_report(rp)
        common.handle_failures(PROP, rep["failures"], "replay_failure")
        log("replay: no violation")
        return 0
    if mode == "pool_stress":
        mode = "pool"
        cases = []
    else:
        cases = [c["case"]]
    cp = os.path.join(d, "replay_case.ndjson")
    common.write_ndjson(cp, cases)
    rp = os.path.join(d, "replay_report.json")
    common.run_bin("conn_replay", [mode, cp, rp, c.get("seed", seed)])
    rep = common.load_report(rp)
    common.handle_failures(PROP, rep["failures"], "replay_failure")
    log("replay: no violation")
    return 0

"""C05 — view changes justified, monotone, per specification. The replica handlers of Replica.tla ARE the prescribed transition
relation; every step of every recorded run of the real StateMachine is predicted by TLC from the observed pre-state and compared
(accept/reject, full post-state incl. vote caches, emitted-message bag, proposer notification): invariant Conformant. Monitors
NoBadC05: monotone view/certificates, view entered only with a certificate for v-1 that verifies, emitted messages self-justifying."""
import bftcommon as b

PROP = "C05"
RULE = ("T2: behaviours of ReplicaIO.tla (one replica, permissive environment, TLC random walks of 14 steps) replayed on a real StateMachine whose "
        "peers are all played by the harness, each step validated; T1: every event of every seeded run (valid, stale, future-view, wrong leader, wrong genesis/epoch, bad signature, sub-quorum and "
        "forged certificates, non-member, Byzantine-crafted) is one TLC state: spec prediction == observation; model: ViewJustified, Monotone, "
        "SelfJustifying, HeldCertsBacked on MC_Chonky")
ASSUME = ["compared: accept/reject (not the error variant), abstract post-state, bag of emitted messages; timing and metrics ignored",
          "validity labels of crafted certificates (aggregate genuine or not) come from the harness that built them"]


def run(tier, seed):
    return b.run_property(PROP, tier, seed, ["MC_Chonky_W4c1"], ["MC_Chonky_W4c1", "MC_Chonky_W4a1", ("MC_Chonky_W4c1nv", 1200)],
                          "TraceChonky_C05.cfg", {"C05", "conf"}, {"panic"}, RULE, ASSUME, with_io=True)


def replay(path, seed):
    return b.replay_random(PROP, path, "TraceChonky_C05.cfg", {"C05", "conf"})

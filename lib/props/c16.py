"""C16 — pending consensus input bounded, freshest kept. (a) PrunableQueue.tla: every operation sequence of the bounded alphabet
with the spec's outputs replayed on the real create_input_channel() (queue_replay). (b) Replica bookkeeping: cache snapshots of every
event of every BFT trace (incl. future-view floods by faulty validators) checked by TLC (NoBadC16)."""
import bftcommon as b

PROP = "C16"
RULE = ("(a) all send/recv sequences over 2 senders x 2 kinds x views 0..2 x {valid, invalid signature}; (b) per event: partial certificates "
        "exist only for views that are some validator's latest vote (<= N views), one vote per validator per view and kind")
ASSUME = ["signature validity as computed by the real verify()"]


def queue(prop, tier, seed):
    import props.c16queue as q
    return q.run_queue(tier, seed)


def run(tier, seed):
    return b.run_property(PROP, tier, seed, ["MC_Chonky_W4c1"], ["MC_Chonky_W4c1"],
                          "TraceChonky_C16.cfg", {"C16"}, {"panic"}, RULE, ASSUME, extra=queue, suffix=False)   # no good-period continuation here (C06's subject)


def replay(path, seed):
    import json
    c = json.load(open(path))
    if c.get("mode") == "queue":
        import props.c16queue as q
        return q.replay(c)
    return b.replay_random(PROP, path, "TraceChonky_C16.cfg", {"C16"})

"""C16a: PrunableQueue.tla operation sequences (T2) -> real create_input_channel()."""
import os
import common
from common import log

PROP = "C16"


def run_queue(tier, seed):
    common.cargo_build()
    d = common.outdir(PROP, "queue")
    maxops = 4
    cfgname = "MC_Queue_gen.cfg"
    with open(os.path.join(common.SPECS, "concurrency", cfgname), "w") as f:
        f.write(f"CONSTANTS MaxOps = {maxops} Alphabet = \"full\"\nINIT Init\nNEXT Next\nINVARIANTS OnePerSenderKind OnlyValid KeepsMax NothingLost Done\nCHECK_DEADLOCK FALSE\n")
    try:
        r = common.tlc("concurrency", "MC_Queue", cfg=cfgname, workers=4, timeout=1800, xmx="8g")
    finally:
        os.remove(os.path.join(common.SPECS, "concurrency", cfgname))
    if not r.ok:
        raise common.ToolError("PrunableQueue.tla invariants fail on the specification:\n" + r.out[-1500:])
    cases = r.printed("CASE")
    total_cases = len(cases)
    if tier == "quick":
        # every sequence whose first 3 operations are distinct prefixes is kept once per 53 (53 is coprime with the branching factor 24; BLS verification in the real
        # filter costs ~2 ms per send)
        cases = [c for i, c in enumerate(cases) if (i + seed) % 53 == 0]
    else:
        # thorough: one in seven (about 47 000 sequences, ~6 min)
        cases = [c for i, c in enumerate(cases) if (i + seed) % 7 == 0]
    # longer sequences (two or more messages pending at a recv, then a competing send, then recvs) over a small alphabet
    with open(os.path.join(common.SPECS, "concurrency", cfgname), "w") as f:
        f.write(f"CONSTANTS MaxOps = {5 if tier == 'quick' else 6} Alphabet = \"small\"\nINIT Init\nNEXT Next\nINVARIANTS OnePerSenderKind OnlyValid KeepsMax NothingLost Done\nCHECK_DEADLOCK FALSE\n")
    try:
        r2 = common.tlc("concurrency", "MC_Queue", cfg=cfgname, workers=4, timeout=1800, xmx="8g")
    finally:
        os.remove(os.path.join(common.SPECS, "concurrency", cfgname))
    if not r2.ok:
        raise common.ToolError("PrunableQueue.tla invariants fail on the specification (small alphabet):\n" + r2.out[-1500:])
    long_cases = r2.printed("CASE")
    total_long = len(long_cases)
    long_cases = [c for i, c in enumerate(long_cases) if (i + seed) % (3 if tier == "quick" else 11) == 0]
    cases = cases + long_cases
    cp = os.path.join(d, "cases.ndjson")
    common.write_ndjson(cp, cases)
    rp = os.path.join(d, "report.json")
    rc, so, se = common.run_bin("queue_replay", [cp, rp], timeout=1800)
    if rc != 0:
        raise common.ToolError("queue_replay failed: " + se[-800:])
    rep = common.load_report(rp)
    log(f"[C16] queue: {r.distinct} spec states, {rep['evaluations']} sequences replayed, {len(rep['failures'])} mismatches")
    common.handle_failures(PROP, rep["failures"], "queue_failure")
    if rep["counters"].get("queue_concurrent_rounds", 0) < 300:
        raise common.ToolError("queue_replay: the concurrent-sender phase did not run")
    return {"queue_concurrent_rounds": rep["counters"]["queue_concurrent_rounds"],
            "queue_concurrent_rule": "4 racing sender threads per round (300 rounds on sync::prunable_mpsc with the BFT selection rule over cheap values and a dawdling selection "
                                     "function, 6 rounds on the real create_input_channel() with signed votes); after the race the queue content must satisfy OnePerSenderKind, OnlyValid, "
                                     "KeepsMax, NothingLost of PrunableQueue.tla (every interleaving of atomic sends is a sequence TLC checked)",
            "queue_spec_states": r.distinct, "queue_sequences_replayed": rep["evaluations"], "queue_sample": rep["samples"][:1], "queue_max_ops": maxops, "queue_sequences_enumerated": total_cases,
            "queue_long_sequences": {"enumerated": total_long, "replayed": len(long_cases), "alphabet": "2 senders x commit x views 0..2", "ops": 5 if tier == "quick" else 6}}


def replay(c):
    common.cargo_build()
    d = common.outdir(PROP, "queue")
    cp = os.path.join(d, "replay_case.ndjson")
    common.write_ndjson(cp, [c["case"]["case"]])
    rp = os.path.join(d, "replay_report.json")
    common.run_bin("queue_replay", [cp, rp])
    rep = common.load_report(rp)
    common.handle_failures(PROP, rep["failures"], "replay_failure")
    log("replay: no mismatch")
    return 0

"""Node-level block fetching (GossipFetch.tla + gossip_fetch): shared by C08 (peer-supplied blocks) and C19 (end to end)."""
import os
import common
from common import log


def run(prop, tier, seed, keys):
    """Model-checks GossipFetch.tla, replays every scripted peer on a real node. Returns (coverage dict, failures relevant to `keys`)."""
    d = common.outdir(prop)
    nb = 3 if tier == "quick" else 4
    cfgname = "MC_GossipFetch_gen.cfg"
    p = os.path.join(common.SPECS, "network", cfgname)
    with open(p, "w") as f:
        f.write(f"CONSTANTS NBlocks = {nb}\nSPECIFICATION Spec\nINVARIANTS OnlyAnnounced Genuine\nPROPERTIES AllFetched\nCHECK_DEADLOCK FALSE\n")
    try:
        r = common.tlc("network", "MC_GossipFetch", cfg=cfgname, workers=4, timeout=1200, xmx="8g")
    finally:
        os.remove(p)
    if not r.ok:
        raise common.ToolError("GossipFetch.tla properties fail on the specification:\n" + r.out[-1500:])
    cases = r.printed("CASE")
    # the first answer that is not "right" ends the connection of the scripted peer: what the script says after it is never played
    seen, canon = set(), []
    for c in cases:
        sc = []
        for a in c["script"]:
            sc.append(a)
            if a != "right":
                break
        k = (c["ann"], tuple(sc))
        if k not in seen:
            seen.add(k)
            canon.append({"ann": c["ann"], "script": sc})
    enumerated, cases = len(cases), canon
    if tier == "thorough":
        cases = [c for i, c in enumerate(cases) if len(c["script"]) < 4 or (i + seed) % 3 == 0]
    cp = os.path.join(d, "gossipfetch_cases.ndjson")
    common.write_ndjson(cp, cases)
    rp = os.path.join(d, "gossipfetch_report.json")
    if os.path.exists(rp):
        os.remove(rp)
    rc, so, se = common.run_bin("gossip_fetch", [cp, rp, seed, nb], timeout=3000)
    if rc != 0 and not os.path.exists(rp):
        raise common.ToolError("gossip_fetch failed: " + se[-800:])
    rep = common.load_report(rp)
    if any(f["key"] == "node_not_up" for f in rep["failures"]):
        raise common.ToolError("gossip_fetch: the node under test never came up")
    drift = rep["counters"].get("drift_bad_answer_did_not_end_the_connection", 0)
    if drift:
        log(f"NOTE drift component=gossip_fetch: in {drift} case(s) a bad answer did not end the connection within the observation window")
    fails = []
    for f in rep["failures"]:
        if f["key"] in keys or f["key"] == "node_panic":
            f["case"] = {"mode": "gossip_fetch", "nblocks": nb, "case": f["case"]}
            fails.append(f)
    cov = {"model_states": r.distinct, "scripted_peers_enumerated": enumerated, "scripted_peers": len(cases), "replayed": rep["distinct"], "requests_observed": rep["evaluations"],
           "rule": f"GossipFetch.tla ({nb} missing blocks): OnlyAnnounced, Genuine, AllFetched by TLC; every scripted peer (announced range x answer script over right / other "
                   "number / forged payload / empty / no answer at all until the node's get_block_timeout passes; distinct up to the first answer that ends the connection) played against a real running node over loopback TCP, then an honest peer"}
    return cov, fails


def replay(prop, case, seed, keys):
    d = common.outdir(prop)
    cp = os.path.join(d, "replay_case.ndjson")
    common.write_ndjson(cp, [case["case"]["case"]])
    rp = os.path.join(d, "replay_report.json")
    common.run_bin("gossip_fetch", [cp, rp, case["case"].get("seed", seed), case.get("nblocks", 3)])
    rep = common.load_report(rp)
    common.handle_failures(prop, [f for f in rep["failures"] if f["key"] in keys or f["key"] == "node_panic"], "replay_failure")
    log("replay: no violation")
    return 0

"""Shared helpers for /verif checks: TLC runner, cargo runner, evidence writer, known findings.

Exit-code discipline (DESIGN §2): 0 = property held on everything explored, 1 = VIOLATION line printed
with a replay file, 2 = tool trouble (TOOL-ERROR line).
"""
import json
import os
import re
import shutil
import subprocess
import sys
import time

ROOT = os.path.dirname(os.path.dirname(os.path.abspath(__file__)))
SPECS = os.path.join(ROOT, "specs")
HARNESS = os.path.join(ROOT, "harness")
OUT = os.path.join(ROOT, "out")
EVIDENCE = os.path.join(ROOT, "evidence")
SCEN = os.path.join(ROOT, "scenarios")
JAR = "/opt/veriftools/tla/tla2tools.jar:/opt/veriftools/tla/CommunityModules-deps.jar"


class ToolError(Exception):
    pass


class Violation(Exception):
    def __init__(self, prop, what, replay):
        super().__init__(what)
        self.prop = prop
        self.what = what
        self.replay = replay


def log(*a):
    print(*a, flush=True)


def outdir(prop, sub=None):
    d = os.path.join(OUT, prop) if sub is None else os.path.join(OUT, prop, sub)
    os.makedirs(d, exist_ok=True)
    return d


# --------------------------------------------------------------------------------------------
# cargo

_built = False


def cargo_build(bins=None):
    """Incremental build of the harness against /repo's working tree (path deps, hooks on)."""
    global _built
    if _built and bins is None:
        return
    lock = os.path.join(HARNESS, "Cargo.lock")
    if not os.path.exists(lock):
        shutil.copy("/repo/node/Cargo.lock", lock)
    cmd = ["cargo", "build", "--offline", "--quiet"]
    if bins:
        for b in bins:
            cmd += ["--bin", b]
    else:
        cmd += ["--bins"]
    env = dict(os.environ)
    env["CARGO_NET_OFFLINE"] = "true"
    t0 = time.time()
    p = subprocess.run(cmd, cwd=HARNESS, env=env, stdout=subprocess.PIPE, stderr=subprocess.STDOUT, text=True)
    if p.returncode != 0:
        sys.stdout.write(p.stdout[-6000:])
        raise ToolError("cargo build failed (harness against /repo working tree)")
    log(f"[build] harness built in {time.time()-t0:.1f}s")
    if bins is None:
        _built = True


def run_bin(name, args, timeout=900, env_extra=None, stdin=None):
    """Run a harness binary. Returns (returncode, stdout, stderr)."""
    exe = os.path.join(HARNESS, "target", "debug", name)
    if not os.path.exists(exe):
        raise ToolError(f"harness binary {name} missing")
    env = dict(os.environ)
    env.setdefault("RUST_BACKTRACE", "0")
    if env_extra:
        env.update(env_extra)
    try:
        p = subprocess.run([exe] + [str(a) for a in args], cwd=ROOT, env=env, stdout=subprocess.PIPE,
                           stderr=subprocess.PIPE, text=True, timeout=timeout, input=stdin)
    except subprocess.TimeoutExpired:
        raise ToolError(f"harness binary {name} timed out after {timeout}s")
    return p.returncode, p.stdout, p.stderr


# --------------------------------------------------------------------------------------------
# TLC

_FINAL = re.compile(r"(\d+) states generated, (\d+) distinct states found, (\d+) states left on queue")
_DEPTH = re.compile(r"The depth of the complete state graph search is (\d+)")
_SIMUL = re.compile(r"The number of states generated: (\d+)")
_INV = re.compile(r"Invariant (\S+) is violated")
_APROP = re.compile(r"Action property (\S+) is violated")


class TlcResult:
    def __init__(self):
        self.rc = None
        self.out = ""
        self.generated = 0
        self.distinct = 0
        self.queue = 0
        self.depth = 0
        self.violated = None  # name of violated invariant/property, "deadlock", "temporal", "postcondition"
        self.timed_out = False
        self.wall = 0.0
        self.cmd = ""
        self.coverage = {}

    @property
    def ok(self):
        return self.rc == 0 and self.violated is None and not self.timed_out

    def printed(self, tag):
        """Values printed by PrintT(<<tag, json-string>>) — returns list of decoded JSON values."""
        res = []
        pat = re.compile(r'^<<"' + re.escape(tag) + r'", "(.*)">>$')
        for line in self.out.splitlines():
            m = pat.match(line.strip())
            if m:
                s = m.group(1).encode().decode("unicode_escape") if "\\" in m.group(1) else m.group(1)
                try:
                    res.append(json.loads(s))
                except Exception:
                    res.append(s)
        return res


def tlc(spec_dir, module, cfg=None, workers=8, timeout=3600, simulate=None, depth=None, seed=None,
        env_extra=None, xmx="8g", extra=None, dfs=False, metadir=None, deadlock=False, coverage=False,
        dump_trace=None, xss=None, quiet=True):
    """Run TLC on specs/<spec_dir>/<module>.tla. Never raises on a property violation; raises ToolError
    on parse errors / JVM trouble."""
    d = spec_dir if os.path.isabs(spec_dir) else os.path.join(SPECS, spec_dir)
    cfg = cfg or (module + ".cfg")
    meta = metadir or os.path.join(OUT, "tlc", f"{module}_{os.getpid()}_{int(time.time()*1000)%100000000}")
    os.makedirs(meta, exist_ok=True)
    java = ["java", "-XX:+UseParallelGC", f"-Xmx{xmx}"]
    if xss:
        java.append(f"-Xss{xss}")
    if dfs:
        java.append("-Dtlc2.tool.queue.IStateQueue=StateDeque")
    cmd = java + ["-cp", JAR, "tlc2.TLC", "-workers", str(workers), "-metadir", meta, "-cleanup",
                  "-noGenerateSpecTE", "-config", cfg]
    if not deadlock:
        cmd.append("-deadlock")  # -deadlock = do NOT check deadlock
    if simulate is not None:
        cmd += ["-simulate", f"num={simulate}"]
    if depth is not None:
        cmd += ["-depth", str(depth)]
    if seed is not None:
        cmd += ["-seed", str(seed)]
    if coverage:
        cmd += ["-coverage", "1"]
    if dump_trace:
        cmd += ["-dumpTrace", "json", dump_trace]
    if extra:
        cmd += extra
    cmd.append(module + ".tla")
    env = dict(os.environ)
    if env_extra:
        env.update({k: str(v) for k, v in env_extra.items()})
    r = TlcResult()
    r.cmd = " ".join(cmd)
    t0 = time.time()
    try:
        p = subprocess.run(cmd, cwd=d, env=env, stdout=subprocess.PIPE, stderr=subprocess.STDOUT, text=True,
                           timeout=timeout)
        r.rc = p.returncode
        r.out = p.stdout
    except subprocess.TimeoutExpired as e:
        r.timed_out = True
        r.rc = -1
        o = e.stdout
        r.out = o.decode(errors="replace") if isinstance(o, bytes) else (o or "")
    r.wall = time.time() - t0
    shutil.rmtree(meta, ignore_errors=True)
    for m in _FINAL.finditer(r.out):
        r.generated, r.distinct, r.queue = int(m.group(1)), int(m.group(2)), int(m.group(3))
    m = _DEPTH.search(r.out)
    if m:
        r.depth = int(m.group(1))
    if r.timed_out and r.distinct == 0:
        pm = list(re.finditer(r"Progress\((\d+)\) at .*?: ([\d,]+) states generated.*?, ([\d,]+) distinct states found.*?, ([\d,]+) states left", r.out))
        if pm:
            g = pm[-1]
            r.depth = int(g.group(1))
            r.generated = int(g.group(2).replace(",", ""))
            r.distinct = int(g.group(3).replace(",", ""))
            r.queue = int(g.group(4).replace(",", ""))
    if simulate is not None:
        ms = list(_SIMUL.finditer(r.out))
        if ms:
            r.generated = int(ms[-1].group(1))
            r.distinct = max(r.distinct, r.generated)
    m = _INV.search(r.out) or _APROP.search(r.out)
    if m:
        r.violated = m.group(1)
    elif "Deadlock reached" in r.out:
        r.violated = "deadlock"
    elif "Temporal properties were violated" in r.out or re.search(r"Temporal property \S+ was violated", r.out):
        r.violated = "temporal"
    elif "The postcondition" in r.out and "violated" in r.out or "Postcondition" in r.out and "false" in r.out.lower():
        r.violated = "postcondition"
    if coverage:
        for m in re.finditer(r"<(\w+) line \d+, col \d+ to line \d+, col \d+ of module (\w+)>: (\d+):(\d+)", r.out):
            r.coverage[m.group(1)] = (int(m.group(3)), int(m.group(4)))
    # tool errors: parse/semantic errors, evaluation errors, JVM errors
    if not r.timed_out and r.violated is None and r.rc != 0:
        tail = "\n".join(r.out.splitlines()[-40:])
        raise ToolError(f"TLC failed rc={r.rc} on {module} ({cfg}):\n{tail}")
    if not r.timed_out and r.violated is None and "Error:" in r.out and "Model checking completed" not in r.out \
            and simulate is None:
        tail = "\n".join(r.out.splitlines()[-40:])
        raise ToolError(f"TLC error on {module} ({cfg}):\n{tail}")
    return r


def sany(spec_dir, module):
    d = os.path.join(SPECS, spec_dir)
    p = subprocess.run(["java", "-cp", JAR, "tla2sany.SANY", module + ".tla"], cwd=d, stdout=subprocess.PIPE,
                       stderr=subprocess.STDOUT, text=True)
    if p.returncode != 0 or "error" in p.stdout.lower() and "Semantic errors" in p.stdout:
        raise ToolError("SANY failed on %s:\n%s" % (module, p.stdout[-3000:]))
    return p.stdout


# --------------------------------------------------------------------------------------------
# known findings

def load_known_findings():
    """Returns (known: list of dict(property, key, text), fixed: list of str)."""
    path = os.path.join(ROOT, "known_findings.txt")
    known, fixed = [], []
    if not os.path.exists(path):
        return known, fixed
    for line in open(path):
        line = line.strip()
        if not line or line.startswith("#"):
            continue
        if line.startswith("fixed:"):
            fixed.append(line)
            continue
        m = re.match(r"property=(\S+)\s+key=(\S+)\s*(.*)", line)
        if m:
            known.append({"property": m.group(1), "key": m.group(2), "text": m.group(3)})
    return known, fixed


def match_known(prop, key):
    known, _ = load_known_findings()
    for k in known:
        if k["property"] == prop and k["key"] == key:
            return k
    return None


# --------------------------------------------------------------------------------------------
# evidence

def _validate_evidence(ev):
    schema_path = "/root/.vp/EVIDENCE.schema.json"
    try:
        import jsonschema  # noqa
        schema = json.load(open(schema_path))
        jsonschema.validate(ev, schema)
        return
    except ImportError:
        pass
    except FileNotFoundError:
        pass
    for k in ["property_id", "tier", "seed", "level", "coverage", "wall_s"]:
        if k not in ev:
            raise ToolError(f"evidence missing {k}")
    cov = ev["coverage"]
    if ev["level"] == "model_checking":
        if all(k in cov for k in ("states", "transitions", "traces_validated_against_impl", "samples")):
            assert cov["states"] >= 1 and cov["transitions"] >= 1 and len(cov["samples"]) >= 1
        else:
            assert cov.get("evaluations", 0) >= 1 and cov.get("distinct_nontrivial", 0) >= 2
    if ev["level"] == "proof":
        assert cov.get("obligations", 0) >= 1 and cov.get("discharged", 0) >= 1 and cov.get("checker_cmd")


def write_evidence(prop, tier, seed, level, coverage, assumptions, wall, violations=0):
    os.makedirs(EVIDENCE, exist_ok=True)
    ev = {
        "property_id": prop,
        "tier": tier,
        "seed": int(seed),
        "level": level,
        "coverage": coverage,
        "assumptions": assumptions,
        "wall_s": round(wall, 2),
        "violations": int(violations),
    }
    _validate_evidence(ev)
    path = os.path.join(EVIDENCE, prop + ".json")
    tmp = path + ".tmp"
    with open(tmp, "w") as f:
        json.dump(ev, f, indent=1, sort_keys=False)
        f.write("\n")
    os.replace(tmp, path)
    return path


def write_replay(prop, name, obj):
    d = outdir(prop, "replay")
    path = os.path.join(d, name if name.endswith(".json") else name + ".json")
    with open(path, "w") as f:
        json.dump(obj, f, indent=1)
    return path


def read_ndjson(path):
    res = []
    with open(path) as f:
        for line in f:
            line = line.strip()
            if line:
                res.append(json.loads(line))
    return res


# --------------------------------------------------------------------------------------------
# reports of harness binaries

def load_report(path):
    if not os.path.exists(path):
        raise ToolError(f"harness report {path} missing")
    return json.load(open(path))


def handle_failures(prop, failures, replay_name="failure"):
    """failures: list of {key, what, case}. Prints KNOWN-FINDING lines for listed keys; raises Violation
    for the first unlisted one (after writing a replay file). Returns number of known-finding hits."""
    known_hits = {}
    unknown = []
    for f in failures:
        k = match_known(prop, f["key"])
        if k:
            known_hits.setdefault(f["key"], []).append(f)
        else:
            unknown.append(f)
    for key, fs in known_hits.items():
        log(f"KNOWN-FINDING: property={prop} key={key} {fs[0]['what']} ({len(fs)} case(s))")
    if unknown:
        f = unknown[0]
        path = write_replay(prop, replay_name, {"property": prop, "key": f["key"], "what": f["what"],
                                                "case": f["case"], "others": len(unknown) - 1})
        raise Violation(prop, f"[{f['key']}] {f['what']}", path)
    return sum(len(v) for v in known_hits.values())


def write_ndjson(path, items):
    os.makedirs(os.path.dirname(path), exist_ok=True)
    with open(path, "w") as f:
        for it in items:
            f.write(json.dumps(it) + "\n")


def tlapm(spec_dir, module, timeout=600):
    """Runs the TLA+ proof system; returns (obligations, proved, output)."""
    d = os.path.join(SPECS, spec_dir)
    cache = os.path.join(d, ".tlacache")
    shutil.rmtree(cache, ignore_errors=True)
    try:
        p = subprocess.run(["tlapm", "--threads", "8", "--cleanfp", module + ".tla"], cwd=d, stdout=subprocess.PIPE,
                           stderr=subprocess.STDOUT, text=True, timeout=timeout)
    except subprocess.TimeoutExpired:
        raise ToolError("tlapm timed out")
    finally:
        shutil.rmtree(cache, ignore_errors=True)
    out = p.stdout
    m = re.search(r"All (\d+) obligations? proved", out)
    if m:
        return int(m.group(1)), int(m.group(1)), out
    m = re.search(r"(\d+)/(\d+) obligations? failed", out)
    if m:
        return int(m.group(2)), int(m.group(2)) - int(m.group(1)), out
    raise ToolError("tlapm output not understood:\n" + out[-2000:])

//! ND-JSON event log used for trace validation (T1).
use std::{
    io::Write,
    sync::{
        atomic::{AtomicU64, Ordering},
        Mutex,
    },
};

use serde_json::Value;

/// Global sequence number: taken at the logging site, never wall-clock time.
pub static SEQ: AtomicU64 = AtomicU64::new(0);

pub struct EventLog {
    events: Mutex<Vec<Value>>,
}

impl Default for EventLog {
    fn default() -> Self {
        Self::new()
    }
}

impl EventLog {
    pub fn new() -> Self {
        Self { events: Mutex::new(vec![]) }
    }
    /// Appends an event; the sequence number is assigned under the log's mutex.
    pub fn emit(&self, mut ev: Value) {
        let mut g = self.events.lock().unwrap();
        let s = SEQ.fetch_add(1, Ordering::SeqCst);
        if let Value::Object(m) = &mut ev {
            m.insert("seq".into(), Value::from(s));
        }
        g.push(ev);
    }
    pub fn len(&self) -> usize {
        self.events.lock().unwrap().len()
    }
    pub fn is_empty(&self) -> bool {
        self.len() == 0
    }
    pub fn take(&self) -> Vec<Value> {
        std::mem::take(&mut *self.events.lock().unwrap())
    }
    pub fn snapshot(&self) -> Vec<Value> {
        self.events.lock().unwrap().clone()
    }
    pub fn write(&self, path: &str) {
        let mut f = std::io::BufWriter::new(std::fs::File::create(path).expect("create trace"));
        for e in self.events.lock().unwrap().iter() {
            serde_json::to_writer(&mut f, e).unwrap();
            f.write_all(b"\n").unwrap();
        }
    }
}

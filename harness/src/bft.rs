//! BFT world: real `StateMachine`s (through the `verif::Replica` hook) over a crashable in-memory
//! `EngineInterface`, with the abstraction maps used by trace validation (TraceChonky.tla).
//!
//! Key-usage discipline (DESIGN §6): a correct replica's secret key is used only inside its `Replica`
//! instance and its proposer step. Everything the harness signs itself is signed with keys listed as
//! `faulty` in the trace header (or with the outsider key).
use std::{
    collections::{BTreeMap, HashMap, HashSet},
    sync::{Arc, Mutex},
};

use anyhow::Context as _;
use serde_json::{json, Value};
use zksync_concurrency::{ctx, sync, time};
use zksync_consensus_bft::{verif, Config, ToNetworkMessage};
use zksync_consensus_engine::{BlockStoreState, EngineInterface, EngineManager, Last, Transaction};
use zksync_consensus_roles::validator::{
    self,
    v2::{ChonkyMsg, CommitQC, ProposalJustification, ReplicaCommit, ReplicaTimeout, TimeoutQC},
    ConsensusMsg, Signed,
};

use crate::log::EventLog;

pub type SMsg = Signed<ConsensusMsg>;

pub const EPOCH: validator::EpochNumber = validator::EpochNumber(0);

// ------------------------------------------------------------------------------------------------
// Committee

#[derive(Clone)]
pub struct Committee {
    pub keys: Vec<validator::SecretKey>,
    pub weights: Vec<u64>,
    pub genesis: validator::Genesis,
    pub schedule: validator::Schedule,
    pub outsider: validator::SecretKey,
}

impl Committee {
    pub fn new(weights: &[u64], seed: u64) -> Self {
        let mut keys = crate::validator_keys(weights.len() + 1, seed);
        let outsider = keys.pop().unwrap();
        let schedule = validator::Schedule::new(
            keys.iter().zip(weights).map(|(k, w)| validator::ValidatorInfo {
                key: k.public(),
                weight: *w,
                leader: true,
            }),
            validator::LeaderSelection {
                frequency: 1,
                mode: validator::LeaderSelectionMode::RoundRobin,
            },
        )
        .unwrap();
        let genesis = validator::GenesisRaw {
            chain_id: validator::ChainId(1337),
            fork_number: validator::ForkNumber(0),
            protocol_version: validator::ProtocolVersion::CURRENT,
            first_block: validator::BlockNumber(0),
            validators_schedule: Some(schedule.clone()),
        }
        .with_hash();
        Self { keys, weights: weights.to_vec(), genesis, schedule, outsider }
    }
    /// "3,1n,1,1n": a trailing n marks a member that is not leader-eligible (irrelevant for quorums: they are over the TOTAL weight).
    pub fn from_spec(spec: &str, seed: u64) -> Self {
        let nonleader: Vec<bool> = spec.split(',').map(|x| x.ends_with('n')).collect();
        let weights: Vec<u64> = spec.split(',').map(|x| x.trim_end_matches('n').parse().unwrap()).collect();
        let mut c = Self::new(&weights, seed);
        if nonleader.iter().any(|x| *x) {
            let infos: Vec<validator::ValidatorInfo> = c.keys.iter().zip(&weights).zip(&nonleader).map(|((k, w), nl)| validator::ValidatorInfo { key: k.public(), weight: *w, leader: !*nl }).collect();
            // positions are by key order in both schedules, so the abstraction stays valid
            c.schedule = validator::Schedule::new(infos, validator::LeaderSelection { frequency: 1, mode: validator::LeaderSelectionMode::RoundRobin }).unwrap();
            c.genesis = validator::GenesisRaw { chain_id: validator::ChainId(1337), fork_number: validator::ForkNumber(0), protocol_version: validator::ProtocolVersion::CURRENT, first_block: validator::BlockNumber(0), validators_schedule: Some(c.schedule.clone()) }.with_hash();
        }
        c
    }
    pub fn n(&self) -> usize {
        self.keys.len()
    }
    /// 1-based position of a key (0 = not a member).
    pub fn pos(&self, k: &validator::PublicKey) -> usize {
        self.schedule.index(k).map(|i| i + 1).unwrap_or(0)
    }
    pub fn view(&self, n: u64) -> validator::v2::View {
        validator::v2::View { genesis: self.genesis.hash(), epoch: EPOCH, number: validator::ViewNumber(n) }
    }
    pub fn leader(&self, view: u64) -> usize {
        (view as usize % self.n()) + 1
    }
    pub fn quorum(&self) -> u64 {
        self.schedule.quorum_threshold()
    }
    pub fn weight_of(&self, pos: &[usize]) -> u64 {
        pos.iter().map(|p| self.weights[p - 1]).sum()
    }
}

// ------------------------------------------------------------------------------------------------
// Names of payloads and registry of forged signatures (labels for the explicit abstraction)

#[derive(Default)]
pub struct Labels {
    names: HashMap<validator::PayloadHash, String>,
    /// encodings of aggregate signatures the harness corrupted on purpose
    pub forged_agg: HashSet<Vec<u8>>,
    /// encodings of message signatures the harness corrupted on purpose
    pub forged_sig: HashSet<Vec<u8>>,
}

impl Labels {
    pub fn payload(&mut self, name: &str) -> validator::Payload {
        let mut bytes = name.as_bytes().to_vec();
        if name == "huge" {
            // larger than the configured max_payload_size: a replica must refuse to vote for it
            bytes.resize(MAX_PAYLOAD + 1, 0xee);
        }
        let p = validator::Payload(bytes);
        self.names.insert(p.hash(), name.to_string());
        p
    }
    pub fn name(&self, h: &validator::PayloadHash) -> String {
        self.names.get(h).cloned().unwrap_or_else(|| format!("h:{:?}", h).chars().take(40).collect())
    }
    pub fn register(&mut self, p: &validator::Payload) -> String {
        if let Some(n) = self.names.get(&p.hash()) {
            return n.clone(); // already named (e.g. "huge": the name is not the content)
        }
        let name = String::from_utf8(p.0.clone()).unwrap_or_else(|_| format!("bin{}", p.0.len()));
        self.names.insert(p.hash(), name.clone());
        name
    }
}

// ------------------------------------------------------------------------------------------------
// Abstraction to JSON (see TraceChonky.tla for the shapes)

pub struct Abs<'a> {
    pub c: &'a Committee,
    pub l: &'a Labels,
}

fn num(v: u64) -> Value {
    // TLC integers are 32-bit: clamp (bft traces never use larger values on purpose)
    json!(v.min(2_000_000_000))
}

impl Abs<'_> {
    pub fn novote() -> Value {
        json!({"view": -1, "num": -1, "pay": "none"})
    }
    pub fn nohdr() -> Value {
        json!({"num": -1, "pay": "none"})
    }
    pub fn notq() -> Value {
        json!({"view": -1, "hvh": Self::nohdr(), "hq": Self::novote()})
    }
    pub fn nojust() -> Value {
        json!({"k": "n", "cq": Self::novote(), "tq": Self::notq()})
    }
    pub fn nocqc() -> Value {
        json!({"vote": Self::novote(), "g": true, "signers": [], "len": 0, "sig": true})
    }
    pub fn notqc() -> Value {
        json!({"view": -1, "g": true, "groups": [], "sig": true})
    }
    fn g(&self, v: &validator::v2::View) -> bool {
        v.genesis == self.c.genesis.hash() && v.epoch == EPOCH
    }
    pub fn vote(&self, v: &ReplicaCommit) -> Value {
        json!({"view": num(v.view.number.0), "num": num(v.proposal.number.0), "pay": self.l.name(&v.proposal.payload)})
    }
    pub fn ovote(&self, v: &Option<ReplicaCommit>) -> Value {
        v.as_ref().map(|v| self.vote(v)).unwrap_or_else(Self::novote)
    }
    fn signers(s: &validator::v2::Signers) -> Value {
        Value::Array(s.0.iter().enumerate().filter(|(_, b)| *b).map(|(i, _)| json!(i + 1)).collect())
    }
    pub fn cqc_x(&self, q: &CommitQC) -> Value {
        use zksync_consensus_crypto::ByteFmt;
        json!({"vote": self.vote(&q.message), "g": self.g(&q.message.view), "signers": Self::signers(&q.signers),
               "len": q.signers.len(), "sig": !self.l.forged_agg.contains(&agg_key(&q.signers, &ByteFmt::encode(&q.signature)))})
    }
    pub fn ocqc_x(&self, q: &Option<CommitQC>) -> Value {
        q.as_ref().map(|q| self.cqc_x(q)).unwrap_or_else(Self::nocqc)
    }
    pub fn ocqc_vote(&self, q: &Option<CommitQC>) -> Value {
        q.as_ref().map(|q| self.vote(&q.message)).unwrap_or_else(Self::novote)
    }
    pub fn tmsg_x(&self, m: &ReplicaTimeout) -> Value {
        json!({"view": num(m.view.number.0), "g": self.g(&m.view), "hv": self.ovote(&m.high_vote),
               "hvg": m.high_vote.as_ref().map(|v| self.g(&v.view)).unwrap_or(true), "hq": self.ocqc_x(&m.high_qc)})
    }
    pub fn tqc_x(&self, t: &TimeoutQC) -> Value {
        use zksync_consensus_crypto::ByteFmt;
        let groups: Vec<Value> = t
            .map
            .iter()
            .map(|(m, s)| json!({"msg": self.tmsg_x(m), "signers": Self::signers(s), "len": s.len()}))
            .collect();
        json!({"view": num(t.view.number.0), "g": self.g(&t.view), "groups": groups,
               "sig": !self.l.forged_agg.contains(&ByteFmt::encode(&t.signature))})
    }
    /// Derived content computed by the REAL functions `high_vote` / `high_qc`.
    pub fn tq_derived(&self, t: &TimeoutQC) -> Value {
        let hvh = match t.high_vote(&self.c.schedule) {
            Some(h) => json!({"num": num(h.number.0), "pay": self.l.name(&h.payload)}),
            None => Self::nohdr(),
        };
        let hq = t.high_qc().map(|q| self.vote(&q.message)).unwrap_or_else(Self::novote);
        json!({"view": num(t.view.number.0), "hvh": hvh, "hq": hq})
    }
    pub fn otq_derived(&self, t: &Option<TimeoutQC>) -> Value {
        t.as_ref().map(|t| self.tq_derived(t)).unwrap_or_else(Self::notq)
    }
    pub fn just_x(&self, j: &ProposalJustification) -> Value {
        match j {
            ProposalJustification::Commit(q) => json!({"k": "c", "cq": self.cqc_x(q), "tq": Self::notqc()}),
            ProposalJustification::Timeout(t) => json!({"k": "t", "cq": Self::nocqc(), "tq": self.tqc_x(t)}),
        }
    }
    pub fn just_derived(&self, j: &ProposalJustification) -> Value {
        match j {
            ProposalJustification::Commit(q) => json!({"k": "c", "cq": self.vote(&q.message), "tq": Self::notq()}),
            ProposalJustification::Timeout(t) => json!({"k": "t", "cq": Self::novote(), "tq": self.tq_derived(t)}),
        }
    }
    pub fn ojust_derived(&self, j: &Option<ProposalJustification>) -> Value {
        j.as_ref().map(|j| self.just_derived(j)).unwrap_or_else(Self::nojust)
    }
    /// Explicit form of an INPUT message.
    pub fn msg_x(&self, m: &SMsg) -> Value {
        use zksync_consensus_crypto::ByteFmt;
        let from = self.c.pos(&m.key);
        let sigok = !self.l.forged_sig.contains(&ByteFmt::encode(&m.sig));
        let ConsensusMsg::V2(inner) = &m.msg;
        match inner {
            ChonkyMsg::LeaderProposal(p) => json!({"t": "proposal", "from": from, "x": self.just_x(&p.justification),
                "p": p.proposal_payload.as_ref().map(|p| self.l.name(&p.hash())).unwrap_or("none".into()), "sigok": sigok}),
            ChonkyMsg::ReplicaNewView(p) => json!({"t": "newview", "from": from, "x": self.just_x(&p.justification), "sigok": sigok}),
            ChonkyMsg::ReplicaCommit(v) => json!({"t": "commit", "from": from, "vote": self.vote(v), "g": self.g(&v.view), "sigok": sigok}),
            ChonkyMsg::ReplicaTimeout(t) => {
                let mut x = self.tmsg_x(t);
                let o = x.as_object_mut().unwrap();
                o.insert("t".into(), json!("timeout"));
                o.insert("from".into(), json!(from));
                o.insert("sigok".into(), json!(sigok));
                x
            }
        }
    }
    /// Abstract (derived) form of an OUTPUT message = the message records of Replica.tla.
    pub fn msg_abs(&self, m: &SMsg) -> Value {
        let from = self.c.pos(&m.key);
        let ConsensusMsg::V2(inner) = &m.msg;
        match inner {
            ChonkyMsg::LeaderProposal(p) => json!({"t": "proposal", "from": from, "j": self.just_derived(&p.justification),
                "p": p.proposal_payload.as_ref().map(|p| self.l.name(&p.hash())).unwrap_or("none".into()), "valid": true}),
            ChonkyMsg::ReplicaNewView(p) => json!({"t": "newview", "from": from, "j": self.just_derived(&p.justification), "valid": true}),
            ChonkyMsg::ReplicaCommit(v) => json!({"t": "commit", "from": from, "vote": self.vote(v), "valid": true}),
            ChonkyMsg::ReplicaTimeout(t) => json!({"t": "timeout", "from": from, "view": num(t.view.number.0),
                "hv": self.ovote(&t.high_vote), "hq": self.ocqc_vote(&t.high_qc), "valid": true}),
        }
    }
    /// Do the certificates carried by an emitted message verify in isolation (real verify())?
    pub fn self_verifies(&self, m: &SMsg) -> bool {
        let (g, s) = (self.c.genesis.hash(), &self.c.schedule);
        let ConsensusMsg::V2(inner) = &m.msg;
        m.verify().is_ok()
            && match inner {
                ChonkyMsg::LeaderProposal(p) => p.verify(g, EPOCH, s).is_ok(),
                ChonkyMsg::ReplicaNewView(p) => p.verify(g, EPOCH, s).is_ok(),
                ChonkyMsg::ReplicaCommit(v) => v.verify(g, EPOCH).is_ok(),
                ChonkyMsg::ReplicaTimeout(t) => t.verify(g, EPOCH, s).is_ok(),
            }
    }
    pub fn phase(p: validator::v2::Phase) -> &'static str {
        match p {
            validator::v2::Phase::Prepare => "prepare",
            validator::v2::Phase::Commit => "commit",
            validator::v2::Phase::Timeout => "timeout",
        }
    }
    pub fn snapshot(&self, s: &verif::Snapshot) -> (Value, bool) {
        let n = self.c.n();
        let mut cv = vec![json!(-1); n];
        for (k, v) in &s.commit_views {
            let p = self.c.pos(k);
            if p > 0 {
                cv[p - 1] = num(v.0);
            }
        }
        let mut tv = vec![json!(-1); n];
        for (k, v) in &s.timeout_views {
            let p = self.c.pos(k);
            if p > 0 {
                tv[p - 1] = num(v.0);
            }
        }
        let mut cq = vec![];
        for (_, m) in &s.commit_qcs {
            for (vote, signers) in m {
                cq.push(json!({"vote": self.vote(vote), "signers": Self::signers(signers)}));
            }
        }
        let mut tq = vec![];
        for (_, t) in &s.timeout_qcs {
            for (m, signers) in &t.map {
                for (i, b) in signers.0.iter().enumerate() {
                    if b {
                        tq.push(json!({"s": i + 1, "view": num(m.view.number.0), "hv": self.ovote(&m.high_vote), "hq": self.ocqc_vote(&m.high_qc)}));
                    }
                }
            }
        }
        let props: Vec<Value> = s.proposals.iter().map(|(n, h)| json!({"num": num(n.0), "pay": self.l.name(h)})).collect();
        let (g, sch) = (self.c.genesis.hash(), &self.c.schedule);
        let certs_ok = s.high_commit_qc.as_ref().map(|q| q.verify(g, EPOCH, sch).is_ok()).unwrap_or(true)
            && s.high_timeout_qc.as_ref().map(|q| q.verify(g, EPOCH, sch).is_ok()).unwrap_or(true);
        (
            json!({"view": num(s.view.0), "phase": Self::phase(s.phase), "hv": self.ovote(&s.high_vote),
                   "hcq": self.ocqc_vote(&s.high_commit_qc), "htq": self.otq_derived(&s.high_timeout_qc),
                   "props": props, "cv": cv, "tv": tv, "cq": cq, "tq": tq}),
            certs_ok,
        )
    }
    pub fn durable(&self, st: &validator::ReplicaState) -> Value {
        let validator::ReplicaState::V2(s) = st;
        let props: Vec<Value> = s.proposals.iter().map(|p| json!({"num": num(p.number.0), "pay": self.l.name(&p.payload.hash())})).collect();
        json!({"view": num(s.view_number.0), "phase": Self::phase(s.phase), "hv": self.ovote(&s.high_vote),
               "hcq": self.ocqc_vote(&s.high_commit_qc), "htq": self.otq_derived(&s.high_timeout_qc), "props": props})
    }
}

// ------------------------------------------------------------------------------------------------
// Crashable in-memory engine

#[derive(Default)]
pub struct Ctl {
    outbound: Option<ctx::channel::UnboundedReceiver<ToNetworkMessage>>,
    /// messages observed during the current step with the number of applied durable writes before each
    pub step_out: Vec<(SMsg, usize)>,
    /// durable state before the step, then after each applied write
    pub step_durs: Vec<validator::ReplicaState>,
    pub persists: usize,
    pub total_set_state: usize,
    /// crash at the k-th set_state call (counted over the node's life): (k, write applied?)
    pub crash_at: Option<(usize, bool)>,
    pub crashed: bool,
    pub next_payload: Option<validator::Payload>,
    /// when set, payloads made up by propose_payload carry this tag and a counter (distinct per node and call)
    pub payload_tag: Option<String>,
    pub payload_counter: u64,
    pub bad_payloads: HashSet<Vec<u8>>,
}

#[derive(Debug)]
pub struct VerifEngine(Arc<EngineInner>);

pub struct EngineInner {
    genesis: validator::Genesis,
    persisted: sync::watch::Sender<BlockStoreState>,
    pub blocks: Mutex<Vec<validator::Block>>,
    pub state: Mutex<validator::ReplicaState>,
    pub ctl: Mutex<Ctl>,
    /// every queue_next_block call (C08 monitor)
    pub handed: Mutex<Vec<u64>>,
}

impl std::fmt::Debug for EngineInner {
    fn fmt(&self, f: &mut std::fmt::Formatter<'_>) -> std::fmt::Result {
        f.write_str("EngineInner")
    }
}

impl Clone for VerifEngine {
    fn clone(&self) -> Self {
        Self(self.0.clone())
    }
}

impl VerifEngine {
    pub fn new(genesis: validator::Genesis) -> Self {
        Self(Arc::new(EngineInner {
            persisted: sync::watch::channel(BlockStoreState { first: genesis.first_block, last: None }).0,
            genesis,
            blocks: Mutex::default(),
            state: Mutex::new(validator::ReplicaState::default()),
            ctl: Mutex::default(),
            handed: Mutex::default(),
        }))
    }
    pub fn inner(&self) -> &EngineInner {
        &self.0
    }
    fn drain(ctl: &mut Ctl) {
        let n = ctl.persists;
        if let Some(rx) = ctl.outbound.as_mut() {
            while let Some(m) = rx.try_recv() {
                ctl.step_out.push((m.message, n));
            }
        }
    }
    pub fn begin_step(&self) {
        let mut c = self.0.ctl.lock().unwrap();
        Self::drain(&mut c); // nothing should be pending; if something is, it belongs to nobody: keep it visible
        c.step_out.clear();
        c.step_durs = vec![self.0.state.lock().unwrap().clone()];
        c.persists = 0;
    }
    pub fn end_step(&self) -> (Vec<(SMsg, usize)>, Vec<validator::ReplicaState>) {
        let mut c = self.0.ctl.lock().unwrap();
        Self::drain(&mut c);
        (std::mem::take(&mut c.step_out), std::mem::take(&mut c.step_durs))
    }
    pub fn set_outbound(&self, rx: ctx::channel::UnboundedReceiver<ToNetworkMessage>) {
        self.0.ctl.lock().unwrap().outbound = Some(rx);
    }
    pub fn store_len(&self) -> usize {
        self.0.blocks.lock().unwrap().len()
    }
}

#[async_trait::async_trait]
impl EngineInterface for VerifEngine {
    async fn genesis(&self, _ctx: &ctx::Ctx) -> ctx::Result<validator::Genesis> {
        Ok(self.0.genesis.clone())
    }
    async fn get_validator_schedule(&self, _ctx: &ctx::Ctx, _n: validator::BlockNumber) -> ctx::Result<(validator::Schedule, validator::BlockNumber)> {
        Ok((self.0.genesis.validators_schedule.clone().unwrap(), self.0.genesis.first_block))
    }
    async fn get_pending_validator_schedule(&self, _ctx: &ctx::Ctx, _n: validator::BlockNumber) -> ctx::Result<Option<(validator::Schedule, validator::BlockNumber)>> {
        Ok(None)
    }
    fn persisted(&self) -> sync::watch::Receiver<BlockStoreState> {
        self.0.persisted.subscribe()
    }
    async fn get_block(&self, _ctx: &ctx::Ctx, number: validator::BlockNumber) -> ctx::Result<validator::Block> {
        let blocks = self.0.blocks.lock().unwrap();
        let first = self.0.genesis.first_block.0;
        let idx = number.0.checked_sub(first).context("not found")?;
        Ok(blocks.get(idx as usize).context("not found")?.clone())
    }
    async fn queue_next_block(&self, _ctx: &ctx::Ctx, block: validator::Block) -> ctx::Result<()> {
        self.0.handed.lock().unwrap().push(block.number().0);
        let mut blocks = self.0.blocks.lock().unwrap();
        let want = self.0.persisted.borrow().next();
        if block.number() < want {
            return Ok(());
        }
        if block.number() > want {
            return Err(anyhow::format_err!("got block {:?}, want {want:?}", block.number()).into());
        }
        self.0.persisted.send_modify(|p| p.last = Some(Last::from(&block)));
        blocks.push(block);
        Ok(())
    }
    async fn verify_pregenesis_block(&self, _ctx: &ctx::Ctx, _b: &validator::PreGenesisBlock) -> ctx::Result<()> {
        Err(anyhow::format_err!("no pre-genesis blocks in this world").into())
    }
    async fn verify_payload(&self, _ctx: &ctx::Ctx, _n: validator::BlockNumber, payload: &validator::Payload) -> ctx::Result<()> {
        if self.0.ctl.lock().unwrap().bad_payloads.contains(&payload.0) {
            return Err(anyhow::format_err!("application rejects this payload").into());
        }
        Ok(())
    }
    async fn propose_payload(&self, _ctx: &ctx::Ctx, number: validator::BlockNumber) -> ctx::Result<validator::Payload> {
        let mut c = self.0.ctl.lock().unwrap();
        let p = c.next_payload.take();
        c.payload_counter += 1;
        let auto = match &c.payload_tag {
            Some(t) => format!("auto{}-{t}-{}", number.0, c.payload_counter),
            None => format!("auto{}", number.0),
        };
        Ok(p.unwrap_or_else(|| validator::Payload(auto.into_bytes())))
    }
    async fn get_state(&self, _ctx: &ctx::Ctx) -> ctx::Result<validator::ReplicaState> {
        // a storage backend keeps BYTES (node/tools' RocksDB store does): what a restarted replica reads went through the real encoding
        let st = self.0.state.lock().unwrap().clone();
        let bytes = zksync_protobuf::encode(&st);
        zksync_protobuf::decode(&bytes).map_err(|e| ctx::Error::Internal(anyhow::format_err!("the stored replica state does not decode: {e:#}")))
    }
    async fn set_state(&self, _ctx: &ctx::Ctx, state: &validator::ReplicaState) -> ctx::Result<()> {
        let mut c = self.0.ctl.lock().unwrap();
        // Everything sent so far left the node BEFORE this durable write.
        Self::drain(&mut c);
        c.total_set_state += 1;
        if let Some((k, apply)) = c.crash_at {
            if k == c.total_set_state {
                if apply {
                    *self.0.state.lock().unwrap() = state.clone();
                    c.persists += 1;
                    c.step_durs.push(state.clone());
                }
                c.crashed = true;
                c.crash_at = None;
                return Err(ctx::Error::Internal(anyhow::format_err!("injected crash at durable write")));
            }
        }
        *self.0.state.lock().unwrap() = state.clone();
        c.persists += 1;
        c.step_durs.push(state.clone());
        Ok(())
    }
    async fn push_tx(&self, _ctx: &ctx::Ctx, _tx: Transaction) -> ctx::Result<bool> {
        Ok(false)
    }
}

// ------------------------------------------------------------------------------------------------
// Nodes and the world

pub struct Node {
    pub pos: usize,
    pub engine: VerifEngine,
    pub manager: Arc<EngineManager>,
    pub cfg: Arc<Config>,
    pub replica: Option<verif::Replica>,
    pub watch: sync::watch::Receiver<Option<ProposalJustification>>,
    pub outbound_tx: ctx::channel::UnboundedSender<ToNetworkMessage>,
    pub runner: tokio::task::JoinHandle<()>,
    pub stop: Option<tokio::sync::oneshot::Sender<()>>,
    /// justification currently on the proposer watch and not yet consumed by the proposer step
    pub pending_just: Option<ProposalJustification>,
}

pub const VIEW_TIMEOUT_MS: i64 = 2000;
pub const MAX_PAYLOAD: usize = 1000;

pub struct World {
    pub ctx: ctx::Ctx,
    pub clock: ctx::ManualClock,
    pub c: Committee,
    pub labels: Labels,
    pub faulty: Vec<usize>,
    pub nodes: BTreeMap<usize, Node>,
    pub log: EventLog,
    /// every message made visible by a real node (and proposals made by proposer steps)
    pub emitted: Vec<SMsg>,
    pub payload_counter: u64,
    pub stuck: u64,
}

pub enum StepKind {
    Recv(SMsg),
    Timer,
    Boot,
}

pub struct StepResult {
    pub accepted: bool,
    pub class: String,
    pub out: Vec<SMsg>,
    pub crashed: bool,
}

impl World {
    pub async fn new(weights: &[u64], faulty: &[usize], seed: u64) -> Self {
        let clock = ctx::ManualClock::new();
        let ctx = ctx::test_root(&clock);
        let c = Committee::new(weights, seed);
        let mut w = Self {
            ctx,
            clock,
            c,
            labels: Labels::default(),
            faulty: faulty.to_vec(),
            nodes: BTreeMap::new(),
            log: EventLog::new(),
            emitted: vec![],
            payload_counter: 0,
            stuck: 0,
        };
        w.log.emit(json!({"e": "header", "n": w.c.n(), "weights": w.c.weights, "faulty": faulty, "bad": ["bad", "huge"], "seed": seed}));
        for pos in 1..=w.c.n() {
            if !faulty.contains(&pos) {
                let engine = VerifEngine::new(w.c.genesis.clone());
                engine.inner().ctl.lock().unwrap().bad_payloads.insert(b"bad".to_vec());
                let node = w.make_node(pos, engine).await;
                w.nodes.insert(pos, node);
            }
        }
        w
    }

    pub fn abs(&self) -> Abs<'_> {
        Abs { c: &self.c, l: &self.labels }
    }

    async fn make_node(&self, pos: usize, engine: VerifEngine) -> Node {
        let (manager, runner) = EngineManager::new(&self.ctx, Box::new(engine.clone()), time::Duration::seconds(3600)).await.unwrap();
        let rc = self.ctx.with_deadline(time::Deadline::Infinite);
        // scope futures must run to completion (must_complete guard): the runner is stopped by ending the
        // main task of an enclosing scope, never by aborting the tokio task.
        let (stop_tx, stop_rx) = tokio::sync::oneshot::channel::<()>();
        let handle = tokio::spawn(async move {
            let _: Result<(), ctx::Error> = zksync_concurrency::scope::run!(&rc, |ctx, s| async move {
                s.spawn_bg(async move {
                    let _ = runner.run(ctx).await;
                    Ok(())
                });
                let _ = stop_rx.await;
                Ok(())
            })
            .await;
        });
        let cfg = Arc::new(
            Config::new(self.c.keys[pos - 1].clone(), MAX_PAYLOAD, time::Duration::milliseconds(VIEW_TIMEOUT_MS), manager.clone(), EPOCH).unwrap(),
        );
        let (tx, rx) = ctx::channel::unbounded();
        engine.set_outbound(rx);
        let (replica, watch) = verif::Replica::start(&self.ctx, cfg.clone(), tx.clone()).await.unwrap();
        Node { pos, engine, manager, cfg, replica: Some(replica), watch, outbound_tx: tx, runner: handle, stop: Some(stop_tx), pending_just: None }
    }

    pub fn store_names(&self, pos: usize) -> Vec<String> {
        let n = &self.nodes[&pos];
        let blocks = n.engine.inner().blocks.lock().unwrap();
        blocks
            .iter()
            .map(|b| match b {
                validator::Block::FinalV2(b) => self.labels.name(&b.payload.hash()),
                validator::Block::PreGenesis(_) => "pregenesis".to_string(),
            })
            .collect()
    }

    pub fn snapshot(&self, pos: usize) -> verif::Snapshot {
        self.nodes[&pos].replica.as_ref().unwrap().snapshot()
    }

    /// Lets background tasks (EngineManagerRunner) run until nothing changes.
    pub async fn settle(&self) {
        for _ in 0..30 {
            tokio::task::yield_now().await;
        }
    }

    /// Executes one handler on the real replica and logs the `step` event.
    pub async fn step(&mut self, pos: usize, kind: StepKind) -> StepResult {
        self.step_cut(pos, kind, None).await
    }

    /// Like `step`; with `cut = Some(k)` the process is killed after the first k messages of the step left the node
    /// (the remaining ones are never visible), logged as a `partial` event. The caller must `crash` the node next.
    pub async fn step_cut(&mut self, pos: usize, kind: StepKind, cut: Option<usize>) -> StepResult {
        let kind_s = match &kind {
            StepKind::Recv(_) => "recv",
            StepKind::Timer => "timer",
            StepKind::Boot => "boot",
        };
        let mx = match &kind {
            StepKind::Recv(m) => {
                self.register_payloads(m);
                self.abs().msg_x(m)
            }
            _ => json!({"t": "none"}),
        };
        let ctx = self.ctx.with_deadline(time::Deadline::Infinite);
        self.nodes[&pos].engine.begin_step();
        let mut replica = self.nodes.get_mut(&pos).unwrap().replica.take().expect("replica is down");
        let mut idle = 0u32;
        let mut synced = 0u32;
        let mut advanced = false;
        let outcome: Result<verif::Outcome, String> = {
            let fut = async {
                match kind {
                    StepKind::Recv(m) => replica.handle(&ctx, m).await,
                    StepKind::Timer => replica.timer_expired(&ctx).await.map(|_| verif::Outcome { accepted: true, class: "ok" }),
                    StepKind::Boot => replica.boot(&ctx).await.map(|_| verif::Outcome { accepted: true, class: "ok" }),
                }
            };
            tokio::pin!(fut);
            loop {
                tokio::select! {
                    biased;
                    r = &mut fut => break r.map_err(|e| format!("{e:?}")),
                    _ = tokio::task::yield_now() => {
                        idle += 1;
                        if idle > 60 {
                            idle = 0;
                            // The handler waits for blocks (queue_block / wait_until_persisted): play the block fetcher.
                            if self.force_sync(pos).await {
                                synced += 1;
                                continue;
                            }
                            if !advanced {
                                // nothing to fetch: let the view timeout pass (MissingPreviousPayload path)
                                self.clock.advance(time::Duration::milliseconds(VIEW_TIMEOUT_MS + 1));
                                advanced = true;
                                continue;
                            }
                            break Err("STUCK".to_string());
                        }
                    }
                }
            }
        };
        let _ = synced;
        let node = self.nodes.get_mut(&pos).unwrap();
        let (mut out, mut durs) = node.engine.end_step();
        let mut cut_applied = false;
        if let Some(k) = cut {
            if outcome.is_ok() {
                // killed right after the k-th message left: durable writes that the handler performed AFTER that message never happened
                // (for code that persists before it sends this changes nothing)
                if k >= 1 && out.len() >= k {
                    let pb = out[k - 1].1;
                    if pb + 1 < durs.len() {
                        *node.engine.inner().state.lock().unwrap() = durs[pb].clone();
                        durs.truncate(pb + 1);
                    }
                }
                out.truncate(k);
                cut_applied = true;
            }
        }
        let crashed_flag = {
            let mut c = node.engine.inner().ctl.lock().unwrap();
            std::mem::take(&mut c.crashed)
        };
        let (accepted, class, crashed) = match &outcome {
            Ok(o) => (o.accepted, o.class.to_string(), cut_applied),
            Err(e) if e == "STUCK" => {
                self.stuck += 1;
                (false, "STUCK".to_string(), true)
            }
            Err(e) => (false, format!("ERR:{}", e.lines().next().unwrap_or("").chars().take(60).collect::<String>()), true),
        };
        let _ = crashed_flag;
        let node = self.nodes.get_mut(&pos).unwrap();
        node.replica = Some(replica);
        // proposer watch
        let watch_changed = node.watch.has_changed().unwrap_or(false);
        let watch_val = if watch_changed { node.watch.borrow_and_update().clone() } else { None };
        if watch_changed {
            node.pending_just = watch_val.clone();
        }
        for (m, _) in &out {
            self.emitted.push(m.clone());
        }
        let abs = self.abs();
        let (post, certs_ok) = abs.snapshot(&self.nodes[&pos].replica.as_ref().unwrap().snapshot());
        let outj: Vec<Value> = out.iter().map(|(m, pb)| json!({"m": abs.msg_abs(m), "pb": pb, "sv": abs.self_verifies(m)})).collect();
        let dursj: Vec<Value> = durs.iter().map(|d| abs.durable(d)).collect();
        let ev = json!({"e": "step", "r": pos, "kind": kind_s, "m": mx, "ok": accepted, "class": class, "out": outj,
                        "durs": dursj, "post": post, "certs_ok": certs_ok, "store": self.store_names(pos),
                        "watch": if watch_changed { abs.ojust_derived(&watch_val) } else { Abs::nojust() }, "died": crashed});
        if !crashed {
            self.log.emit(ev);
        } else {
            // The handler did not complete (injected crash at a durable write, or stuck): what left the node and what
            // became durable is still observed, as a `partial` event (monitors only, no conformance).
            let mut ev = ev;
            ev.as_object_mut().unwrap().insert("e".into(), json!("partial"));
            self.log.emit(ev);
        }
        StepResult { accepted, class, out: out.into_iter().map(|x| x.0).collect(), crashed }
    }

    fn register_payloads(&mut self, m: &SMsg) {
        let ConsensusMsg::V2(inner) = &m.msg;
        if let ChonkyMsg::LeaderProposal(p) = inner {
            if let Some(pl) = &p.proposal_payload {
                self.labels.register(pl);
            }
        }
    }

    /// Copies the next missing block of `pos` from any other node (as the gossip fetcher would), through
    /// the real EngineManager::queue_block. Returns false if nobody has it.
    pub async fn force_sync(&mut self, pos: usize) -> bool {
        let have = self.nodes[&pos].engine.store_len();
        let mut blk = None;
        for (p, n) in &self.nodes {
            if *p != pos {
                let b = n.engine.inner().blocks.lock().unwrap();
                if b.len() > have {
                    blk = Some(b[have].clone());
                    break;
                }
            }
        }
        match blk {
            Some(b) => {
                self.sync_block(pos, b).await;
                true
            }
            None => false,
        }
    }

    /// Offers a block to node `pos` through EngineManager::queue_block and logs the `sync` event.
    pub async fn sync_block(&mut self, pos: usize, b: validator::Block) -> bool {
        let validator::Block::FinalV2(fb) = &b else { return false };
        let fb = fb.clone();
        let before = self.nodes[&pos].engine.store_len();
        let mgr = self.nodes[&pos].manager.clone();
        // queue_block waits for predecessors: bound the wait with a cancellable child context.
        let cctx = self.ctx.with_timeout(time::Duration::milliseconds(1));
        let res = {
            let fut = mgr.queue_block(&cctx, b.clone());
            tokio::pin!(fut);
            let mut idle = 0;
            loop {
                tokio::select! {
                    biased;
                    r = &mut fut => break r.map_err(|e| format!("{e:?}")),
                    _ = tokio::task::yield_now() => { idle += 1; if idle > 60 { self.clock.advance(time::Duration::milliseconds(2)); } if idle > 200 { break Err("timeout".into()); } }
                }
            }
        };
        self.settle().await;
        let after = self.nodes[&pos].engine.store_len();
        let abs = self.abs();
        self.log.emit(json!({"e": "sync", "r": pos, "pay": self.labels.name(&fb.payload.hash()), "payhash": self.labels.name(&fb.payload.hash()),
            "qc": abs.cqc_x(&fb.justification), "accepted": res.is_ok(), "store": self.store_names(pos)}));
        after > before
    }

    /// Crash + restart of node `pos`: the Replica object and the EngineManager (its cache) are dropped; a new
    /// incarnation starts from the engine's durable state.
    pub async fn crash(&mut self, pos: usize) {
        let node = self.nodes.remove(&pos).unwrap();
        let engine = node.engine.clone();
        let mut node = node;
        if let Some(s) = node.stop.take() {
            let _ = s.send(());
        }
        let _ = (&mut node.runner).await;
        drop(node); // drops replica, manager handle
        self.settle().await;
        // an armed "crash at the next durable write" belongs to the process that just died
        engine.inner().ctl.lock().unwrap().crash_at = None;
        let node = self.make_node(pos, engine).await;
        self.nodes.insert(pos, node);
        self.settle().await;
        let abs = self.abs();
        let (post, _) = abs.snapshot(&self.nodes[&pos].replica.as_ref().unwrap().snapshot());
        self.log.emit(json!({"e": "crash", "r": pos, "post": post, "store": self.store_names(pos)}));
    }

    /// Proposer step for node `pos` on its pending justification (what run_proposer does), with the given payload name.
    pub async fn propose(&mut self, pos: usize, payload_name: &str) -> Option<SMsg> {
        let j = self.nodes.get_mut(&pos).unwrap().pending_just.take()?;
        let pl = self.labels.payload(payload_name);
        let node = &self.nodes[&pos];
        node.engine.inner().ctl.lock().unwrap().next_payload = Some(pl);
        let is_leader = self.c.leader(j.view().number.0) == pos;
        let mut made = None;
        if is_leader {
            let cctx = self.ctx.with_timeout(time::Duration::milliseconds(VIEW_TIMEOUT_MS));
            let cfg = node.cfg.clone();
            let res = {
                let fut = verif::create_proposal(&cctx, cfg.clone(), j.clone());
                tokio::pin!(fut);
                let mut idle = 0;
                loop {
                    tokio::select! {
                        biased;
                        r = &mut fut => break r.ok(),
                        _ = tokio::task::yield_now() => { idle += 1; if idle > 60 { self.clock.advance(time::Duration::milliseconds(VIEW_TIMEOUT_MS + 1)); } if idle > 200 { break None; } }
                    }
                }
            };
            if let Some(p) = res {
                // signed with the replica's own key, exactly as run_proposer does
                let msg = verif::secret_key(&cfg).sign_msg(ConsensusMsg::V2(ChonkyMsg::LeaderProposal(p)));
                made = Some(msg);
            }
        }
        self.nodes[&pos].engine.inner().ctl.lock().unwrap().next_payload = None;
        let abs = self.abs();
        let mj = made.as_ref().map(|m| abs.msg_abs(m)).unwrap_or(json!({"t": "none", "p": "none"}));
        self.log.emit(json!({"e": "propose", "r": pos, "j": abs.just_derived(&j), "made": made.is_some(), "m": mj}));
        if let Some(m) = &made {
            self.emitted.push(m.clone());
        }
        made
    }

    pub async fn shutdown(&mut self) {
        for n in self.nodes.values_mut() {
            if let Some(s) = n.stop.take() {
                let _ = s.send(());
            }
            let _ = (&mut n.runner).await;
        }
        self.nodes.clear();
    }
}

// ------------------------------------------------------------------------------------------------
// Crafting messages with FAULTY keys (Byzantine repertoire)

pub struct Forge<'a> {
    pub c: &'a Committee,
}

impl Forge<'_> {
    pub fn sign(&self, pos: usize, m: ChonkyMsg) -> SMsg {
        let key = if pos == 0 { &self.c.outsider } else { &self.c.keys[pos - 1] };
        key.sign_msg(ConsensusMsg::V2(m))
    }
    pub fn commit(&self, pos: usize, vote: ReplicaCommit) -> SMsg {
        self.sign(pos, ChonkyMsg::ReplicaCommit(vote))
    }
    pub fn vote(&self, view: u64, num: u64, payload: &validator::Payload) -> ReplicaCommit {
        ReplicaCommit { view: self.c.view(view), proposal: validator::v2::BlockHeader { number: validator::BlockNumber(num), payload: payload.hash() } }
    }
    /// Aggregates commit votes (already signed messages) into a certificate with the real `add`.
    pub fn commit_qc(&self, votes: &[Signed<ReplicaCommit>]) -> Option<CommitQC> {
        let first = votes.first()?;
        let mut qc = CommitQC::new(first.msg.clone(), &self.c.schedule);
        for v in votes {
            let _ = qc.add(v, self.c.genesis.hash(), EPOCH, &self.c.schedule);
        }
        Some(qc)
    }
    pub fn timeout_qc(&self, view: u64, votes: &[Signed<ReplicaTimeout>]) -> TimeoutQC {
        let mut qc = TimeoutQC::new(self.c.view(view));
        for v in votes {
            let _ = qc.add(v, self.c.genesis.hash(), EPOCH, &self.c.schedule);
        }
        qc
    }
}

/// Extracts the typed commit / timeout votes from a pool of signed consensus messages.
pub fn commits_in(pool: &[SMsg]) -> Vec<Signed<ReplicaCommit>> {
    pool.iter().filter_map(|m| m.clone().cast::<ReplicaCommit>().ok()).collect()
}
pub fn timeouts_in(pool: &[SMsg]) -> Vec<Signed<ReplicaTimeout>> {
    pool.iter().filter_map(|m| m.clone().cast::<ReplicaTimeout>().ok()).collect()
}

/// Key of a forged certificate: the aggregate bytes TOGETHER WITH the claimed signer set (the same aggregate under the set that
/// really signed is a valid certificate and must not be called forged).
pub fn agg_key(signers: &validator::v2::Signers, sig: &[u8]) -> Vec<u8> {
    let mut k: Vec<u8> = (0..signers.len()).map(|i| signers.0[i] as u8).collect();
    k.extend_from_slice(sig);
    k
}

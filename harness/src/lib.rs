//! vcore: shared helpers for the verification harness.

//! vcore: shared helpers for the verification harness (DESIGN §3).
//! Case files are ND-JSON (one case per line, produced by TLC or by the python driver); every binary
//! writes one JSON report: evaluations, distinct, failures (keyed), samples, notes.
use std::{
    io::{BufRead, Write},
    panic::{catch_unwind, AssertUnwindSafe},
};

use rand::{rngs::StdRng, Rng, SeedableRng};
use serde::Serialize;
use serde_json::Value;
use zksync_consensus_roles::validator;

pub mod bft;
pub mod log;
pub mod pipe;

/// One failure = one potential VIOLATION (or KNOWN-FINDING if `key` is listed in known_findings.txt).
#[derive(Serialize, Clone, Debug)]
pub struct Failure {
    /// stable key identifying the failing site/input class (matched against known_findings.txt)
    pub key: String,
    /// human-readable description
    pub what: String,
    /// the case (self-contained replay input)
    pub case: Value,
}

#[derive(Serialize, Default, Debug)]
pub struct Report {
    pub evaluations: u64,
    pub distinct: u64,
    pub failures: Vec<Failure>,
    pub samples: Vec<Value>,
    pub notes: Vec<String>,
    pub counters: std::collections::BTreeMap<String, u64>,
}

impl Report {
    pub fn fail(&mut self, key: impl Into<String>, what: impl Into<String>, case: Value) {
        // keep at most 50 failures per key (a broken tree may fail thousands of cases)
        let key = key.into();
        let n = self.failures.iter().filter(|f| f.key == key).count();
        *self.counters.entry(format!("fail:{key}")).or_default() += 1;
        if n < 50 {
            self.failures.push(Failure { key, what: what.into(), case });
        }
    }
    pub fn sample(&mut self, v: Value) {
        if self.samples.len() < 5 {
            self.samples.push(v);
        }
    }
    pub fn count(&mut self, k: &str) {
        *self.counters.entry(k.to_string()).or_default() += 1;
    }
    pub fn add(&mut self, k: &str, n: u64) {
        *self.counters.entry(k.to_string()).or_default() += n;
    }
    pub fn write(&self, path: &str) {
        let mut f = std::fs::File::create(path).expect("create report");
        serde_json::to_writer_pretty(&mut f, self).unwrap();
        f.write_all(b"\n").unwrap();
    }
}

/// Reads an ND-JSON file.
pub fn read_cases(path: &str) -> Vec<Value> {
    let f = std::fs::File::open(path).unwrap_or_else(|e| panic!("open {path}: {e}"));
    std::io::BufReader::new(f)
        .lines()
        .map(|l| l.unwrap())
        .filter(|l| !l.trim().is_empty())
        .map(|l| serde_json::from_str(&l).unwrap_or_else(|e| panic!("bad json line {l}: {e}")))
        .collect()
}

/// Silence the default panic message (panics of the code under test are data, DESIGN §2).
pub fn quiet_panics() {
    if std::env::var("VERIF_SHOW_PANICS").is_ok() {
        return;
    }
    std::panic::set_hook(Box::new(|_| {}));
}

/// Runs `f`, converting a panic into Err(message).
pub fn catch<T>(f: impl FnOnce() -> T) -> Result<T, String> {
    catch_unwind(AssertUnwindSafe(f)).map_err(|e| {
        if let Some(s) = e.downcast_ref::<&str>() {
            s.to_string()
        } else if let Some(s) = e.downcast_ref::<String>() {
            s.clone()
        } else {
            "panic (non-string payload)".to_string()
        }
    })
}

pub fn rng(seed: u64) -> StdRng {
    StdRng::seed_from_u64(seed)
}

/// `n` deterministic validator secret keys, sorted by public key, so that position i in the returned
/// vector is index i of any `Schedule` built from (a superset-free) list of these keys.
pub fn validator_keys(n: usize, seed: u64) -> Vec<validator::SecretKey> {
    let mut r = rng(seed ^ 0x5eed_0000_0000);
    let mut ks: Vec<validator::SecretKey> = (0..n).map(|_| r.gen()).collect();
    ks.sort_by_key(|k| k.public());
    ks
}

pub fn u64_of(v: &Value) -> u64 {
    match v {
        Value::Number(n) => n.as_u64().unwrap_or_else(|| panic!("not u64: {v}")),
        Value::String(s) if s == "MAX" => u64::MAX,
        Value::String(s) => s.parse().unwrap_or_else(|_| panic!("not u64: {v}")),
        _ => panic!("not u64: {v}"),
    }
}

pub fn args() -> Vec<String> {
    std::env::args().skip(1).collect()
}

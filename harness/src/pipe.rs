//! Scripted in-memory transport: a duplex byte channel whose two directions pass through a harness-controlled
//! "wire" (so that ciphertext can be inspected, held back, tampered with and re-fragmented), with seeded
//! fragmentation of reads and writes and spurious `Pending`s.
use std::{
    collections::VecDeque,
    pin::Pin,
    sync::{Arc, Mutex},
    task::{Context, Poll, Waker},
};

use tokio::io::{AsyncRead, AsyncWrite, ReadBuf};

#[derive(Default)]
pub struct Dir {
    /// bytes written by the sender, not yet released to the receiver (only used when `auto` is false)
    pub staging: Vec<u8>,
    /// bytes the receiver can read
    pub inbox: VecDeque<u8>,
    pub closed: bool,
    pub reader: Option<Waker>,
    /// pass bytes straight through
    pub auto: bool,
    /// total bytes the receiver has pulled from the inbox
    pub pulled: u64,
    /// total bytes written by the sender
    pub written: u64,
}

#[derive(Clone)]
pub struct Knobs {
    pub max_read: usize,
    pub max_write: usize,
    /// 1-in-n chance of a spurious Pending (0 = never)
    pub pending_1_in: u32,
    pub lcg: u64,
}

impl Knobs {
    pub fn plain() -> Self {
        Self { max_read: usize::MAX, max_write: usize::MAX, pending_1_in: 0, lcg: 1 }
    }
    fn next(&mut self) -> u64 {
        self.lcg = self.lcg.wrapping_mul(6364136223846793005).wrapping_add(1442695040888963407);
        self.lcg >> 33
    }
    fn chunk(&mut self, max: usize, want: usize) -> usize {
        if max == usize::MAX {
            return want;
        }
        let m = 1 + (self.next() as usize % max);
        m.min(want)
    }
    fn pend(&mut self) -> bool {
        self.pending_1_in != 0 && self.next() % self.pending_1_in as u64 == 0
    }
}

pub struct End {
    pub rx: Arc<Mutex<Dir>>,
    pub tx: Arc<Mutex<Dir>>,
    pub knobs: Arc<Mutex<Knobs>>,
}

/// Returns (end A, end B, dir A->B, dir B->A).
pub fn pair() -> (End, End, Arc<Mutex<Dir>>, Arc<Mutex<Dir>>) {
    let ab = Arc::new(Mutex::new(Dir { auto: true, ..Default::default() }));
    let ba = Arc::new(Mutex::new(Dir { auto: true, ..Default::default() }));
    let ka = Arc::new(Mutex::new(Knobs::plain()));
    let kb = Arc::new(Mutex::new(Knobs::plain()));
    (End { rx: ba.clone(), tx: ab.clone(), knobs: ka }, End { rx: ab.clone(), tx: ba.clone(), knobs: kb }, ab, ba)
}

/// Releases bytes to the receiver of a direction.
pub fn release(d: &Arc<Mutex<Dir>>, bytes: &[u8]) {
    let mut g = d.lock().unwrap();
    g.inbox.extend(bytes.iter().copied());
    if let Some(w) = g.reader.take() {
        w.wake();
    }
}
pub fn close(d: &Arc<Mutex<Dir>>) {
    let mut g = d.lock().unwrap();
    g.closed = true;
    if let Some(w) = g.reader.take() {
        w.wake();
    }
}

impl AsyncRead for End {
    fn poll_read(self: Pin<&mut Self>, cx: &mut Context<'_>, buf: &mut ReadBuf<'_>) -> Poll<std::io::Result<()>> {
        let mut k = self.knobs.lock().unwrap();
        if k.pend() {
            cx.waker().wake_by_ref();
            return Poll::Pending;
        }
        let mut g = self.rx.lock().unwrap();
        if g.inbox.is_empty() {
            if g.closed {
                return Poll::Ready(Ok(()));
            }
            g.reader = Some(cx.waker().clone());
            return Poll::Pending;
        }
        let mr = k.max_read;
        let n = k.chunk(mr, buf.remaining().min(g.inbox.len()));
        for _ in 0..n {
            let b = g.inbox.pop_front().unwrap();
            buf.put_slice(&[b]);
        }
        g.pulled += n as u64;
        Poll::Ready(Ok(()))
    }
}

impl AsyncWrite for End {
    fn poll_write(self: Pin<&mut Self>, cx: &mut Context<'_>, data: &[u8]) -> Poll<std::io::Result<usize>> {
        let mut k = self.knobs.lock().unwrap();
        if k.pend() {
            cx.waker().wake_by_ref();
            return Poll::Pending;
        }
        if data.is_empty() {
            return Poll::Ready(Ok(0));
        }
        let mw = k.max_write;
        let n = k.chunk(mw, data.len());
        let mut g = self.tx.lock().unwrap();
        if g.closed || g.staging.len() + g.inbox.len() > (48 << 20) {
            // closed, or a runaway writer (more than 48 MB held by the harness): fail instead of exhausting memory
            return Poll::Ready(Err(std::io::ErrorKind::BrokenPipe.into()));
        }
        g.written += n as u64;
        if g.auto {
            g.inbox.extend(data[..n].iter().copied());
            if let Some(w) = g.reader.take() {
                w.wake();
            }
        } else {
            g.staging.extend_from_slice(&data[..n]);
        }
        Poll::Ready(Ok(n))
    }
    fn poll_flush(self: Pin<&mut Self>, _cx: &mut Context<'_>) -> Poll<std::io::Result<()>> {
        Poll::Ready(Ok(()))
    }
    fn poll_shutdown(self: Pin<&mut Self>, _cx: &mut Context<'_>) -> Poll<std::io::Result<()>> {
        let mut g = self.tx.lock().unwrap();
        if g.auto {
            g.closed = true;
            if let Some(w) = g.reader.take() {
                w.wake();
            }
        } else {
            g.staging.extend_from_slice(b""); // closing is decided by the harness in manual mode
        }
        Poll::Ready(Ok(()))
    }
}

//! C10 at node level (T2): every path of Listener.tla (stage of the connection establishment x malformed class x endpoint) is played against the
//! listener of a REAL running node over loopback TCP: the stages before the malformed input are performed honestly (preface, noise, endpoint,
//! identity handshake, mux handshake), then the malformed bytes are written (in the clear before the noise session exists, inside it afterwards).
//! Whatever the node does with that connection, it must stay up: after every case an honest configured peer dials and must be admitted, the
//! inbound pools must drain, and no task of the node may panic (the harness builds with panic=unwind; in production the profile is panic=abort).
//!   node_fuzz <cases.ndjson> <report.json> <seed> <reps>
use std::{
    collections::BTreeSet,
    sync::{Arc, Mutex},
};

use rand::{Rng, SeedableRng};
use serde_json::json;
use tokio::io::{AsyncReadExt, AsyncWriteExt};
use vcore::*;
use zksync_concurrency::{ctx, scope, time};
use zksync_consensus_engine::testonly::TestEngine;
use zksync_consensus_network::{consensus::verif as cv, gossip::verif as gv, testonly};
use zksync_consensus_roles::validator;

fn frame(payload: &[u8]) -> Vec<u8> {
    let mut v = (payload.len() as u32).to_le_bytes().to_vec();
    v.extend_from_slice(payload);
    v
}

/// Bytes of one malformed input of class `kind`; `other` is a well-formed frame that belongs to a different stage.
fn malformed(kind: &str, rng: &mut rand::rngs::StdRng, other: &[u8]) -> Vec<u8> {
    match kind {
        "garbage" => {
            let n = rng.gen_range(1..300);
            (0..n).map(|_| rng.gen()).collect()
        }
        "oversize" => {
            let mut v = (if rng.gen_bool(0.5) { u32::MAX } else { i32::MAX as u32 }).to_le_bytes().to_vec();
            v.extend((0..8).map(|_| rng.gen::<u8>()));
            v
        }
        "truncated" => {
            let mut v = 100u32.to_le_bytes().to_vec();
            v.extend((0..rng.gen_range(0..20)).map(|_| rng.gen::<u8>()));
            v
        }
        "empty" => 0u32.to_le_bytes().to_vec(),
        "wrongkind" => other.to_vec(),
        _ => vec![],
    }
}

fn main() {
    quiet_panics();
    let a = args();
    let cases = read_cases(&a[0]);
    let seed: u64 = a[2].parse().unwrap();
    let reps: u64 = a[3].parse().unwrap();
    let rep = Arc::new(Mutex::new(Report::default()));
    let marker = format!("{}.current", a[1]);
    let rt = tokio::runtime::Builder::new_multi_thread().worker_threads(4).enable_all().build().unwrap();
    let rep2 = rep.clone();
    let r = catch(move || {
        rt.block_on(async move {
            let rep = rep2;
            let root = ctx::test_root(&ctx::RealClock);
            let ctx = &root.with_timeout(time::Duration::seconds(800));
            let mut rng = rand::rngs::StdRng::seed_from_u64(seed);
            let setup = validator::testonly::Setup::new(&mut rng, 3);
            let mut cfg = testonly::new_configs(&mut rng, &setup, 0).remove(0);
            let honest = gv::test_config(rng.gen());
            cfg.gossip.dynamic_inbound_limit = 1000;
            cfg.gossip.static_inbound = [honest.gossip.key.public()].into_iter().collect();
            // what a client sends first: captured from a real dial against a local listener
            let enc_frame: Vec<u8> = {
                let l = tokio::net::TcpListener::bind("127.0.0.1:0").await.unwrap();
                let addr = l.local_addr().unwrap();
                let c2 = root.with_timeout(time::Duration::seconds(3));
                let h = tokio::spawn(async move {
                    let (mut s, _) = l.accept().await.unwrap();
                    let mut b = vec![0u8; 4];
                    s.read_exact(&mut b).await.unwrap();
                    let n = u32::from_le_bytes(b.clone().try_into().unwrap()) as usize;
                    let mut body = vec![0u8; n];
                    s.read_exact(&mut body).await.unwrap();
                    b.extend(body);
                    b
                });
                let _ = gv::dial_noise(&c2, addr).await;
                h.await.unwrap()
            };
            let down = Arc::new(Mutex::new(None::<String>));
            let res: anyhow::Result<()> = scope::run!(ctx, |ctx, s| async {
                let engine = TestEngine::new(ctx, &setup).await;
                s.spawn_bg(engine.runner.run(ctx));
                let (node, runner) = testonly::Instance::new(cfg.clone(), engine.manager.clone());
                let down2 = &down;
                s.spawn_bg(async {
                    let r = runner.run(ctx).await;
                    *down2.lock().unwrap() = Some(format!("{r:?}").lines().next().unwrap_or("").chars().take(200).collect());
                    Ok(())
                });
                let addr = *cfg.server_addr;
                let genesis = setup.genesis_hash();
                let node_gossip_key = cfg.gossip.key.public();
                let node_validator_key = setup.validator_keys[0].public();
                let net = node.net.clone();
                // a validator keeps a loopback connection to itself on the validator network: not counted
                let nvk = node_validator_key.clone();
                let pools_empty = || gv::inbound_keys(&net).is_empty() && cv::inbound_keys(&net).iter().all(|k| *k == nvk);
                // wait until the node listens
                let mut up = false;
                for _ in 0..500 {
                    if let Ok(d) = gv::dial(ctx, addr, &honest, genesis, &node_gossip_key).await {
                        drop(d);
                        up = true;
                        break;
                    }
                    ctx.sleep(time::Duration::milliseconds(10)).await?;
                }
                if !up {
                    rep.lock().unwrap().fail("node_not_up", "the node never accepted a connection (harness problem)", json!({}));
                    return Ok(());
                }
                let other_frame = frame(&[0x2a, 5, 0x08, 0, 0x10, 0x01, 0x2a]); // a (cut) mux handshake: well-formed length prefix, wrong message
                let mut stage_reached: BTreeSet<String> = BTreeSet::new();
                'cases: for case in &cases {
                    let path: Vec<String> = case["path"].as_array().unwrap().iter().map(|x| x.as_str().unwrap().to_string()).collect();
                    let kind = path.last().unwrap().clone();
                    let stage = path.len();
                    let consensus = case["endpoint"] == "consensus";
                    for k in 0..reps {
                        let tag = json!({"case": case, "rep": k, "seed": seed});
                        // marker for the wrapper: if the process dies (abort / allocation failure), this was the input being handled
                        let _ = std::fs::write(&marker, tag.to_string());
                        let bytes = malformed(&kind, &mut rng, if stage == 1 { &other_frame } else { &enc_frame });
                        let c2 = &ctx.with_timeout(time::Duration::seconds(20));
                        // malformed REQUEST BODIES: the harness runs a multiplexer over an authenticated connection, accepts the streams the
                        // node's RPC server opens for that capability and answers each with a malformed body
                        if case["stage"] == "rpcbody" {
                            use zksync_consensus_network::verif::{Mux, MuxConfig, StreamQueue};
                            let (srv, body) = kind.split_once(':').unwrap();
                            let cap: u64 = match srv { "push_validator_addrs" => 1, "ping" => 2, "push_block_store_state" => 3, "get_block" => 4, _ => 10 };
                            let fresh_gossip = gv::test_config(rng.gen());
                            let Ok(d) = gv::dial(c2, addr, &fresh_gossip, genesis, &node_gossip_key).await else {
                                rep.lock().unwrap().count("honest_prefix_failed");
                                continue;
                            };
                            stage_reached.insert("rpcbody".into());
                            let bytes: Vec<u8> = match body {
                                "body_oversize" => u32::MAX.to_le_bytes().to_vec(),
                                "body_truncated" => { let mut v = 200u32.to_le_bytes().to_vec(); v.extend([1u8, 2, 3]); v }
                                "body_empty" => vec![],
                                "body_wrong_message" => frame(&[0x2a, 5, 0x08, 0, 0x10, 0x01, 0x2a, 0]),
                                // well-formed request with extreme content: field 1 = 2^64-1 as a varint (a block number for get_block), then nothing
                                "body_extreme" => frame(&[0x08, 0xff, 0xff, 0xff, 0xff, 0xff, 0xff, 0xff, 0xff, 0xff, 0x01]),
                                _ => { let n = rng.gen_range(1..200); let junk: Vec<u8> = (0..n).map(|_| rng.gen()).collect(); frame(&junk) }
                            };
                            let sctx = ctx.with_timeout(time::Duration::milliseconds(250));
                            let q = StreamQueue::new(&sctx, 5, zksync_concurrency::limiter::Rate::INF);
                            let mux = Mux { cfg: MuxConfig { read_frame_size: 16 << 10, read_buffer_size: 160 << 10, read_frame_count: 100, write_frame_size: 16 << 10 }, accept: [(cap, q.clone())].into_iter().collect(), connect: Default::default() };
                            let sent = Arc::new(Mutex::new(0u64));
                            let sent2 = sent.clone();
                            let _: Result<(), ctx::Error> = scope::run!(&sctx, |ctx, s3| async move {
                                s3.spawn_bg(async move {
                                    let _ = d.run_mux(ctx, mux).await;
                                    Ok(())
                                });
                                // answer every stream the node's server opens with the malformed body
                                for _ in 0..3 {
                                    let Ok(mut st) = q.open(ctx).await else { break };
                                    let _ = st.write_all(ctx, &bytes).await;
                                    let _ = st.flush(ctx).await;
                                    st.close_write();
                                    let _ = st.read(ctx, 64).await;
                                    *sent2.lock().unwrap() += 1;
                                }
                                Ok(())
                            })
                            .await;
                            rep.lock().unwrap().add("rpc_bodies_sent", *sent.lock().unwrap());
                        } else
                        // RPC-level inputs: a scripted gossip peer with an extreme announcement (the fetcher of the node consults it)
                        if case["stage"] == "rpc" {
                            use zksync_consensus_engine::{BlockStoreState, Last};
                            let fresh_gossip = gv::test_config(rng.gen());
                            let Ok(d) = gv::dial(c2, addr, &fresh_gossip, genesis, &node_gossip_key).await else {
                                rep.lock().unwrap().count("honest_prefix_failed");
                                continue;
                            };
                            stage_reached.insert("rpc".into());
                            let first = setup.first_block();
                            let big = validator::BlockNumber(u64::MAX);
                            let qc_max = {
                                // a certificate-shaped `last` whose header claims the maximal block number (the announcement is not verified)
                                let mut q: validator::v2::CommitQC = rng.gen();
                                q.message.proposal.number = big;
                                q
                            };
                            let state = match kind.as_str() {
                                "announce_last_max_pregenesis" => BlockStoreState { first, last: Some(Last::PreGenesis(big)) },
                                "announce_last_max_certified" => BlockStoreState { first, last: Some(Last::FinalV2(qc_max)) },
                                "announce_first_max" => BlockStoreState { first: big, last: Some(Last::PreGenesis(big)) },
                                "announce_inverted" => BlockStoreState { first: validator::BlockNumber(first.0 + 10), last: Some(Last::PreGenesis(first)) },
                                "announce_far_future" => BlockStoreState { first: validator::BlockNumber(first.0 + (1 << 40)), last: Some(Last::PreGenesis(validator::BlockNumber(first.0 + (1 << 41)))) },
                                _ => BlockStoreState { first, last: Some(Last::PreGenesis(validator::BlockNumber(first.0 + 3))) },
                            };
                            let sctx = ctx.with_timeout(time::Duration::milliseconds(150));
                            let none: Arc<dyn Fn(u64) -> Option<validator::Block> + Send + Sync> = Arc::new(|_| None);
                            let _ = gv::serve_blocks(&sctx, d, state, none, Arc::new(Mutex::new(vec![]))).await;
                        } else {
                        match stage {
                            1 | 2 => {
                                if let Ok(mut s) = tokio::net::TcpStream::connect(addr).await {
                                    if stage == 2 {
                                        let _ = s.write_all(&enc_frame).await;
                                    }
                                    if kind != "hangup" {
                                        let _ = s.write_all(&bytes).await;
                                        let _ = s.flush().await;
                                        // give the node the chance to react, then hang up
                                        let mut b = [0u8; 64];
                                        let _ = tokio::time::timeout(std::time::Duration::from_millis(30), s.read(&mut b)).await;
                                    }
                                    drop(s);
                                    stage_reached.insert(format!("{stage}"));
                                }
                            }
                            _ => {
                                let fresh_gossip = gv::test_config(rng.gen());
                                let d = match stage {
                                    3 => gv::dial_noise(c2, addr).await,
                                    4 => gv::dial_preface(c2, addr, consensus).await,
                                    _ => {
                                        if consensus {
                                            cv::dial(c2, addr, &setup.validator_keys[1 + (k as usize % 2)], genesis, &node_validator_key).await
                                        } else {
                                            gv::dial(c2, addr, &fresh_gossip, genesis, &node_gossip_key).await
                                        }
                                    }
                                };
                                let Ok(mut d) = d else {
                                    rep.lock().unwrap().count("honest_prefix_failed");
                                    continue;
                                };
                                stage_reached.insert(format!("{stage}"));
                                if stage == 6 {
                                    // a valid (empty) multiplexer handshake, then frames
                                    let _ = d.send_raw(c2, &frame(&[])).await;
                                }
                                if kind != "hangup" {
                                    let payload: Vec<u8> = if stage == 6 {
                                        match kind.as_str() {
                                            "oversize" => vec![0x00, 0x40, 0xff, 0xff, 1, 2, 3],       // DATA header, length 65535, 3 bytes
                                            "truncated" => vec![0x00, 0x40, 100, 0, 9, 9, 9],            // DATA header, length 100, 3 bytes
                                            "wrongkind" => vec![0x00, 0xc0],                              // both kind bits set
                                            "empty" => vec![],
                                            _ => bytes.clone(),
                                        }
                                    } else {
                                        bytes.clone()
                                    };
                                    let _ = d.send_raw(c2, &payload).await;
                                    let _ = d.admitted(&ctx.with_timeout(time::Duration::milliseconds(30))).await;
                                }
                                drop(d);
                            }
                        }
                        }
                        rep.lock().unwrap().evaluations += 1;
                        // ---- the node must still be up: an honest configured peer is admitted
                        if let Some(e) = down.lock().unwrap().clone() {
                            rep.lock().unwrap().fail("node_down", format!("the node's runner ended after the malformed input: {e}"), tag);
                            break 'cases;
                        }
                        let mut ok = false;
                        for attempt in 0..200 {
                            match gv::dial(c2, addr, &honest, genesis, &node_gossip_key).await {
                                Ok(mut p) => {
                                    match p.admitted(&ctx.with_timeout(time::Duration::seconds(20))).await {
                                        Ok(true) => {
                                            ok = true;
                                            break;
                                        }
                                        Ok(false) => {
                                            // our previous probe connection may still be registered: retry shortly
                                            let _ = attempt;
                                            ctx.sleep(time::Duration::milliseconds(5)).await?;
                                        }
                                        Err(_) => break,
                                    }
                                }
                                Err(_) => ctx.sleep(time::Duration::milliseconds(5)).await?,
                            }
                        }
                        if !ok {
                            rep.lock().unwrap().fail("node_unresponsive", "after the malformed input the node no longer admits an honest configured peer", tag);
                            break 'cases;
                        }
                        // ---- no registration may leak
                        let mut drained = false;
                        for _ in 0..20000 {
                            if pools_empty() {
                                drained = true;
                                break;
                            }
                            ctx.sleep(time::Duration::milliseconds(1)).await?;
                        }
                        if !drained {
                            rep.lock().unwrap().fail("node_pool_leak", format!("inbound pools do not drain after every peer hung up: gossip {}, validators {}", gv::inbound_keys(&net).len(), cv::inbound_keys(&net).len()), tag);
                            break 'cases;
                        }
                    }
                    let mut g = rep.lock().unwrap();
                    g.distinct += 1;
                    if g.distinct % 25 == 1 {
                        g.sample(case.clone());
                    }
                }
                rep.lock().unwrap().add("stages_reached", stage_reached.len() as u64);
                Ok(())
            })
            .await;
            if let Err(e) = res {
                let msg: String = format!("{e:?}").lines().next().unwrap_or("").chars().take(200).collect();
                rep.lock().unwrap().notes.push(format!("scope ended with {msg}"));
            }
        })
    });
    let mut rep = std::mem::take(&mut *rep.lock().unwrap());
    if let Err(p) = r {
        rep.fail("node_panic", format!("a task of the node panicked: {}", p.lines().next().unwrap_or("")), json!({"seed": seed}));
    }
    rep.write(&a[1]);
}

//! C02a (T3): every timeout certificate enumerated by Justification.tla is built as a real `TimeoutQC`
//! (real keys, real signatures, real Signers bitmaps, real schedule with the committee's weights) and the real
//! `TimeoutQC::high_vote`, `TimeoutQC::high_qc`, `ProposalJustification::get_implied_block` are compared with the
//! specification's values.
//!   implied_replay <cases.ndjson> <report.json> <weights comma-separated>
use std::collections::{BTreeMap, HashMap};

use serde_json::{json, Value};
use vcore::{bft::*, *};
use zksync_consensus_roles::validator::{
    self,
    v2::{ChonkyMsg, CommitQC, ProposalJustification, ReplicaCommit, ReplicaTimeout, Signers, TimeoutQC},
};

fn main() {
    quiet_panics();
    let a = args();
    let c = Committee::from_spec(&a[2], 5);
    let f = Forge { c: &c };
    let mut labels = Labels::default();
    let mut rep = Report::default();
    let mut pay: HashMap<String, validator::Payload> = HashMap::new();
    for n in ["a", "b", "c"] {
        pay.insert(n.to_string(), labels.payload(n));
    }
    let mk_vote = |v: &Value| -> Option<ReplicaCommit> {
        let view = v["view"].as_i64().unwrap();
        if view < 0 {
            return None;
        }
        Some(f.vote(view as u64, v["num"].as_u64().unwrap(), &pay[v["pay"].as_str().unwrap()]))
    };
    // a genuine commit certificate per distinct vote (all validators sign)
    let mut qcs: HashMap<String, CommitQC> = HashMap::new();
    let mut sig_cache: HashMap<String, validator::Signed<ReplicaTimeout>> = HashMap::new();
    for case in read_cases(&a[0]) {
        rep.evaluations += 1;
        rep.distinct += 1;
        let reports = case["reports"].as_array().unwrap();
        let mut view = 0u64;
        let mut map: BTreeMap<ReplicaTimeout, Signers> = BTreeMap::new();
        let mut sigs = vec![];
        for r in reports {
            let s = r["s"].as_u64().unwrap() as usize;
            view = r["view"].as_u64().unwrap();
            let key = format!("{}|{}|{}", s, r["hv"], r["hq"]);
            let signed = sig_cache.entry(key).or_insert_with(|| {
                let hq = mk_vote(&r["hq"]).map(|v| {
                    qcs.entry(r["hq"].to_string())
                        .or_insert_with(|| {
                            let votes: Vec<_> = (1..=c.n()).map(|p| f.commit(p, v.clone()).cast().unwrap()).collect();
                            f.commit_qc(&votes).unwrap()
                        })
                        .clone()
                });
                let t = ReplicaTimeout { view: c.view(view), high_vote: mk_vote(&r["hv"]), high_qc: hq };
                f.sign(s, ChonkyMsg::ReplicaTimeout(t)).cast().unwrap()
            });
            map.entry(signed.msg.clone()).or_insert_with(|| Signers::new(c.n())).0.set(s - 1, true);
            sigs.push(signed.sig.clone());
        }
        let tqc = TimeoutQC { view: c.view(view), map, signature: validator::AggregateSignature::aggregate(sigs.iter()) };
        let abs = Abs { c: &c, l: &labels };
        let got = catch(|| {
            let d = abs.tq_derived(&tqc);
            let (num, h) = ProposalJustification::Timeout(tqc.clone()).get_implied_block(&c.schedule, validator::BlockNumber(0));
            (d, json!({"num": num.0, "pay": h.map(|h| labels.name(&h)).unwrap_or("none".into())}))
        });
        match got {
            Err(p) => rep.fail("implied_panic", format!("panic: {p}"), case.clone()),
            Ok((d, imp)) => {
                if d["hvh"] != case["hvh"] {
                    rep.fail("high_vote_mismatch", format!("high_vote: code {} spec {}", d["hvh"], case["hvh"]), case.clone());
                } else if d["hq"] != case["hq"] {
                    rep.fail("high_qc_mismatch", format!("high_qc: code {} spec {}", d["hq"], case["hq"]), case.clone());
                } else if imp != case["implied"] {
                    rep.fail("implied_block_mismatch", format!("get_implied_block: code {} spec {}", imp, case["implied"]), case.clone());
                }
            }
        }
        if rep.evaluations % 9973 == 1 {
            rep.sample(json!({"reports": case["reports"], "spec": {"hvh": case["hvh"], "hq": case["hq"], "implied": case["implied"]}}));
        }
        // the certificate the table is about must itself be accepted by the real verify() on a sample (sanity of the construction)
        if rep.evaluations % 2003 == 1 {
            if let Err(e) = tqc.verify(c.genesis.hash(), EPOCH, &c.schedule) {
                rep.fail("table_cert_invalid", format!("constructed certificate does not verify: {e:#}"), case.clone());
            }
            rep.count("verified_samples");
        }
    }
    rep.write(&a[1]);
}

//! C16a (T2): operation sequences enumerated by PrunableQueue.tla replayed on the channel returned by the public
//! `zksync_consensus_bft::create_input_channel()` with really signed messages; every recv result is compared.
//!   queue_replay <cases.ndjson> <report.json>
use serde_json::{json, Value};
use vcore::{bft::*, *};
use zksync_concurrency::{ctx, oneshot, time};
use zksync_consensus_bft::{create_input_channel, FromNetworkMessage};
use zksync_consensus_roles::validator::v2::{ChonkyMsg, ReplicaTimeout};

fn main() {
    quiet_panics();
    let a = args();
    let c = Committee::new(&[1, 1, 1, 1], 21);
    let f = Forge { c: &c };
    let mut labels = Labels::default();
    let p = labels.payload("p");
    let mut rep = Report::default();
    let rt = tokio::runtime::Builder::new_current_thread().enable_all().build().unwrap();
    let clock = ctx::ManualClock::new();
    let root = ctx::test_root(&clock);
    let cache: std::cell::RefCell<std::collections::HashMap<String, SMsg>> = Default::default();
    let mk = |m: &Value| -> SMsg {
        if let Some(x) = cache.borrow().get(&m.to_string()) {
            return x.clone();
        }
        let s = m["s"].as_u64().unwrap() as usize;
        let v = m["v"].as_u64().unwrap();
        let mut msg = if m["k"] == "commit" {
            f.commit(s, f.vote(v, 0, &p))
        } else {
            f.sign(s, ChonkyMsg::ReplicaTimeout(ReplicaTimeout { view: c.view(v), high_vote: None, high_qc: None }))
        };
        if !m["ok"].as_bool().unwrap() {
            // signature of another message
            msg.sig = f.commit(s, f.vote(v + 7, 3, &p)).sig;
        }
        cache.borrow_mut().insert(m.to_string(), msg.clone());
        msg
    };
    let ident = |m: &SMsg| -> Value {
        let abs = Abs { c: &c, l: &labels };
        let x = abs.msg_abs(m);
        json!({"s": x["from"], "k": x["t"], "v": if x["t"] == "commit" { x["vote"]["view"].clone() } else { x["view"].clone() }})
    };
    for case in read_cases(&a[0]) {
        rep.evaluations += 1;
        rep.distinct += 1;
        let ops = case["ops"].as_array().unwrap();
        let res = catch(|| {
            rt.block_on(async {
                let (tx, mut rx) = create_input_channel();
                let mut outs = vec![];
                for op in ops {
                    if op["op"] == "send" {
                        let (ack, _r) = oneshot::channel();
                        tx.send(FromNetworkMessage { msg: mk(&op["m"]), ack });
                    } else {
                        let cctx = root.with_timeout(time::Duration::milliseconds(0));
                        let fut = rx.recv(&cctx);
                        tokio::pin!(fut);
                        let mut got = None;
                        for _ in 0..5 {
                            tokio::select! { biased; r = &mut fut => { got = r.ok(); break; }, _ = tokio::task::yield_now() => {} }
                        }
                        outs.push(match got {
                            Some(req) => ident(&req.msg),
                            None => json!("empty"),
                        });
                    }
                }
                outs
            })
        });
        let want: Vec<Value> = ops
            .iter()
            .filter(|o| o["op"] == "recv")
            .map(|o| if o["res"] == "empty" { json!("empty") } else { json!({"s": o["m"]["s"], "k": o["m"]["k"], "v": o["m"]["v"]}) })
            .collect();
        match res {
            Err(pm) => rep.fail("queue_panic", format!("panic: {pm}"), json!({"mode": "queue", "case": case})),
            Ok(outs) => {
                if outs != want {
                    rep.fail("queue_output_mismatch", format!("recv results {} differ from the specification {}", json!(outs), json!(want)), json!({"mode": "queue", "case": case}));
                }
            }
        }
        if rep.evaluations % 7919 == 1 {
            rep.sample(json!({"ops": case["ops"], "expected_recv": want}));
        }
    }
    rep.write(&a[1]);
}

//! C16a (T2): operation sequences enumerated by PrunableQueue.tla replayed on the channel returned by the public
//! `zksync_consensus_bft::create_input_channel()` with really signed messages; every recv result is compared.
//!   queue_replay <cases.ndjson> <report.json>
use serde_json::{json, Value};
use vcore::{bft::*, *};
use zksync_concurrency::{ctx, oneshot, time};
use zksync_consensus_bft::{create_input_channel, FromNetworkMessage};
use zksync_consensus_roles::validator::{v2::{ChonkyMsg, ReplicaTimeout}, ConsensusMsg};

fn main() {
    quiet_panics();
    let a = args();
    let c = Committee::new(&[1, 1, 1, 1], 21);
    let f = Forge { c: &c };
    let mut labels = Labels::default();
    let p = labels.payload("p");
    let p2 = labels.payload("q");
    // content variants (PrunableQueue.tla, field c): 1 = the sender names another genesis hash, 2 = another block
    let other_genesis = Committee::new(&[1, 1, 1, 1], 22).genesis.hash();
    let mut rep = Report::default();
    let rt = tokio::runtime::Builder::new_current_thread().enable_all().build().unwrap();
    let clock = ctx::ManualClock::new();
    let root = ctx::test_root(&clock);
    let cache: std::cell::RefCell<std::collections::HashMap<String, SMsg>> = Default::default();
    let mk = |m: &Value| -> SMsg {
        if let Some(x) = cache.borrow().get(&m.to_string()) {
            return x.clone();
        }
        let s = m["s"].as_u64().unwrap() as usize;
        let v = m["v"].as_u64().unwrap();
        let cv = m["c"].as_u64().unwrap_or(0);
        let mut view = c.view(v);
        if cv == 1 {
            view.genesis = other_genesis;
        }
        let mut msg = if m["k"] == "commit" {
            let mut vote = f.vote(v, 0, if cv == 2 { &p2 } else { &p });
            vote.view = view;
            f.commit(s, vote)
        } else {
            f.sign(s, ChonkyMsg::ReplicaTimeout(ReplicaTimeout { view, high_vote: None, high_qc: None }))
        };
        if !m["ok"].as_bool().unwrap() {
            // signature of another message
            msg.sig = f.commit(s, f.vote(v + 7, 3, &p)).sig;
        }
        cache.borrow_mut().insert(m.to_string(), msg.clone());
        msg
    };
    let ident = |m: &SMsg| -> Value {
        let abs = Abs { c: &c, l: &labels };
        let x = abs.msg_abs(m);
        let ConsensusMsg::V2(inner) = &m.msg;
        let cv = match inner {
            ChonkyMsg::ReplicaCommit(v) => if v.view.genesis == other_genesis { 1 } else if v.proposal.payload == p2.hash() { 2 } else { 0 },
            ChonkyMsg::ReplicaTimeout(t) => if t.view.genesis == other_genesis { 1 } else { 0 },
            _ => 0,
        };
        // the view number is read off the message itself (the abstraction refuses to name views of other chains)
        json!({"s": x["from"], "k": x["t"], "v": inner.view_number().0, "c": cv})
    };
    for case in read_cases(&a[0]) {
        rep.evaluations += 1;
        rep.distinct += 1;
        let ops = case["ops"].as_array().unwrap();
        let res = catch(|| {
            rt.block_on(async {
                let (tx, mut rx) = create_input_channel();
                let mut outs = vec![];
                for op in ops {
                    if op["op"] == "send" {
                        let (ack, _r) = oneshot::channel();
                        tx.send(FromNetworkMessage { msg: mk(&op["m"]), ack });
                    } else {
                        let cctx = root.with_timeout(time::Duration::milliseconds(0));
                        let fut = rx.recv(&cctx);
                        tokio::pin!(fut);
                        let mut got = None;
                        for _ in 0..5 {
                            tokio::select! { biased; r = &mut fut => { got = r.ok(); break; }, _ = tokio::task::yield_now() => {} }
                        }
                        outs.push(match got {
                            Some(req) => ident(&req.msg),
                            None => json!("empty"),
                        });
                    }
                }
                outs
            })
        });
        let want: Vec<Value> = ops
            .iter()
            .filter(|o| o["op"] == "recv")
            .map(|o| if o["res"] == "empty" { json!("empty") } else { json!({"s": o["m"]["s"], "k": o["m"]["k"], "v": o["m"]["v"], "c": o["m"]["c"]}) })
            .collect();
        match res {
            Err(pm) => rep.fail("queue_panic", format!("panic: {pm}"), json!({"mode": "queue", "case": case})),
            Ok(outs) => {
                if outs != want {
                    rep.fail("queue_output_mismatch", format!("recv results {} differ from the specification {}", json!(outs), json!(want)), json!({"mode": "queue", "case": case}));
                }
            }
        }
        if rep.evaluations % 7919 == 1 {
            rep.sample(json!({"ops": case["ops"], "expected_recv": want}));
        }
    }
    // ---- concurrent senders (the property quantifies over every interleaving of concurrent senders with the single consumer). A send is
    // atomic in PrunableQueue.tla, so every interleaving is one of the sequences TLC checked; whatever the order, once all senders are
    // done the invariants OnePerSenderKind, OnlyValid, KeepsMax, NothingLost fix the CONTENT of the queue: per slot exactly the
    // highest-view valid message sent. (a) the channel type itself with the BFT selection rule over cheap values and a selection
    // function that dawdles (widens every window between a check and the update it guards); (b) the real create_input_channel().
    use std::sync::{Arc, Barrier};
    use zksync_concurrency::sync::prunable_mpsc::{self, SelectionFunctionResult};
    #[derive(Clone, Debug, PartialEq)]
    struct M {
        slot: u8,
        view: u32,
        valid: bool,
    }
    let judge = |sent: &[(u8, u32, bool)], pending: &[(u8, u32, bool)]| -> Option<String> {
        for (i, p) in pending.iter().enumerate() {
            if !p.2 {
                return Some(format!("OnlyValid: an invalid message is pending: {p:?}"));
            }
            if pending.iter().skip(i + 1).any(|q| q.0 == p.0) {
                return Some(format!("OnePerSenderKind: two messages of one sender and kind are pending: {pending:?}"));
            }
        }
        let mut slots: Vec<u8> = sent.iter().filter(|m| m.2).map(|m| m.0).collect();
        slots.sort();
        slots.dedup();
        for sl in slots {
            let max = sent.iter().filter(|m| m.2 && m.0 == sl).map(|m| m.1).max().unwrap();
            match pending.iter().find(|p| p.0 == sl) {
                None => return Some(format!("NothingLost: valid messages were sent for slot {sl} but none is pending")),
                Some(p) if p.1 != max => return Some(format!("KeepsMax: slot {sl} retains view {} although view {max} was sent", p.1)),
                _ => {}
            }
        }
        None
    };
    let conc = catch(|| {
        use rand::{Rng, SeedableRng};
        let mut rng = rand::rngs::StdRng::seed_from_u64(99);
        let mut rounds = 0u64;
        for round in 0..300u64 {
            let (tx, mut rx) = prunable_mpsc::channel(
                |m: &M| m.valid,
                |old: &M, new: &M| {
                    // dawdle: a few hundred nanoseconds of work inside the selection function
                    let mut x = 0u64;
                    for i in 0..(200 + (new.view as u64 % 7) * 100) {
                        x = x.wrapping_mul(31).wrapping_add(i);
                    }
                    std::hint::black_box(x);
                    if old.slot != new.slot {
                        SelectionFunctionResult::Keep
                    } else if old.view < new.view {
                        SelectionFunctionResult::DiscardOld
                    } else {
                        SelectionFunctionResult::DiscardNew
                    }
                },
            );
            let tx = Arc::new(tx);
            let barrier = Arc::new(Barrier::new(4));
            let lists: Vec<Vec<M>> = (0..4).map(|_| (0..40).map(|_| M { slot: rng.gen_range(0..3), view: rng.gen_range(1..1000), valid: rng.gen_bool(0.9) }).collect()).collect();
            let sent: Vec<(u8, u32, bool)> = lists.iter().flatten().map(|m| (m.slot, m.view, m.valid)).collect();
            let hs: Vec<_> = lists
                .into_iter()
                .map(|l| {
                    let (tx, barrier) = (tx.clone(), barrier.clone());
                    std::thread::spawn(move || {
                        barrier.wait();
                        for m in l {
                            tx.send(m);
                        }
                    })
                })
                .collect();
            for h in hs {
                h.join().unwrap();
            }
            let mut pending = vec![];
            rt.block_on(async {
                loop {
                    let cctx = root.with_timeout(time::Duration::milliseconds(0));
                    let fut = rx.recv(&cctx);
                    tokio::pin!(fut);
                    let mut got = None;
                    for _ in 0..5 {
                        tokio::select! { biased; r = &mut fut => { got = r.ok(); break; }, _ = tokio::task::yield_now() => {} }
                    }
                    match got {
                        Some(m) => pending.push((m.slot, m.view, m.valid)),
                        None => break,
                    }
                }
            });
            rounds += 1;
            if let Some(e) = judge(&sent, &pending) {
                return (rounds, Some((format!("concurrent senders on sync::prunable_mpsc (round {round}): {e}"), json!({"mode": "queue_concurrent", "round": round, "pending": format!("{pending:?}")}))));
            }
        }
        // (b) the real input channel of the consensus component: 3 senders x 6 views, every thread sends all of them in its own order
        let msgs: Vec<(u8, u32, SMsg)> = (1..=3usize).flat_map(|sx| (1..=6u64).map(move |v| (sx, v))).map(|(sx, v)| (sx as u8, v as u32, mk(&json!({"s": sx, "k": "commit", "v": v, "ok": true})))).collect();
        for round in 0..6u64 {
            let (tx, mut rx) = create_input_channel();
            let tx = Arc::new(tx);
            let barrier = Arc::new(Barrier::new(4));
            let hs: Vec<_> = (0..4u64)
                .map(|t| {
                    let (tx, barrier) = (tx.clone(), barrier.clone());
                    let mut mine = msgs.clone();
                    use rand::seq::SliceRandom;
                    mine.shuffle(&mut rand::rngs::StdRng::seed_from_u64(round * 10 + t));
                    std::thread::spawn(move || {
                        barrier.wait();
                        for (_, _, m) in mine {
                            let (ack, _r) = oneshot::channel();
                            tx.send(FromNetworkMessage { msg: m, ack });
                        }
                    })
                })
                .collect();
            for h in hs {
                h.join().unwrap();
            }
            let sent: Vec<(u8, u32, bool)> = msgs.iter().map(|m| (m.0, m.1, true)).collect();
            let mut pending = vec![];
            rt.block_on(async {
                loop {
                    let cctx = root.with_timeout(time::Duration::milliseconds(0));
                    let fut = rx.recv(&cctx);
                    tokio::pin!(fut);
                    let mut got = None;
                    for _ in 0..5 {
                        tokio::select! { biased; r = &mut fut => { got = r.ok(); break; }, _ = tokio::task::yield_now() => {} }
                    }
                    match got {
                        Some(req) => {
                            let id = ident(&req.msg);
                            pending.push((id["s"].as_u64().unwrap() as u8, id["v"].as_u64().unwrap() as u32, true));
                        }
                        None => break,
                    }
                }
            });
            rounds += 1;
            if let Some(e) = judge(&sent, &pending) {
                return (rounds, Some((format!("concurrent senders on create_input_channel() (round {round}): {e}"), json!({"mode": "queue_concurrent", "round": round, "pending": format!("{pending:?}")}))));
            }
        }
        (rounds, None)
    });
    match conc {
        Err(p) => rep.fail("queue_panic", format!("concurrent phase panicked: {p}"), json!({"mode": "queue_concurrent"})),
        Ok((rounds, Some((what, tag)))) => {
            rep.add("queue_concurrent_rounds", rounds);
            rep.fail("queue_concurrent_invariant", what, tag)
        }
        Ok((rounds, None)) => rep.add("queue_concurrent_rounds", rounds),
    }
    rep.write(&a[1]);
}

//! C11 (T3): the real `Schedule::new` + `view_leader` against the TLC-generated table of Leader.tla.
//! Round-robin: every (freq, view) of the table + 64-bit views by the RoundRobinLaw. Weighted: the residue of
//! keccak(turn) mod leader-weight is recomputed here independently (byte-wise long division) and the real
//! answer is compared with the spec's answer for that residue, scanning views until every residue (incl. 0)
//! has been realised. Every permutation of the input list must give the same function.
use serde_json::{json, Value};
use vcore::*;
use zksync_consensus_crypto::keccak256::Keccak256;
use zksync_consensus_roles::validator::{LeaderSelection, LeaderSelectionMode, Schedule, ValidatorInfo, ViewNumber};

fn residue(turn: u64, lw: u64) -> u64 {
    let h = Keccak256::new(&turn.to_be_bytes());
    let mut rem: u128 = 0;
    for b in h.as_bytes() {
        rem = (rem * 256 + *b as u128) % lw as u128;
    }
    rem as u64
}

fn perms(n: usize) -> Vec<Vec<usize>> {
    fn go(cur: &mut Vec<usize>, used: &mut Vec<bool>, n: usize, out: &mut Vec<Vec<usize>>) {
        if cur.len() == n {
            out.push(cur.clone());
            return;
        }
        for i in 0..n {
            if !used[i] {
                used[i] = true;
                cur.push(i);
                go(cur, used, n, out);
                cur.pop();
                used[i] = false;
            }
        }
    }
    let mut out = vec![];
    go(&mut vec![], &mut vec![false; n], n, &mut out);
    out
}

fn main() {
    quiet_panics();
    let a = args();
    let (cases, out) = (&a[0], &a[1]);
    let scan_limit: u64 = a.get(2).map(|s| s.parse().unwrap()).unwrap_or(3000);
    let mut rep = Report::default();
    let keys = validator_keys(6, 11);
    let mut residues_wanted = 0u64;
    let mut residues_hit = 0u64;
    for c in read_cases(cases) {
        let sched: Vec<(u64, bool)> = c["sched"].as_array().unwrap().iter().map(|v| (u64_of(&v["w"]), v["l"].as_bool().unwrap())).collect();
        let n = sched.len();
        let lw = u64_of(&c["lw"]);
        let eligible: Vec<usize> = (0..n).filter(|i| sched[*i].1).collect();
        let k = eligible.len() as u128;
        let infos: Vec<ValidatorInfo> = (0..n).map(|i| ValidatorInfo { key: keys[i].public(), weight: sched[i].0, leader: sched[i].1 }).collect();
        let idx_of = |pk: &zksync_consensus_roles::validator::PublicKey| keys.iter().position(|k| &k.public() == pk).unwrap() + 1;
        let ps = if n <= 4 { perms(n) } else { vec![(0..n).collect(), (0..n).rev().collect()] };
        let rr = c["rr"].as_object().unwrap();
        let wt = c["wt"].as_object().unwrap();
        for (pi, p) in ps.iter().enumerate() {
            let listed: Vec<ValidatorInfo> = p.iter().map(|i| infos[*i].clone()).collect();
            // ---- round robin
            for (fs, views) in rr {
                let freq: u64 = fs.parse().unwrap();
                let s = match catch(|| Schedule::new(listed.clone(), LeaderSelection { frequency: freq, mode: LeaderSelectionMode::RoundRobin })) {
                    Ok(Ok(s)) => s,
                    Ok(Err(e)) => { rep.fail("schedule_refused", format!("valid schedule refused: {e}"), c.clone()); continue; }
                    Err(pm) => { rep.fail("schedule_panic", format!("Schedule::new panicked: {pm}"), c.clone()); continue; }
                };
                let check = |rep: &mut Report, view: u64, want: usize, origin: &str| {
                    rep.evaluations += 1;
                    if pi == 0 { rep.distinct += 1; }
                    let case = json!({"sched": c["sched"], "perm": p, "mode": "rr", "freq": freq, "view": view.to_string(), "want": want, "origin": origin});
                    match catch(|| s.view_leader(ViewNumber(view))) {
                        Err(pm) => {
                            let key = if freq == 0 { "leader_panic_freq0" } else { "leader_panic_rr" };
                            rep.fail(key, format!("view_leader panicked (round-robin, freq={freq}, view={view}): {pm}"), case);
                        }
                        Ok(pk) => {
                            let got = idx_of(&pk);
                            if !sched[got - 1].1 {
                                rep.fail("leader_not_eligible", format!("leader {got} is not leader-eligible"), case);
                            } else if got != want {
                                rep.fail("leader_mismatch_rr", format!("round-robin leader {got}, spec {want} (freq={freq}, view={view})"), case);
                            }
                        }
                    }
                };
                for (vs, w) in views.as_object().unwrap() {
                    check(&mut rep, vs.parse().unwrap(), w.as_u64().unwrap() as usize, "table");
                }
                // 64-bit views by the law el[(view div freq) mod k] (freq=0: el[0]); TLC integers are 32-bit.
                if pi == 0 {
                    for view in [u64::MAX, u64::MAX - 1, 1 << 63, (1 << 63) + 1, 1 << 32, (1 << 32) - 1, 1u64 << 40] {
                        let turn: u128 = if freq == 0 { 0 } else { (view / freq) as u128 };
                        let want = eligible[(turn % k) as usize] + 1;
                        check(&mut rep, view, want, "law64");
                    }
                }
            }
            // ---- weighted
            for freq in [0u64, 1, 2] {
                if pi > 1 && freq != 1 { continue; }
                let s = match catch(|| Schedule::new(listed.clone(), LeaderSelection { frequency: freq, mode: LeaderSelectionMode::Weighted })) {
                    Ok(Ok(s)) => s,
                    Ok(Err(e)) => { rep.fail("schedule_refused", format!("valid schedule refused: {e}"), c.clone()); continue; }
                    Err(pm) => { rep.fail("schedule_panic", format!("Schedule::new panicked: {pm}"), c.clone()); continue; }
                };
                let mut seen = vec![false; lw as usize];
                let mut nseen = 0;
                let limit = if freq == 0 { 3 } else { scan_limit };
                let mut view = 0u64;
                while view < limit && (nseen < lw || view < 8) {
                    let turn = if freq == 0 { 0 } else { view / freq };
                    let e = residue(turn, lw);
                    let want = wt[&e.to_string()].as_u64().unwrap() as usize;
                    let fresh = !seen[e as usize];
                    if fresh { seen[e as usize] = true; nseen += 1; }
                    rep.evaluations += 1;
                    if pi == 0 && fresh { rep.distinct += 1; }
                    let case = json!({"sched": c["sched"], "perm": p, "mode": "weighted", "freq": freq, "view": view.to_string(), "residue": e, "want": want});
                    match catch(|| s.view_leader(ViewNumber(view))) {
                        Err(pm) => {
                            let key = if freq == 0 && !pm.contains("index out of bounds") { "leader_panic_freq0" } else if e == 0 { "leader_panic_weighted_residue0" } else { "leader_panic_weighted" };
                            rep.fail(key, format!("view_leader panicked (weighted, freq={freq}, view={view}, residue={e}): {pm}"), case);
                        }
                        Ok(pk) => {
                            let got = idx_of(&pk);
                            if !sched[got - 1].1 {
                                rep.fail("leader_not_eligible", format!("leader {got} is not leader-eligible"), case);
                            } else if got != want {
                                rep.fail("leader_mismatch_weighted", format!("weighted leader {got}, spec {want} (residue {e})"), case);
                            }
                        }
                    }
                    view += 1;
                }
                if pi == 0 && freq == 1 {
                    residues_wanted += lw;
                    residues_hit += nseen;
                }
            }
        }
        if rep.samples.len() < 3 && n == 3 && lw >= 3 {
            rep.sample(json!({"sched": c["sched"], "rr_freq2": c["rr"]["2"], "wt": c["wt"]}));
        }
    }
    rep.add("residues_wanted", residues_wanted);
    rep.add("residues_realised", residues_hit);
    // big-weight schedules (64-bit leader weight): eligibility + determinism + order independence only
    let big: Vec<Vec<(u64, bool)>> = vec![
        vec![(u64::MAX - 2, true), (1, true), (1, false)],
        vec![(1 << 63, true), ((1 << 63) - 1, true)],
        vec![(u64::MAX, true)],
        vec![(1 << 40, false), (3, true), (1 << 50, true), (7, true)],
    ];
    for sched in big {
        let n = sched.len();
        let infos: Vec<ValidatorInfo> = (0..n).map(|i| ValidatorInfo { key: keys[i].public(), weight: sched[i].0, leader: sched[i].1 }).collect();
        let rev: Vec<ValidatorInfo> = infos.iter().rev().cloned().collect();
        let lw: u128 = sched.iter().filter(|x| x.1).map(|x| x.0 as u128).sum();
        for mode in [LeaderSelectionMode::RoundRobin, LeaderSelectionMode::Weighted] {
            let ls = LeaderSelection { frequency: 1, mode: mode.clone() };
            let (s1, s2) = match (Schedule::new(infos.clone(), ls.clone()), Schedule::new(rev.clone(), ls)) {
                (Ok(a), Ok(b)) => (a, b),
                _ => { rep.fail("schedule_refused", "big-weight schedule refused", json!({"weights": format!("{:?}", sched)})); continue; }
            };
            for view in [0u64, 1, 2, 3, 5, 8, 13, 21, 34, 55, u64::MAX] {
                rep.evaluations += 1;
                rep.distinct += 1;
                let case: Value = json!({"weights": format!("{:?}", sched), "mode": format!("{:?}", mode), "view": view.to_string()});
                match catch(|| (s1.view_leader(ViewNumber(view)), s2.view_leader(ViewNumber(view)))) {
                    Err(pm) => rep.fail("leader_panic_bigweight", format!("view_leader panicked on 64-bit weights: {pm}"), case),
                    Ok((a, b)) => {
                        let ia = keys.iter().position(|k| k.public() == a).unwrap();
                        if a != b { rep.fail("leader_order_dependent", "leader depends on listing order", case); }
                        else if !sched[ia].1 { rep.fail("leader_not_eligible", "non-eligible leader (big weights)", case); }
                        else if matches!(mode, LeaderSelectionMode::Weighted) {
                            // independent walk in u128
                            let h = Keccak256::new(&view.to_be_bytes());
                            let mut rem: u128 = 0;
                            for byte in h.as_bytes() { rem = (rem * 256 + *byte as u128) % lw; }
                            let mut acc: u128 = 0; let mut want = usize::MAX;
                            for (i, x) in sched.iter().enumerate() { if x.1 { acc += x.0 as u128; if rem < acc { want = i; break; } } }
                            if want != ia { rep.fail("leader_mismatch_weighted", format!("big-weight weighted leader {ia}, walk {want}"), case); }
                        }
                    }
                }
            }
        }
    }
    rep.write(out);
}

//! C13 (T2): scenarios enumerated by NoiseStream.tla replayed on a real `noise::Stream` pair over the scripted transport:
//! writes of the given sizes with flushes, seeded fragmentation / spurious Pending of the underlying reads and writes,
//! one tampering of the ciphertext. Checked: frame segmentation and the 64 KiB frame bound on the wire, and what the
//! reader obtains (exact bytes, must be the specified prefix) and how the stream ends.
//!   noise_replay <cases.ndjson> <report.json> <seed>
use serde_json::{json, Value};
use tokio::io::{AsyncReadExt, AsyncWriteExt};
use vcore::{pipe, *};
use zksync_concurrency::ctx;
use zksync_consensus_network::verif::NoiseStream;

fn pat(i: usize) -> u8 {
    ((i * 31 + 7) % 251) as u8
}

fn split_frames(wire: &[u8]) -> Option<Vec<(usize, usize)>> {
    // (offset, total length incl. the 2-byte prefix)
    let mut v = vec![];
    let mut o = 0;
    while o < wire.len() {
        if o + 2 > wire.len() {
            return None;
        }
        let n = u16::from_le_bytes([wire[o], wire[o + 1]]) as usize;
        if o + 2 + n > wire.len() {
            return None;
        }
        v.push((o, 2 + n));
        o += 2 + n;
    }
    Some(v)
}

async fn one(case: &Value, seed: u64) -> Result<(), (String, String)> {
    let clock = ctx::ManualClock::new();
    let root = ctx::test_root(&clock);
    let (a, b, ab, _ba) = pipe::pair();
    let (ka, kb) = (a.knobs.clone(), b.knobs.clone());
    let (w, r) = tokio::join!(NoiseStream::client(&root, a), NoiseStream::server(&root, b));
    let (mut w, mut r) = (w.map_err(|e| ("noise_handshake".to_string(), format!("{e:?}")))?, r.map_err(|e| ("noise_handshake".to_string(), format!("{e:?}")))?);
    // from now on the writer's ciphertext is held on the wire
    ab.lock().unwrap().auto = false;
    let knob = |s: u64| pipe::Knobs { max_read: [usize::MAX, 1, 7, 4096, 70000][(s % 5) as usize], max_write: [usize::MAX, 3, 1000, 65536][(s % 4) as usize], pending_1_in: [0, 2, 5][(s % 3) as usize], lcg: s | 1 };
    *ka.lock().unwrap() = knob(seed);
    *kb.lock().unwrap() = knob(seed / 7 + 3);
    let ops = case["ops"].as_array().unwrap();
    let mut written = 0usize;
    for op in ops {
        if op["op"] == "w" {
            let n = op["n"].as_u64().unwrap() as usize;
            let data: Vec<u8> = (written..written + n).map(pat).collect();
            w.write_all(&data).await.map_err(|e| ("noise_write_failed".to_string(), e.to_string()))?;
            written += n;
        } else {
            w.flush().await.map_err(|e| ("noise_flush_failed".to_string(), e.to_string()))?;
        }
    }
    w.shutdown().await.map_err(|e| ("noise_shutdown_failed".to_string(), e.to_string()))?;
    let wire: Vec<u8> = std::mem::take(&mut ab.lock().unwrap().staging);
    let frames = split_frames(&wire).ok_or(("noise_wire_malformed".to_string(), "the wire is not a sequence of length-prefixed frames".to_string()))?;
    // frame bound and segmentation
    for (_, len) in &frames {
        if *len > 65535 + 2 {
            return Err(("noise_frame_too_large".to_string(), format!("frame of {len} bytes on the wire")));
        }
    }
    let got_sizes: Vec<u64> = frames.iter().map(|(_, len)| (*len - 2 - 16) as u64).collect();
    let want_sizes: Vec<u64> = case["frames"].as_array().unwrap().iter().map(|x| x.as_u64().unwrap()).collect();
    let seg_drift = got_sizes != want_sizes;
    // tamper
    let at = case["at"].as_u64().unwrap() as usize;
    let tamper = case["tamper"].as_str().unwrap();
    let fr = |i: usize| wire[frames[i].0..frames[i].0 + frames[i].1].to_vec();
    let mut out: Vec<u8> = vec![];
    let nfr = frames.len();
    let mut i = 0;
    let mut cut = false;
    while i < nfr {
        let idx = i + 1;
        if tamper != "none" && idx == at {
            match tamper {
                "flip" => {
                    let mut f = fr(i);
                    let m = 2 + (f.len() - 2) / 2;
                    f[m] ^= 0x40;
                    out.extend(f);
                }
                "truncate" => {
                    let f = fr(i);
                    out.extend(&f[..f.len() / 2 + 1]);
                    cut = true;
                }
                "duplicate" => {
                    out.extend(fr(i));
                    out.extend(fr(i));
                }
                "swap" => {
                    if i + 1 < nfr {
                        out.extend(fr(i + 1));
                        out.extend(fr(i));
                        i += 1;
                    } else {
                        out.extend(fr(i));
                    }
                }
                "drop" => {}
                "insert_zero" => {
                    out.extend([0u8, 0u8]);
                    out.extend(fr(i));
                }
                "insert_garbage" => {
                    out.extend(20u16.to_le_bytes());
                    out.extend((0..20).map(|x| (x * 17 + 3) as u8));
                    out.extend(fr(i));
                }
                _ => out.extend(fr(i)),
            }
            if cut {
                break;
            }
        } else {
            out.extend(fr(i));
        }
        i += 1;
    }
    pipe::release(&ab, &out);
    pipe::close(&ab);
    // reader
    let mut delivered: Vec<u8> = vec![];
    let mut end = "eof";
    let mut buf = vec![0u8; [1usize, 100, 65536, 200000][(seed % 4) as usize]];
    loop {
        match r.read(&mut buf).await {
            Ok(0) => break,
            Ok(n) => delivered.extend_from_slice(&buf[..n]),
            Err(_) => {
                end = "error";
                break;
            }
        }
    }
    // the end is final: reading again after end-of-stream / an error must not produce data
    for _ in 0..2 {
        if let Ok(n) = r.read(&mut buf).await {
            if n > 0 {
                return Err(("noise_data_after_end".to_string(), format!("reader obtained {n} more bytes after the stream had ended ({end})")));
            }
        }
    }
    let want = case["out"]["delivered"].as_u64().unwrap() as usize;
    // 1. whatever is delivered must be a prefix of what was written
    if delivered.len() > written || delivered.iter().enumerate().any(|(i, b)| *b != pat(i)) {
        return Err(("noise_not_a_prefix".to_string(), format!("reader obtained {} bytes that are not a prefix of the {} bytes written", delivered.len(), written)));
    }
    if tamper == "none" {
        if delivered.len() != written || end != "eof" {
            return Err(("noise_incomplete".to_string(), format!("untampered stream: {} of {} bytes delivered, end = {end}", delivered.len(), written)));
        }
    } else if delivered.len() > want {
        return Err(("noise_tamper_accepted".to_string(), format!("tampering ({tamper} at frame {at}) not detected: {} bytes delivered, at most {want} are before the tamper point", delivered.len())));
    }
    if seg_drift || delivered.len() != want || end != case["out"]["end"].as_str().unwrap() {
        return Err(("DRIFT".to_string(), format!("frames {:?} vs spec {:?}; delivered {} vs {}; end {} vs {}", got_sizes, want_sizes, delivered.len(), want, end, case["out"]["end"])));
    }
    Ok(())
}

fn main() {
    quiet_panics();
    let a = args();
    let seed: u64 = a[2].parse().unwrap();
    let rt = tokio::runtime::Builder::new_current_thread().enable_all().build().unwrap();
    let mut rep = Report::default();
    for (i, case) in read_cases(&a[0]).into_iter().enumerate() {
        rep.evaluations += 1;
        rep.distinct += 1;
        let s = seed.wrapping_mul(1000003).wrapping_add(i as u64);
        let timed = async {
            let first = tokio::time::timeout(std::time::Duration::from_secs(8), one(&case, s)).await;
            // a loaded machine must not turn into a verdict: the same case again with a much longer limit
            let second = match first {
                Ok(r) => Ok(r),
                Err(_) => tokio::time::timeout(std::time::Duration::from_secs(60), one(&case, s)).await,
            };
            match second {
                Ok(r) => r,
                Err(_) => Err(("noise_stuck".to_string(), "the stream neither completed nor failed within 8 s (nor within 60 s when run again) on a cooperative transport (livelock / runaway writer)".to_string())),
            }
        };
        match catch(|| rt.block_on(timed)) {
            Err(p) => rep.fail("noise_panic", format!("panic: {p}"), json!({"case": case, "seed": s})),
            Ok(Err((key, what))) if key == "DRIFT" => {
                rep.count("drift");
                if rep.notes.len() < 5 {
                    rep.notes.push(what);
                }
            }
            Ok(Err((key, what))) => rep.fail(key, what, json!({"case": case, "seed": s})),
            Ok(Ok(())) => {}
        }
        if rep.failures.len() >= 5 {
            rep.notes.push("stopped after 5 failures".into());
            break;
        }
        if i % 977 == 0 {
            rep.sample(json!({"ops": case["ops"], "frames": case["frames"], "tamper": case["tamper"], "at": case["at"], "out": case["out"]}));
        }
    }
    rep.write(&a[1]);
}

//! C17 (T2): every program enumerated by Scope.tla is executed with the real `scope::run!` on a multi-threaded runtime (many
//! repetitions, random yields); the observed outcome must be one of the outcomes the specification reaches for that program,
//! every task must have finished when the scope returns (JoinAll), and waiting tasks must observe the cancellation.
//!   scope_drv <cases.ndjson> <report.json> <seed> <reps>
use std::{
    collections::{BTreeMap, BTreeSet},
    future::Future,
    pin::Pin,
    sync::{
        atomic::{AtomicUsize, Ordering},
        Arc,
    },
};

use rand::{Rng, SeedableRng};
use serde_json::{json, Value};
use vcore::*;
use zksync_concurrency::{ctx, scope, time};

struct Prog {
    tasks: Vec<(String, bool, usize)>, // kind, main, parent
    body: String,
    outer: bool,
}

struct Fin(Arc<AtomicUsize>);
impl Drop for Fin {
    fn drop(&mut self) {
        self.0.fetch_add(1, Ordering::SeqCst);
    }
}

/// Stretches the window between "the scope's context is cancelled" and whatever the cancelling thread does next: the waker handed to
/// `ctx.canceled()` first wakes the waiting task (which then runs on another worker) and then stalls the CANCELLING thread for a moment.
/// If a failure is recorded only after the cancellation it caused, a task that fails in reaction to the cancellation gets there first.
struct StallWaker {
    inner: std::task::Waker,
    ms: u64,
}
impl std::task::Wake for StallWaker {
    fn wake(self: Arc<Self>) {
        self.inner.wake_by_ref();
        std::thread::sleep(std::time::Duration::from_millis(self.ms));
    }
}
async fn canceled_stalling(ctx: &ctx::Ctx, ms: u64) {
    let fut = ctx.canceled();
    tokio::pin!(fut);
    std::future::poll_fn(|cx| {
        let w = std::task::Waker::from(Arc::new(StallWaker { inner: cx.waker().clone(), ms }));
        let mut cx2 = std::task::Context::from_waker(&w);
        fut.as_mut().poll(&mut cx2)
    })
    .await
}
async fn wait_cancel(ctx: &ctx::Ctx, stall: bool) {
    if stall {
        canceled_stalling(ctx, 2).await
    } else {
        ctx.canceled().await
    }
}

async fn yields(n: u32) {
    for _ in 0..n {
        tokio::task::yield_now().await;
    }
}

fn task<'env>(ctx: &'env ctx::Ctx, s: &'env scope::Scope<'env, String>, prog: Arc<Prog>, i: usize, fin: Arc<AtomicUsize>, seed: u64) -> Pin<Box<dyn Future<Output = Result<(), String>> + Send + 'env>> {
    Box::pin(async move {
        let _f = Fin(fin.clone());
        let mut r = rand::rngs::StdRng::seed_from_u64(seed.wrapping_mul(31).wrapping_add(i as u64));
        // spawn the children first
        for (j, t) in prog.tasks.iter().enumerate() {
            if t.2 == i + 1 {
                let fut = task(ctx, s, prog.clone(), j, fin.clone(), seed);
                if t.1 {
                    s.spawn(fut);
                } else {
                    s.spawn_bg(fut);
                }
            }
        }
        yields(r.gen_range(0..6)).await;
        let kind = prog.tasks[i].0.as_str();
        match kind {
            "ok" => Ok(()),
            "e1" => Err("e1".to_string()),
            "e2" => Err("e2".to_string()),
            "panic" => panic!("task panic"),
            "wait_ok" => {
                wait_cancel(ctx, seed % 5 == 0).await;
                yields(r.gen_range(0..3)).await;
                Ok(())
            }
            "wait_e3" => {
                wait_cancel(ctx, seed % 5 == 0).await;
                yields(r.gen_range(0..3)).await;
                Err("e3".to_string())
            }
            _ => unreachable!(),
        }
    })
}

async fn run_prog(prog: Arc<Prog>, seed: u64) -> (String, usize) {
    let clock = ctx::RealClock;
    let root = ctx::test_root(&clock);
    let mut r = rand::rngs::StdRng::seed_from_u64(seed);
    let parent = if prog.outer { root.with_timeout(time::Duration::microseconds(r.gen_range(0..300))) } else { root.with_deadline(time::Deadline::Infinite) };
    let fin = Arc::new(AtomicUsize::new(0));
    let fin2 = fin.clone();
    let p2 = prog.clone();
    let h = tokio::spawn(async move {
        let res: Result<(), String> = scope::run!(&parent, |ctx, s| async move {
            for (j, t) in p2.tasks.iter().enumerate() {
                if t.2 == 0 {
                    let fut = task(ctx, s, p2.clone(), j, fin2.clone(), seed);
                    if t.1 {
                        s.spawn(fut);
                    } else {
                        s.spawn_bg(fut);
                    }
                }
            }
            yields(r.gen_range(0..6)).await;
            if p2.body == "ok" { Ok(()) } else { Err("e0".to_string()) }
        })
        .await;
        res
    });
    let out = match h.await {
        Ok(Ok(())) => "ok".to_string(),
        Ok(Err(e)) => e,
        Err(e) if e.is_panic() => "panic".to_string(),
        Err(_) => "join_error".to_string(),
    };
    (out, fin.load(Ordering::SeqCst))
}

fn main() {
    quiet_panics();
    let a = args();
    let (seed, reps): (u64, u64) = (a[2].parse().unwrap(), a[3].parse().unwrap());
    // group allowed outcomes per program
    let mut allowed: BTreeMap<String, (Value, BTreeSet<String>)> = BTreeMap::new();
    for c in read_cases(&a[0]) {
        let key = c["prog"].to_string();
        allowed.entry(key).or_insert_with(|| (c["prog"].clone(), BTreeSet::new())).1.insert(c["outcome"].as_str().unwrap().to_string());
    }
    let rt = tokio::runtime::Builder::new_multi_thread().worker_threads(4).enable_all().build().unwrap();
    let mut rep = Report::default();
    let mut skipped = 0u64;
    let mut outcomes_seen: BTreeSet<(String, String)> = BTreeSet::new();
    for (k, (pv, outs)) in allowed.iter() {
        if outs.contains("hang") {
            skipped += 1;
            continue;
        }
        rep.distinct += 1;
        let prog = Arc::new(Prog {
            tasks: pv["tasks"].as_array().unwrap().iter().map(|t| (t["kind"].as_str().unwrap().to_string(), t["main"].as_bool().unwrap(), t["parent"].as_u64().unwrap() as usize)).collect(),
            body: pv["body"].as_str().unwrap().to_string(),
            outer: pv["outer"].as_bool().unwrap(),
        });
        for rr in 0..reps {
            rep.evaluations += 1;
            let s = seed.wrapping_mul(1_000_003).wrapping_add(rep.evaluations).wrapping_add(rr);
            let p2 = prog.clone();
            let mut res = rt.block_on(async move { tokio::time::timeout(std::time::Duration::from_secs(5), run_prog(p2, s)).await });
            if res.is_err() {
                // a loaded machine must not turn into a verdict: the same run again with a much longer limit
                let p3 = prog.clone();
                res = rt.block_on(async move { tokio::time::timeout(std::time::Duration::from_secs(90), run_prog(p3, s)).await });
            }
            let tag = json!({"prog": pv, "seed": s, "allowed": outs});
            match res {
                Err(_) => {
                    rep.fail("scope_hang", "scope::run! did not return within 5 s, nor within 90 s when run again, although every task of the program can finish (a task is not joined, or cancellation does not reach a waiting task)", tag);
                    break;
                }
                Ok((out, finished)) => {
                    outcomes_seen.insert((k.clone(), out.clone()));
                    if finished != prog.tasks.len() {
                        rep.fail("scope_join_all", format!("scope returned ({out}) while only {finished} of {} tasks had finished", prog.tasks.len()), tag);
                        break;
                    }
                    if !outs.contains(&out) {
                        rep.fail("scope_result", format!("scope returned {out:?}; the specification allows {outs:?} for this program"), tag);
                        break;
                    }
                }
            }
        }
        if rep.failures.len() >= 10 {
            break;
        }
        if rep.distinct % 211 == 1 {
            rep.sample(json!({"prog": pv, "allowed": outs}));
        }
    }
    rep.add("programs_skipped_may_hang", skipped);
    rep.add("distinct_program_outcomes_observed", outcomes_seen.len() as u64);
    rep.write(&a[1]);
}

//! C17 (T2): every program enumerated by Scope.tla is executed with the real `scope::run!` - and, every third run, as a blocking
//! scope with `scope::run_blocking!` and blocking tasks - on a multi-threaded runtime (many repetitions, random yields); the observed outcome must be one of the outcomes the specification reaches for that program,
//! every task must have finished when the scope returns (JoinAll), and waiting tasks must observe the cancellation.
//!   scope_drv <cases.ndjson> <report.json> <seed> <reps>
use std::{
    collections::{BTreeMap, BTreeSet},
    future::Future,
    pin::Pin,
    sync::{
        atomic::{AtomicUsize, Ordering},
        Arc,
    },
};

use rand::{Rng, SeedableRng};
use serde_json::{json, Value};
use vcore::*;
use zksync_concurrency::{ctx, scope, time};

struct Prog {
    tasks: Vec<(String, bool, usize)>, // kind, main, parent
    body: String,
    outer: bool,
}

struct Fin(Arc<AtomicUsize>);
impl Drop for Fin {
    fn drop(&mut self) {
        self.0.fetch_add(1, Ordering::SeqCst);
    }
}

/// Stretches the window between "the scope's context is cancelled" and whatever the cancelling thread does next: the waker handed to
/// `ctx.canceled()` first wakes the waiting task (which then runs on another worker) and then stalls the CANCELLING thread for a moment.
/// If a failure is recorded only after the cancellation it caused, a task that fails in reaction to the cancellation gets there first.
struct StallWaker {
    inner: std::task::Waker,
    ms: u64,
}
impl std::task::Wake for StallWaker {
    fn wake(self: Arc<Self>) {
        self.inner.wake_by_ref();
        std::thread::sleep(std::time::Duration::from_millis(self.ms));
    }
}
async fn canceled_stalling(ctx: &ctx::Ctx, ms: u64) {
    let fut = ctx.canceled();
    tokio::pin!(fut);
    std::future::poll_fn(|cx| {
        let w = std::task::Waker::from(Arc::new(StallWaker { inner: cx.waker().clone(), ms }));
        let mut cx2 = std::task::Context::from_waker(&w);
        fut.as_mut().poll(&mut cx2)
    })
    .await
}
/// "Cancellation reaches every descendant context": the waiting task waits on the scope's context itself or on a descendant of it
/// (a child with a far deadline, a grandchild with a looser one, the context of a nested scope) - Scope.tla treats them alike.
async fn wait_cancel(ctx: &ctx::Ctx, stall: bool, via: u64) {
    let hour = time::Duration::seconds(3600);
    if stall {
        return canceled_stalling(ctx, 2).await;
    }
    match via % 4 {
        0 => ctx.canceled().await,
        1 => ctx.with_timeout(hour).canceled().await,
        2 => ctx.with_timeout(hour).with_timeout(hour * 2).canceled().await,
        _ => {
            let _: Result<(), String> = scope::run!(ctx, |c, _s| async move {
                c.canceled().await;
                Ok(())
            })
            .await;
        }
    }
}

async fn yields(n: u32) {
    for _ in 0..n {
        tokio::task::yield_now().await;
    }
}

fn task<'env>(ctx: &'env ctx::Ctx, s: &'env scope::Scope<'env, String>, prog: Arc<Prog>, i: usize, fin: Arc<AtomicUsize>, seed: u64) -> Pin<Box<dyn Future<Output = Result<(), String>> + Send + 'env>> {
    Box::pin(async move {
        let _f = Fin(fin.clone());
        let mut r = rand::rngs::StdRng::seed_from_u64(seed.wrapping_mul(31).wrapping_add(i as u64));
        // spawn the children first
        for (j, t) in prog.tasks.iter().enumerate() {
            if t.2 == i + 1 {
                let fut = task(ctx, s, prog.clone(), j, fin.clone(), seed);
                if t.1 {
                    s.spawn(fut);
                } else {
                    s.spawn_bg(fut);
                }
            }
        }
        yields(r.gen_range(0..6)).await;
        let kind = prog.tasks[i].0.as_str();
        match kind {
            "ok" => Ok(()),
            "e1" => Err("e1".to_string()),
            "e2" => Err("e2".to_string()),
            "panic" => panic!("task panic"),
            "wait_ok" => {
                wait_cancel(ctx, seed % 5 == 0, seed / 5 + i as u64).await;
                yields(r.gen_range(0..3)).await;
                Ok(())
            }
            "wait_e3" => {
                wait_cancel(ctx, seed % 5 == 0, seed / 5 + i as u64).await;
                yields(r.gen_range(0..3)).await;
                Err("e3".to_string())
            }
            _ => unreachable!(),
        }
    })
}

/// Blocking flavour of `task`: the same program with `spawn_blocking` / `spawn_bg_blocking` and blocking waits.
fn task_b<'env>(ctx: &'env ctx::Ctx, s: &'env scope::Scope<'env, String>, prog: Arc<Prog>, i: usize, fin: Arc<AtomicUsize>, seed: u64) -> Result<(), String> {
    let _f = Fin(fin.clone());
    let mut r = rand::rngs::StdRng::seed_from_u64(seed.wrapping_mul(31).wrapping_add(i as u64));
    for (j, t) in prog.tasks.iter().enumerate() {
        if t.2 == i + 1 {
            let (p, f) = (prog.clone(), fin.clone());
            if t.1 {
                s.spawn_blocking(move || task_b(ctx, s, p, j, f, seed));
            } else {
                s.spawn_bg_blocking(move || task_b(ctx, s, p, j, f, seed));
            }
        }
    }
    std::thread::sleep(std::time::Duration::from_micros(r.gen_range(0..200)));
    match prog.tasks[i].0.as_str() {
        "ok" => Ok(()),
        "e1" => Err("e1".to_string()),
        "e2" => Err("e2".to_string()),
        "panic" => panic!("task panic"),
        "wait_ok" => {
            ctx.canceled().block();
            Ok(())
        }
        "wait_e3" => {
            ctx.canceled().block();
            std::thread::sleep(std::time::Duration::from_micros(r.gen_range(0..100)));
            Err("e3".to_string())
        }
        _ => unreachable!(),
    }
}

/// the scope under test as a BLOCKING scope (`scope::run_blocking!`); must be called from a blocking thread
fn inner_blocking(parent: &ctx::Ctx, p2: Arc<Prog>, fin2: Arc<AtomicUsize>, seed: u64, body_us: u64) -> Result<(), String> {
    scope::run_blocking!(parent, |ctx, s| {
        for (j, t) in p2.tasks.iter().enumerate() {
            if t.2 == 0 {
                let (p, f) = (p2.clone(), fin2.clone());
                if t.1 {
                    s.spawn_blocking(move || task_b(ctx, s, p, j, f, seed));
                } else {
                    s.spawn_bg_blocking(move || task_b(ctx, s, p, j, f, seed));
                }
            }
        }
        std::thread::sleep(std::time::Duration::from_micros(body_us));
        match p2.body.as_str() {
            "ok" => Ok(()),
            "panic" => panic!("root task panic"),
            _ => Err("e0".to_string()),
        }
    })
}

/// the scope under test, run under the caller's context `parent`
async fn inner(parent: &ctx::Ctx, p2: Arc<Prog>, fin2: Arc<AtomicUsize>, seed: u64, body_yields: u32) -> Result<(), String> {
    scope::run!(parent, |ctx, s| async move {
        for (j, t) in p2.tasks.iter().enumerate() {
            if t.2 == 0 {
                let fut = task(ctx, s, p2.clone(), j, fin2.clone(), seed);
                if t.1 {
                    s.spawn(fut);
                } else {
                    s.spawn_bg(fut);
                }
            }
        }
        yields(body_yields).await;
        match p2.body.as_str() {
            "ok" => Ok(()),
            "panic" => panic!("root task panic"),
            _ => Err("e0".to_string()),
        }
    })
    .await
}

/// `outer = TRUE` in Scope.tla stands for every way the caller's context can end while the scope runs; the shapes rotate with the seed:
/// 0 a deadline under a deadline-less parent, 1 a TIGHTER deadline under a parent with a far deadline, 2 a far deadline under a parent whose
/// own deadline passes (cascade), 3 the context of an enclosing scope that terminates.
async fn run_prog(prog: Arc<Prog>, seed: u64) -> (String, usize) {
    let clock = ctx::RealClock;
    let root = ctx::test_root(&clock);
    let mut r = rand::rngs::StdRng::seed_from_u64(seed);
    let short = time::Duration::microseconds(r.gen_range(0..300));
    let hour = time::Duration::seconds(3600);
    let shape = if prog.outer { (seed / 7) % 4 } else { 9 };
    let parent = match shape {
        0 => root.with_timeout(short),
        1 => root.with_timeout(hour).with_timeout(short),
        2 => root.with_timeout(short).with_timeout(hour),
        _ => root.with_deadline(time::Deadline::Infinite),
    };
    let fin = Arc::new(AtomicUsize::new(0));
    let fin2 = fin.clone();
    let p2 = prog.clone();
    let body_yields = r.gen_range(0..6);
    // every third run executes the program as a blocking scope on a blocking thread (the caller's context shapes 0-2 apply unchanged)
    let blocking = seed % 3 == 0 && shape != 3;
    let h = tokio::spawn(async move {
        if blocking {
            let us = body_yields as u64 * 40;
            return match tokio::task::spawn_blocking(move || inner_blocking(&parent, p2, fin2, seed, us)).await {
                Ok(r) => r,
                Err(e) if e.is_panic() => std::panic::resume_unwind(e.into_panic()),
                Err(_) => Err("join_error".to_string()),
            };
        }
        if shape != 3 {
            return inner(&parent, p2, fin2, seed, body_yields).await;
        }
        // the scope under test runs in a background task of an enclosing scope whose only main task returns after a moment
        let slot: Arc<std::sync::Mutex<Option<Result<(), String>>>> = Arc::new(std::sync::Mutex::new(None));
        let slot2 = slot.clone();
        let _: Result<(), String> = scope::run!(&parent, |octx, os| async move {
            os.spawn_bg(async move {
                let res = inner(octx, p2, fin2, seed, body_yields).await;
                *slot2.lock().unwrap() = Some(res);
                Ok(())
            });
            tokio::time::sleep(std::time::Duration::from_micros(short.whole_microseconds() as u64)).await;
            Ok(())
        })
        .await;
        let res = slot.lock().unwrap().take();
        res.unwrap_or(Err("inner_scope_result_missing".to_string()))
    });
    let out = match h.await {
        Ok(Ok(())) => "ok".to_string(),
        Ok(Err(e)) => e,
        Err(e) if e.is_panic() => "panic".to_string(),
        Err(_) => "join_error".to_string(),
    };
    (out, fin.load(Ordering::SeqCst))
}

fn main() {
    quiet_panics();
    let a = args();
    let (seed, reps): (u64, u64) = (a[2].parse().unwrap(), a[3].parse().unwrap());
    // group allowed outcomes per program
    let mut allowed: BTreeMap<String, (Value, BTreeSet<String>)> = BTreeMap::new();
    for c in read_cases(&a[0]) {
        let key = c["prog"].to_string();
        allowed.entry(key).or_insert_with(|| (c["prog"].clone(), BTreeSet::new())).1.insert(c["outcome"].as_str().unwrap().to_string());
    }
    let rt = tokio::runtime::Builder::new_multi_thread().worker_threads(4).enable_all().build().unwrap();
    let mut rep = Report::default();
    let mut skipped = 0u64;
    let mut hung = false;
    let mut outcomes_seen: BTreeSet<(String, String)> = BTreeSet::new();
    for (k, (pv, outs)) in allowed.iter() {
        if outs.contains("hang") {
            skipped += 1;
            continue;
        }
        rep.distinct += 1;
        let prog = Arc::new(Prog {
            tasks: pv["tasks"].as_array().unwrap().iter().map(|t| (t["kind"].as_str().unwrap().to_string(), t["main"].as_bool().unwrap(), t["parent"].as_u64().unwrap() as usize)).collect(),
            body: pv["body"].as_str().unwrap().to_string(),
            outer: pv["outer"].as_bool().unwrap(),
        });
        for rr in 0..reps {
            rep.evaluations += 1;
            let s = seed.wrapping_mul(1_000_003).wrapping_add(rep.evaluations).wrapping_add(rr);
            // what is being executed, for the wrapper: if this process dies (a scope that returns while its tasks still run leaves them with
            // dangling borrows of the scope and its context), the program at fault is known
            let _ = std::fs::write(format!("{}.cur", a[1]), json!({"prog": pv, "seed": s, "allowed": outs, "blocking": s % 3 == 0}).to_string());
            let p2 = prog.clone();
            let mut res = rt.block_on(async move { tokio::time::timeout(std::time::Duration::from_secs(5), run_prog(p2, s)).await });
            if res.is_err() {
                // a loaded machine must not turn into a verdict: the same run again with a much longer limit
                let p3 = prog.clone();
                res = rt.block_on(async move { tokio::time::timeout(std::time::Duration::from_secs(90), run_prog(p3, s)).await });
            }
            let tag = json!({"prog": pv, "seed": s, "allowed": outs});
            match res {
                Err(_) => {
                    rep.fail("scope_hang", "scope::run! did not return within 5 s, nor within 90 s when run again, although every task of the program can finish (a task is not joined, or a cancellation / deadline of the caller's context does not reach a waiting task)", tag);
                    hung = true;
                    break;
                }
                Ok((out, finished)) => {
                    outcomes_seen.insert((k.clone(), out.clone()));
                    if finished != prog.tasks.len() {
                        rep.fail("scope_join_all", format!("scope returned ({out}) while only {finished} of {} tasks had finished", prog.tasks.len()), tag);
                        break;
                    }
                    if !outs.contains(&out) {
                        rep.fail("scope_result", format!("scope returned {out:?}; the specification allows {outs:?} for this program"), tag);
                        break;
                    }
                }
            }
        }
        if rep.failures.len() >= 10 || hung {
            break;
        }
        if rep.distinct % 211 == 1 {
            rep.sample(json!({"prog": pv, "allowed": outs}));
        }
    }
    rep.add("programs_skipped_may_hang", skipped);
    rep.add("distinct_program_outcomes_observed", outcomes_seen.len() as u64);
    rep.write(&a[1]);
}

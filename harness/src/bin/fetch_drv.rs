//! C19 (T1): seeded driver of the real `gossip::fetch::Queue` (requester tasks, per-peer worker tasks, availability
//! announcements through real watch channels) on a single-threaded runtime; one event per FetchQueue.tla action at its
//! linearisation point, plus `quiet` events with what is observable at quiescence (pending set, returned requests).
//!   fetch_drv <trace-out> <report-out> <seed> <steps> <nblocks> <npeers>
use std::{
    collections::BTreeMap,
    sync::{Arc, Mutex},
};

use rand::{seq::SliceRandom, Rng};
use serde_json::json;
use tokio::sync::mpsc;
use vcore::{log::EventLog, *};
use zksync_concurrency::{ctx, scope, sync};
use zksync_consensus_engine::{BlockStoreState, Last};
use zksync_consensus_network::gossip::verif::{Accepted, FetchQueue};
use zksync_consensus_roles::validator::BlockNumber;

enum PeerCmd {
    Accept,
    Complete,
    Fail,
}

async fn settle() {
    for _ in 0..40 {
        tokio::task::yield_now().await;
    }
}

fn range_state(s: &[u64]) -> BlockStoreState {
    // announcements are contiguous ranges [first, last]
    if s.is_empty() {
        return BlockStoreState { first: BlockNumber(1000), last: None };
    }
    BlockStoreState { first: BlockNumber(s[0]), last: Some(Last::PreGenesis(BlockNumber(*s.last().unwrap()))) }
}

async fn run(trace: &str, report: &str, seed: u64, steps: u64, nblocks: u64, npeers: usize) {
    let clock = ctx::ManualClock::new();
    let root = ctx::test_root(&clock);
    let log = Arc::new(EventLog::new());
    let q = Arc::new(FetchQueue::default());
    let peers: Vec<String> = (0..npeers).map(|i| format!("p{i}")).collect();
    log.emit(json!({"e": "header", "nblocks": nblocks, "peers": peers}));
    let returned: Arc<Mutex<Vec<u64>>> = Default::default();
    let mut rng = vcore::rng(seed);
    let mut rep = Report::default();
    // peers
    let mut cmd_tx: Vec<mpsc::UnboundedSender<PeerCmd>> = vec![];
    let mut avail_tx: Vec<sync::watch::Sender<BlockStoreState>> = vec![];
    let held: Arc<Mutex<BTreeMap<usize, Accepted>>> = Default::default();
    let accepting: Arc<Mutex<Vec<bool>>> = Arc::new(Mutex::new(vec![false; npeers]));
    let mut handles = vec![];
    let (stop_all_tx, _) = tokio::sync::broadcast::channel::<()>(1);
    for (i, name) in peers.iter().enumerate() {
        let (tx, mut rx) = mpsc::unbounded_channel();
        cmd_tx.push(tx);
        let (atx, arx) = sync::watch::channel(range_state(&[]));
        avail_tx.push(atx);
        let (q, log, held, accepting, name) = (q.clone(), log.clone(), held.clone(), accepting.clone(), name.clone());
        let pctx = root.with_deadline(zksync_concurrency::time::Deadline::Infinite);
        let mut stop = stop_all_tx.subscribe();
        handles.push(tokio::spawn(async move {
            let mut arx = arx;
            let _: Result<(), ctx::Error> = scope::run!(&pctx, |ctx, s| async move {
                s.spawn_bg(async move {
                    while let Some(cmd) = rx.recv().await {
                        match cmd {
                            PeerCmd::Accept => {
                                log.emit(json!({"e": "start_accept", "p": name}));
                                accepting.lock().unwrap()[i] = true;
                                match q.accept_block(ctx, &mut arx).await {
                                    Ok(acc) => {
                                        // linearisation point: accept_block returned (no await since the removal from the queue)
                                        log.emit(json!({"e": "hand", "p": name, "n": acc.number}));
                                        accepting.lock().unwrap()[i] = false;
                                        held.lock().unwrap().insert(i, acc);
                                    }
                                    Err(_) => return Ok(()),
                                }
                            }
                            PeerCmd::Complete => {
                                if let Some(acc) = held.lock().unwrap().remove(&i) {
                                    log.emit(json!({"e": "complete", "p": name}));
                                    acc.complete();
                                }
                            }
                            PeerCmd::Fail => {
                                if let Some(acc) = held.lock().unwrap().remove(&i) {
                                    log.emit(json!({"e": "fail", "p": name}));
                                    drop(acc);
                                }
                            }
                        }
                    }
                    Ok(())
                });
                let _ = stop.recv().await;
                Ok(())
            })
            .await;
        }));
    }
    // requesters: block number -> stop handle
    let mut req_stop: BTreeMap<u64, tokio::sync::oneshot::Sender<()>> = BTreeMap::new();
    let live: Arc<Mutex<Vec<u64>>> = Default::default();
    let mut announced: Vec<Vec<u64>> = vec![vec![]; npeers];
    let mut counts: BTreeMap<&str, u64> = BTreeMap::new();
    for _ in 0..steps {
        let x = rng.gen_range(0..100);
        if x < 25 {
            // request a block nobody is currently requesting
            let cands: Vec<u64> = (1..=nblocks).filter(|n| !live.lock().unwrap().contains(n)).collect();
            if let Some(n) = cands.choose(&mut rng).copied() {
                let (stx, srx) = tokio::sync::oneshot::channel::<()>();
                req_stop.insert(n, stx);
                live.lock().unwrap().push(n);
                let (q, log, returned, live2) = (q.clone(), log.clone(), returned.clone(), live.clone());
                let rctx = root.with_deadline(zksync_concurrency::time::Deadline::Infinite);
                handles.push(tokio::spawn(async move {
                    let _: Result<(), ctx::Error> = scope::run!(&rctx, |ctx, s| async move {
                        s.spawn_bg(async move {
                            log.emit(json!({"e": "request", "n": n}));
                            if q.request(ctx, n).await.is_ok() {
                                returned.lock().unwrap().push(n);
                                live2.lock().unwrap().retain(|x| *x != n);
                            }
                            Ok(())
                        });
                        let _ = srx.await;
                        Ok(())
                    })
                    .await;
                }));
                *counts.entry("request").or_default() += 1;
            }
        } else if x < 33 {
            // the requester gives up
            let l: Vec<u64> = live.lock().unwrap().clone();
            if let Some(n) = l.choose(&mut rng).copied() {
                if let Some(s) = req_stop.remove(&n) {
                    log.emit(json!({"e": "cancel", "n": n}));
                    live.lock().unwrap().retain(|x| *x != n);
                    let _ = s.send(());
                    *counts.entry("cancel").or_default() += 1;
                }
            }
        } else if x < 55 {
            let p = rng.gen_range(0..npeers);
            let lo = rng.gen_range(1..=nblocks);
            let hi = rng.gen_range(lo.saturating_sub(1)..=nblocks);
            let s: Vec<u64> = (lo..=hi).collect();
            log.emit(json!({"e": "announce", "p": peers[p], "s": s}));
            announced[p] = s.clone();
            avail_tx[p].send_replace(range_state(&s));
            *counts.entry("announce").or_default() += 1;
        } else if x < 75 {
            let p = rng.gen_range(0..npeers);
            if !accepting.lock().unwrap()[p] && !held.lock().unwrap().contains_key(&p) {
                let _ = cmd_tx[p].send(PeerCmd::Accept);
                *counts.entry("accept").or_default() += 1;
            }
        } else {
            let hs: Vec<usize> = held.lock().unwrap().keys().copied().collect();
            if let Some(p) = hs.choose(&mut rng).copied() {
                let ok = rng.gen_bool(0.5);
                let _ = cmd_tx[p].send(if ok { PeerCmd::Complete } else { PeerCmd::Fail });
                *counts.entry(if ok { "complete" } else { "fail" }).or_default() += 1;
            }
        }
        settle().await;
        // finished requesters release their stop handles
        let done: Vec<u64> = returned.lock().unwrap().clone();
        for n in &done {
            req_stop.remove(n);
        }
        log.emit(json!({"e": "quiet", "pending": q.current_blocks(), "returned_ok": std::mem::take(&mut *returned.lock().unwrap())}));
    }
    for (k, v) in counts {
        rep.add(k, v);
    }
    rep.evaluations = log.len() as u64;
    rep.distinct = steps;
    rep.sample(json!({"seed": seed, "steps": steps, "nblocks": nblocks, "npeers": npeers, "events": log.len()}));
    log.write(trace);
    // orderly shutdown (scope futures must complete)
    for (_, s) in std::mem::take(&mut req_stop) {
        let _ = s.send(());
    }
    let _ = stop_all_tx.send(());
    drop(cmd_tx);
    for h in handles {
        let _ = h.await;
    }
    rep.write(report);
}

fn main() {
    quiet_panics();
    let a = args();
    let rt = tokio::runtime::Builder::new_current_thread().enable_all().build().unwrap();
    let (seed, steps, nb, np) = (a[2].parse().unwrap(), a[3].parse().unwrap(), a[4].parse().unwrap(), a[5].parse().unwrap());
    let r = catch(|| rt.block_on(run(&a[0], &a[1], seed, steps, nb, np)));
    if let Err(p) = r {
        let mut rep = Report::default();
        rep.fail("panic", format!("panic: {p}"), json!({"seed": seed, "steps": steps}));
        rep.write(&a[1]);
    }
}

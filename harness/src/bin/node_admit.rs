//! C12 at node level (T2): operation sequences of Pool.tla (insert = a peer dials and authenticates, remove = it hangs up) are replayed on a REAL
//! running node (testonly::Instance: listener, preface, noise, handshake, pool, RPC service) over loopback TCP, for the gossip endpoint
//! (one configured static inbound peer `a`, non-configured `x`, `y`, dynamic_inbound_limit = 1) and for the validator endpoint (committee
//! members `v`, `u`, non-member `w`, no extra quota). Admission is observed without timeouts: after the handshake the node either starts
//! its RPC service on the connection (bytes arrive) or closes it. Then a concurrent phase: dialling tasks for all identities race; no
//! identity may ever hold two admitted connections at once and the non-configured ones together at most the quota.
//!   node_admit <gossip|consensus> <cases.ndjson> <report.json> <seed> <max_cases>
use std::{
    collections::{BTreeMap, BTreeSet},
    sync::{Arc, Mutex},
};

use rand::{seq::SliceRandom, Rng, SeedableRng};
use serde_json::json;
use vcore::*;
use zksync_concurrency::{ctx, scope, time};
use zksync_consensus_engine::testonly::TestEngine;
use zksync_consensus_network::{consensus::verif as cv, gossip::verif as gv, testonly, Config};
use zksync_consensus_roles::{node, validator};

#[derive(Clone)]
enum Ident {
    Gossip(Box<Config>),
    Validator(validator::SecretKey),
}

struct Env {
    addr: std::net::SocketAddr,
    genesis: validator::GenesisHash,
    node_gossip_key: node::PublicKey,
    node_validator_key: validator::PublicKey,
    idents: BTreeMap<String, Ident>,
    net: Arc<zksync_consensus_network::Network>,
}

impl Env {
    async fn dial(&self, ctx: &ctx::Ctx, name: &str) -> Result<gv::Dialed, String> {
        match &self.idents[name] {
            Ident::Gossip(cfg) => gv::dial(ctx, self.addr, cfg, self.genesis, &self.node_gossip_key).await,
            Ident::Validator(k) => cv::dial(ctx, self.addr, k, self.genesis, &self.node_validator_key).await,
        }
    }
    /// names of the identities currently registered in the node's inbound pool
    fn pool(&self) -> BTreeSet<String> {
        let mut out = BTreeSet::new();
        let g = gv::inbound_keys(&self.net);
        let v = cv::inbound_keys(&self.net);
        for (name, id) in &self.idents {
            let present = match id {
                Ident::Gossip(cfg) => g.contains(&cfg.gossip.key.public()),
                Ident::Validator(k) => v.contains(&k.public()),
            };
            if present {
                out.insert(name.clone());
            }
        }
        out
    }
    async fn wait_pool(&self, ctx: &ctx::Ctx, want: &BTreeSet<String>) -> bool {
        for _ in 0..20000 {
            if &self.pool() == want {
                return true;
            }
            if ctx.sleep(time::Duration::milliseconds(1)).await.is_err() {
                return false;
            }
        }
        false
    }
}

fn main() {
    quiet_panics();
    let a = args();
    let mode = a[0].clone();
    let cases = read_cases(&a[1]);
    let seed: u64 = a[3].parse().unwrap();
    let max_cases: usize = a[4].parse().unwrap();
    let rep = Arc::new(Mutex::new(Report::default()));
    let rt = tokio::runtime::Builder::new_multi_thread().worker_threads(4).enable_all().build().unwrap();
    let rep2 = rep.clone();
    let mode0 = mode.clone();
    let r = catch(move || {
        let mode = mode0;
        rt.block_on(async move {
            let rep = rep2;
            let root = ctx::test_root(&ctx::RealClock);
            let ctx = &root.with_timeout(time::Duration::seconds(500));
            let mut rng = rand::rngs::StdRng::seed_from_u64(seed);
            let setup = validator::testonly::Setup::new(&mut rng, 3);
            let mut cfg = testonly::new_configs(&mut rng, &setup, 0).remove(0);
            let (ca, cx, cy) = (gv::test_config(rng.gen()), gv::test_config(rng.gen()), gv::test_config(rng.gen()));
            cfg.gossip.dynamic_inbound_limit = 1;
            cfg.gossip.static_inbound = [ca.gossip.key.public()].into_iter().collect();
            let outsider: validator::SecretKey = rng.gen();
            let idents: BTreeMap<String, Ident> = if mode == "gossip" {
                [("a", ca), ("x", cx), ("y", cy)].into_iter().map(|(n, c)| (n.to_string(), Ident::Gossip(Box::new(c)))).collect()
            } else {
                [("v", setup.validator_keys[1].clone()), ("u", setup.validator_keys[2].clone()), ("w", outsider)].into_iter().map(|(n, k)| (n.to_string(), Ident::Validator(k))).collect()
            };
            let sel: Vec<serde_json::Value> = {
                let mut c = cases.clone();
                if c.len() > max_cases {
                    c.shuffle(&mut rng);
                    c.truncate(max_cases);
                }
                c
            };
            let res: anyhow::Result<()> = scope::run!(ctx, |ctx, s| async {
                let engine = TestEngine::new(ctx, &setup).await;
                s.spawn_bg(engine.runner.run(ctx));
                let (node, runner) = testonly::Instance::new(cfg.clone(), engine.manager.clone());
                s.spawn_bg(async {
                    let _ = runner.run(ctx).await;
                    Ok(())
                });
                let env = Arc::new(Env {
                    addr: *cfg.server_addr,
                    genesis: setup.genesis_hash(),
                    node_gossip_key: cfg.gossip.key.public(),
                    node_validator_key: setup.validator_keys[0].public(),
                    idents,
                    net: node.net.clone(),
                });
                // wait until the node listens
                let first = env.idents.keys().next().unwrap().clone();
                let mut up = false;
                for _ in 0..500 {
                    match env.dial(ctx, &first).await {
                        Ok(d) => {
                            drop(d);
                            up = true;
                            break;
                        }
                        Err(_) => ctx.sleep(time::Duration::milliseconds(10)).await?,
                    }
                }
                if !up || !env.wait_pool(ctx, &BTreeSet::new()).await {
                    rep.lock().unwrap().fail("node_not_up", "the node never accepted a connection (harness problem)", json!({}));
                    return Ok(());
                }
                // ---- sequential: Pool.tla operation sequences
                'cases: for case in &sel {
                    let mut open: BTreeMap<String, gv::Dialed> = BTreeMap::new();
                    let mut expect: BTreeSet<String> = BTreeSet::new();
                    for (i, op) in case["ops"].as_array().unwrap().iter().enumerate() {
                        let k = op["k"].as_str().unwrap().to_string();
                        let tag = json!({"mode": mode, "ops": case["ops"], "at": i});
                        if op["op"] == "insert" {
                            let want = op["ok"].as_bool().unwrap();
                            let mut d = match env.dial(ctx, &k).await {
                                Ok(d) => d,
                                Err(e) => {
                                    rep.lock().unwrap().fail("node_handshake_failed", format!("an honest peer could not complete the handshake: {e}"), tag);
                                    break 'cases;
                                }
                            };
                            let Ok(got) = d.admitted(&ctx.with_timeout(time::Duration::seconds(30))).await else {
                                rep.lock().unwrap().fail("harness_timeout", "neither data nor end of stream within 30 s after the handshake (undetermined, not a verdict)", tag);
                                break 'cases;
                            };
                            rep.lock().unwrap().evaluations += 1;
                            if got != want {
                                let what = if got {
                                    format!("the node admitted a connection of identity `{k}` that the pool rule refuses (already connected, or non-configured beyond the quota / not a committee member); pool before: {expect:?}")
                                } else {
                                    format!("the node refused a connection of identity `{k}` that the pool rule admits; pool before: {expect:?}")
                                };
                                rep.lock().unwrap().fail(if got { "node_admits_refused" } else { "node_refuses_admissible" }, what, tag);
                                break 'cases;
                            }
                            if got {
                                open.insert(k.clone(), d);
                                expect.insert(k.clone());
                            }
                        } else {
                            open.remove(&k);
                            expect.remove(&k);
                        }
                        if !env.wait_pool(ctx, &expect).await {
                            let cur = env.pool();
                            rep.lock().unwrap().fail("node_pool_mismatch", format!("inbound pool of the node holds {cur:?}, specification {expect:?}"), tag);
                            break 'cases;
                        }
                    }
                    drop(open);
                    if !env.wait_pool(ctx, &BTreeSet::new()).await {
                        rep.lock().unwrap().fail("node_pool_leak", format!("after every peer hung up the inbound pool still holds {:?}", env.pool()), json!({"mode": mode, "ops": case["ops"]}));
                        break 'cases;
                    }
                    let mut g = rep.lock().unwrap();
                    g.distinct += 1;
                    if g.distinct % 499 == 1 {
                        g.sample(case.clone());
                    }
                }
                // ---- concurrent: racing dials; admitted connections are held for a moment
                let names: Vec<String> = env.idents.keys().cloned().collect();
                let allowed: BTreeSet<String> = if mode == "gossip" { ["a".to_string()].into_iter().collect() } else { ["v".to_string(), "u".to_string()].into_iter().collect() };
                let limit = if mode == "gossip" { 1usize } else { 0 };
                let held: Arc<Mutex<BTreeMap<String, usize>>> = Arc::new(Mutex::new(BTreeMap::new()));
                let admitted_total = Arc::new(Mutex::new(0u64));
                let (env_c, held_c, rep_c, names_c, allowed_c, total_c, mode_c) = (env.clone(), held.clone(), rep.clone(), names.clone(), allowed.clone(), admitted_total.clone(), mode.clone());
                let res2: Result<(), ctx::Error> = scope::run!(ctx, |ctx, s2| async move {
                    for t in 0..6u64 {
                        let (env, held, rep, names, allowed, admitted_total, mode) = (env_c.clone(), held_c.clone(), rep_c.clone(), names_c.clone(), allowed_c.clone(), total_c.clone(), mode_c.clone());
                        s2.spawn(async move {
                            let mut r = rand::rngs::StdRng::seed_from_u64(seed * 977 + t);
                            for it in 0..60 {
                                let k = names[r.gen_range(0..names.len())].clone();
                                let Ok(mut d) = env.dial(ctx, &k).await else { continue };
                                let Ok(got) = d.admitted(&ctx.with_timeout(time::Duration::seconds(30))).await else { continue };
                                if got {
                                    {
                                        let mut h = held.lock().unwrap();
                                        *h.entry(k.clone()).or_default() += 1;
                                        *admitted_total.lock().unwrap() += 1;
                                        let dup = h[&k] > 1;
                                        let extra: usize = h.iter().filter(|(n, c)| !allowed.contains(*n) && **c > 0).map(|(_, c)| *c).sum();
                                        let tag = json!({"mode": mode, "phase": "concurrent", "seed": seed, "task": t, "iteration": it});
                                        if dup {
                                            rep.lock().unwrap().fail("node_duplicate_connection", format!("identity `{k}` holds {} admitted inbound connections at the same time", h[&k]), tag);
                                        } else if extra > limit {
                                            rep.lock().unwrap().fail("node_quota_exceeded", format!("{extra} connections of non-configured / non-member identities admitted at the same time, quota is {limit}"), tag);
                                        }
                                    }
                                    let _ = ctx.sleep(time::Duration::milliseconds(r.gen_range(0..4))).await;
                                    {
                                        let mut h = held.lock().unwrap();
                                        *h.get_mut(&k).unwrap() -= 1;
                                    }
                                    drop(d);
                                } else {
                                    drop(d);
                                }
                                rep.lock().unwrap().evaluations += 1;
                            }
                            Ok(())
                        });
                    }
                    Ok(())
                })
                .await;
                let _ = res2;
                rep.lock().unwrap().add("concurrent_admitted", *admitted_total.lock().unwrap());
                if !env.wait_pool(ctx, &BTreeSet::new()).await {
                    rep.lock().unwrap().fail("node_pool_leak", format!("after the concurrent phase the inbound pool still holds {:?}", env.pool()), json!({"mode": mode, "phase": "concurrent", "seed": seed}));
                }
                Ok(())
            })
            .await;
            if let Err(e) = res {
                let msg: String = format!("{e:?}").lines().next().unwrap_or("").chars().take(200).collect();
                rep.lock().unwrap().notes.push(format!("scope ended with {msg}"));
            }
        })
    });
    let mut rep = std::mem::take(&mut *rep.lock().unwrap());
    if let Err(p) = r {
        rep.fail("panic", format!("panic: {p}"), json!({"mode": mode, "seed": seed}));
    }
    rep.write(&a[2]);
}

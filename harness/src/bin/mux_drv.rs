//! C14 (T1): two real `Mux`es over the scripted transport (seeded fragmentation) on a multi-threaded runtime, many concurrent
//! transient streams with self-identifying payloads on several capabilities in both directions; per-stream records are logged
//! for TLC (TraceMux.tla: pairing, isolation, end-of-stream, open bound). Second scenario: a peer that writes as fast as it
//! can into a stream the application never reads - bytes pulled from the transport must stay within the configured buffers.
//!   mux_drv <trace-out> <report-out> <seed>
use std::{
    collections::BTreeMap,
    sync::{
        atomic::{AtomicI64, AtomicU64, Ordering},
        Arc, Mutex,
    },
};

use rand::{Rng, SeedableRng};
use serde_json::json;
use vcore::{log::EventLog, pipe, *};
use zksync_concurrency::{ctx, limiter, scope, time};
use zksync_consensus_network::verif::{Mux, MuxConfig, StreamQueue};

fn payload(cap: u64, uid: u64, len: usize) -> Vec<u8> {
    // header: cap, uid, len (8 bytes each) then a pattern depending on uid
    let mut v = Vec::with_capacity(24 + len);
    v.extend(cap.to_le_bytes());
    v.extend(uid.to_le_bytes());
    v.extend((len as u64).to_le_bytes());
    v.extend((0..len).map(|i| ((i as u64).wrapping_mul(uid | 1).wrapping_add(uid >> 3) % 251) as u8));
    v
}

struct Gauge {
    cur: AtomicI64,
    max: AtomicI64,
}
impl Gauge {
    fn new() -> Self {
        Self { cur: AtomicI64::new(0), max: AtomicI64::new(0) }
    }
    fn inc(&self) {
        let c = self.cur.fetch_add(1, Ordering::SeqCst) + 1;
        self.max.fetch_max(c, Ordering::SeqCst);
    }
    fn dec(&self) {
        self.cur.fetch_sub(1, Ordering::SeqCst);
    }
}

fn mux_cfg(frame: u64, buf: u64, count: u64) -> MuxConfig {
    MuxConfig { read_frame_size: frame, read_buffer_size: buf, read_frame_count: count, write_frame_size: frame }
}

async fn cooperative(seed: u64, log: Arc<EventLog>, rep: Arc<Mutex<Report>>) {
    let clock = ctx::RealClock;
    let root = ctx::test_root(&clock);
    let ctx = &root.with_timeout(time::Duration::seconds(60));
    let mut rng = rand::rngs::StdRng::seed_from_u64(seed);
    // capabilities 0,1: A connects, B accepts; capability 2: B connects, A accepts
    let caps = [0u64, 1, 2];
    let lim_a: Vec<u32> = caps.iter().map(|_| rng.gen_range(1..4)).collect();
    let lim_b: Vec<u32> = caps.iter().map(|_| rng.gen_range(1..4)).collect();
    let rate = limiter::Rate::INF;
    let qa: Vec<StreamQueue> = lim_a.iter().map(|l| StreamQueue::new(ctx, *l, rate)).collect();
    let qb: Vec<StreamQueue> = lim_b.iter().map(|l| StreamQueue::new(ctx, *l, rate)).collect();
    let frame = [64u64, 1000, 4096][rng.gen_range(0..3)];
    let mux_a = Mux {
        cfg: mux_cfg(frame, frame * 8, 16),
        connect: [(0, qa[0].clone()), (1, qa[1].clone())].into_iter().collect(),
        accept: [(2, qa[2].clone())].into_iter().collect(),
    };
    let mux_b = Mux {
        cfg: mux_cfg(frame, frame * 8, 16),
        accept: [(0, qb[0].clone()), (1, qb[1].clone())].into_iter().collect(),
        connect: [(2, qb[2].clone())].into_iter().collect(),
    };
    let (ea, eb, _ab, _ba) = pipe::pair();
    *ea.knobs.lock().unwrap() = pipe::Knobs { max_read: [usize::MAX, 5, 700][(seed % 3) as usize], max_write: [usize::MAX, 9, 2000][((seed / 3) % 3) as usize], pending_1_in: [0, 3][(seed % 2) as usize], lcg: seed | 1 };
    *eb.knobs.lock().unwrap() = pipe::Knobs { max_read: [usize::MAX, 11, 300][((seed / 5) % 3) as usize], max_write: [usize::MAX, 1, 5000][((seed / 7) % 3) as usize], pending_1_in: [0, 4][((seed / 2) % 2) as usize], lcg: (seed * 31) | 1 };
    log.emit(json!({"e": "header", "caps": caps, "limit_a": lim_a, "limit_b": lim_b, "frame": frame}));
    let uid = Arc::new(AtomicU64::new(1));
    let gauges: Arc<BTreeMap<(u64, &'static str), Gauge>> = Arc::new(caps.iter().flat_map(|c| [((*c, "connect"), Gauge::new()), ((*c, "accept"), Gauge::new())]).collect());
    let n_clients = 4usize;
    let n_iter = 6usize;
    let (gauges2, log2, rep2, lim_a2, lim_b2) = (gauges.clone(), log.clone(), rep.clone(), lim_a.clone(), lim_b.clone());
    let res: Result<(), ctx::Error> = scope::run!(ctx, |ctx, s| async move {
        let (gauges, log, rep) = (gauges2, log2, rep2);
        let _ = (&lim_a2, &lim_b2);
        s.spawn_bg(async {
            let _ = mux_a.run(ctx, ea).await;
            Ok(())
        });
        s.spawn_bg(async {
            let _ = mux_b.run(ctx, eb).await;
            Ok(())
        });
        let mut clients = vec![];
        for (ci, cap) in caps.iter().enumerate() {
            let (cq, aq) = if *cap < 2 { (qa[ci].clone(), qb[ci].clone()) } else { (qb[ci].clone(), qa[ci].clone()) };
            // servers: accept, read everything, verify it is ONE well-formed message, answer with the header, close
            for _ in 0..3 {
                let (aq, log, rep, gauges, cap) = (aq.clone(), log.clone(), rep.clone(), gauges.clone(), *cap);
                let mut sr = rand::rngs::StdRng::seed_from_u64(seed * 104729 + cap * 17 + clients.len() as u64);
                s.spawn_bg::<()>(async move {
                    loop {
                        let Ok(mut st) = aq.open(ctx).await else { return Ok(()) };
                        gauges[&(cap, "accept")].inc();
                        let mut data = vec![];
                        if sr.gen_bool(0.3) {
                            // read only the beginning, then abandon the stream (unread data of this incarnation stays behind)
                            let chunk = st.read(ctx, 40).await.unwrap_or_default();
                            let ok_hdr = chunk.len() >= 24;
                            let (mcap, muid, mlen) = if ok_hdr { (u64::from_le_bytes(chunk[0..8].try_into().unwrap()), u64::from_le_bytes(chunk[8..16].try_into().unwrap()), u64::from_le_bytes(chunk[16..24].try_into().unwrap()) as usize) } else { (99, 0, 0) };
                            let full = if ok_hdr && mlen <= 100_000 { payload(mcap, muid, mlen) } else { vec![] };
                            let good = ok_hdr && mcap == cap && full.len() >= chunk.len() && full[..chunk.len()] == chunk[..];
                            log.emit(json!({"e": "accepted", "cap": cap, "from_uid": muid, "from_cap": mcap, "bytes": chunk.len(), "intact": good, "partial": true}));
                            if !good {
                                rep.lock().unwrap().fail("mux_isolation", format!("accept side of capability {cap} read {} bytes that are not the beginning of one message written on that capability (claims cap {mcap}, uid {muid})", chunk.len()), json!({"seed": seed}));
                            }
                            gauges[&(cap, "accept")].dec();
                            drop(st);
                            continue;
                        }
                        loop {
                            let chunk = match st.read(ctx, 777).await {
                                Ok(c) => c,
                                Err(_) => break,
                            };
                            let n = chunk.len();
                            data.extend(chunk);
                            if n < 777 {
                                break;
                            }
                        }
                        let ok_hdr = data.len() >= 24;
                        let (mcap, muid, mlen) = if ok_hdr { (u64::from_le_bytes(data[0..8].try_into().unwrap()), u64::from_le_bytes(data[8..16].try_into().unwrap()), u64::from_le_bytes(data[16..24].try_into().unwrap()) as usize) } else { (99, 0, 0) };
                        let good = ok_hdr && data == payload(mcap, muid, mlen) && mcap == cap;
                        log.emit(json!({"e": "accepted", "cap": cap, "from_uid": muid, "from_cap": mcap, "bytes": data.len(), "intact": good, "partial": false}));
                        if !good {
                            rep.lock().unwrap().fail("mux_isolation", format!("accept side of capability {cap} read {} bytes that are not exactly one message written on that capability (claims cap {mcap}, uid {muid})", data.len()), json!({"seed": seed}));
                        }
                        let _ = st.write_all(ctx, &data[..data.len().min(24)]).await;
                        let _ = st.flush(ctx).await;
                        st.close_write();
                        gauges[&(cap, "accept")].dec();
                        drop(st);
                    }
                });
            }
            for _ in 0..n_clients {
                let (cq, log, rep, gauges, uid, cap) = (cq.clone(), log.clone(), rep.clone(), gauges.clone(), uid.clone(), *cap);
                let mut r = rand::rngs::StdRng::seed_from_u64(seed * 7919 + uid.fetch_add(0, Ordering::SeqCst) + clients.len() as u64);
                clients.push(s.spawn(async move {
                    for _ in 0..n_iter {
                        let id = uid.fetch_add(1, Ordering::SeqCst);
                        let len = [0usize, 1, 63, 64, 65, 1000, 5000, 20000][r.gen_range(0..8)];
                        let mut st = cq.open(ctx).await?;
                        gauges[&(cap, "connect")].inc();
                        let msg = payload(cap, id, len);
                        let mut off = 0;
                        while off < msg.len() {
                            let n = r.gen_range(1..=(msg.len() - off).min(3000));
                            if st.write_all(ctx, &msg[off..off + n]).await.is_err() {
                                break;
                            }
                            off += n;
                            if r.gen_bool(0.3) {
                                let _ = st.flush(ctx).await;
                            }
                        }
                        let _ = st.flush(ctx).await;
                        st.close_write();
                        // response: the header echoed, then EOS
                        let mut resp = vec![];
                        loop {
                            let chunk = match st.read(ctx, 100).await {
                                Ok(c) => c,
                                Err(_) => break,
                            };
                            let n = chunk.len();
                            resp.extend(chunk);
                            if n < 100 {
                                break;
                            }
                        }
                        let good = resp == msg[..24].to_vec();
                        log.emit(json!({"e": "connected", "cap": cap, "uid": id, "bytes": msg.len(), "response_intact": good, "response_empty": resp.is_empty()}));
                        if !good && !resp.is_empty() {
                            rep.lock().unwrap().fail("mux_isolation", format!("connect side of capability {cap} (stream uid {id}) got a response of {} bytes that is not the echo of its own header", resp.len()), json!({"seed": seed}));
                        }
                        // end-of-stream is final: a reader kept alive after EOS and asked again must see EOS again, whatever the peer does
                        // next on the same reusable stream id (its next incarnation is already on its way)
                        if !resp.is_empty() && r.gen_bool(0.4) {
                            for _ in 0..3 {
                                for _ in 0..r.gen_range(1..20) {
                                    tokio::task::yield_now().await;
                                }
                                let rctx = ctx.with_timeout(time::Duration::milliseconds(50));
                                if let Ok(more) = st.read(&rctx, 64).await {
                                    if !more.is_empty() {
                                        rep.lock().unwrap().fail("mux_eos_not_final", format!("connect side of capability {cap} (stream uid {id}) read {} more bytes after it had seen end-of-stream", more.len()), json!({"seed": seed}));
                                        break;
                                    }
                                }
                            }
                        }
                        gauges[&(cap, "connect")].dec();
                        drop(st);
                    }
                    Ok(())
                }));
            }
        }
        for c in clients {
            c.join(ctx).await?;
        }
        Ok(())
    })
    .await;
    if res.is_err() {
        rep.lock().unwrap().fail("mux_stuck", "transient streams did not complete within 60 s (lost data, lost end-of-stream or deadlock)", json!({"seed": seed}));
    }
    let mut maxes = serde_json::Map::new();
    for ((cap, side), g) in gauges.iter() {
        let m = g.max.load(Ordering::SeqCst);
        maxes.insert(format!("{cap}_{side}"), json!(m));
        let bound = lim_a[*cap as usize].min(lim_b[*cap as usize]) as i64;
        if m > bound {
            rep.lock().unwrap().fail("mux_open_bound", format!("{m} transient streams open at once on capability {cap} ({side} side), limits are {} and {}", lim_a[*cap as usize], lim_b[*cap as usize]), json!({"seed": seed}));
        }
    }
    log.emit(json!({"e": "open_max", "max": maxes}));
}

/// A peer writes as fast as it can; the local application accepts the stream and never reads.
async fn flood(seed: u64, rep: Arc<Mutex<Report>>) {
    let clock = ctx::RealClock;
    let root = ctx::test_root(&clock);
    let ctx = &root.with_timeout(time::Duration::seconds(20));
    let (frame, bufsz, count) = (1024u64, 4096u64, 8u64);
    let qa = StreamQueue::new(ctx, 1, limiter::Rate::INF);
    let qb = StreamQueue::new(ctx, 1, limiter::Rate::INF);
    let mux_a = Mux { cfg: mux_cfg(frame, bufsz, count), connect: BTreeMap::new(), accept: [(0, qa.clone())].into_iter().collect() };
    let mux_b = Mux { cfg: mux_cfg(frame, 1 << 20, 1000), accept: BTreeMap::new(), connect: [(0, qb.clone())].into_iter().collect() };
    let (ea, eb, _ab, ba) = pipe::pair();
    let total = 300_000usize;
    let _: Result<(), ctx::Error> = scope::run!(ctx, |ctx, s| async {
        s.spawn_bg(async {
            let _ = mux_a.run(ctx, ea).await;
            Ok(())
        });
        s.spawn_bg(async {
            let _ = mux_b.run(ctx, eb).await;
            Ok(())
        });
        // A's application accepts the stream and holds it without reading
        let held = s.spawn(async {
            let st = qa.open(ctx).await?;
            Ok(st)
        });
        let writer = s.spawn_bg(async {
            let mut st = qb.open(ctx).await?;
            let data = vec![7u8; total];
            let _ = st.write_all(ctx, &data).await;
            let _ = st.flush(ctx).await;
            Ok(())
        });
        let _st = held.join(ctx).await?;
        // let the flood run for a while
        let _ = ctx.sleep(time::Duration::milliseconds(400)).await;
        let pulled = ba.lock().unwrap().pulled;
        let written = ba.lock().unwrap().written;
        // what A may have pulled: handshake + per-frame overhead + the configured read buffer (+ one frame being read)
        let bound = bufsz + frame + 4 * (count + 2) + 256;
        let mut r = rep.lock().unwrap();
        r.add("flood_pulled", pulled);
        r.add("flood_written_by_peer", written);
        r.add("flood_bound", bound);
        if pulled > bound {
            r.fail("mux_buffer_bound", format!("{pulled} bytes pulled from the transport while the application reads nothing; configured buffer {bufsz} B / {count} frames (bound {bound})"), json!({"seed": seed}));
        }
        if written < bound + 10_000 {
            r.notes.push(format!("flood: peer wrote only {written} bytes (back-pressure reached before the bound could be tested meaningfully?)"));
        }
        drop(writer);
        Ok(())
    })
    .await;
}

/// A raw peer that ignores the protocol's pacing: after a correct handshake it sends one OPEN and then thousands of CLOSE frames on a
/// stream the local application never accepts. What the multiplexer pulls from the transport must stay within read_frame_count.
async fn control_flood(seed: u64, rep: Arc<Mutex<Report>>) {
    let clock = ctx::RealClock;
    let root = ctx::test_root(&clock);
    let ctx = &root.with_timeout(time::Duration::seconds(20));
    let (frame, bufsz, count) = (256u64, 1024u64, [4u64, 8, 16][(seed % 3) as usize]);
    // the peer's handshake: what a real Mux with the mirrored capabilities sends first
    let hs: Vec<u8> = {
        let (ea, _eb, ab, _ba) = pipe::pair();
        ab.lock().unwrap().auto = false;
        let q = StreamQueue::new(ctx, 2, limiter::Rate::INF);
        let m = Mux { cfg: mux_cfg(frame, bufsz, count), accept: BTreeMap::new(), connect: [(0, q)].into_iter().collect() };
        let _ = m.run(&root.with_timeout(time::Duration::milliseconds(200)), ea).await;
        let v = ab.lock().unwrap().staging.clone();
        v
    };
    let qa = StreamQueue::new(ctx, 2, limiter::Rate::INF);
    let mux_a = Mux { cfg: mux_cfg(frame, bufsz, count), connect: BTreeMap::new(), accept: [(0, qa.clone())].into_iter().collect() };
    let (ea, eb, _ab, ba) = pipe::pair();
    let _keep = eb;
    let _: Result<(), ctx::Error> = scope::run!(ctx, |ctx, s| async {
        s.spawn_bg(async {
            let _ = mux_a.run(ctx, ea).await;
            Ok(())
        });
        pipe::release(&ba, &hs);
        let hdr = |kind: u16, id: u16| (kind | 0b0010_0000_0000_0000 | id).to_le_bytes();
        let n_frames = 3000usize;
        let mut bytes = vec![];
        bytes.extend(hdr(0, 0)); // OPEN, sent by the CONNECT side, stream 0
        for _ in 0..n_frames {
            bytes.extend(hdr(0b1000_0000_0000_0000, 0)); // CLOSE
        }
        pipe::release(&ba, &bytes);
        // wait until the multiplexer stops pulling
        let mut last = 0;
        let mut calm = 0;
        for _ in 0..2000 {
            let _ = ctx.sleep(time::Duration::milliseconds(2)).await;
            let p = ba.lock().unwrap().pulled;
            if p == last {
                calm += 1;
                if calm > 60 {
                    break;
                }
            } else {
                calm = 0;
                last = p;
            }
        }
        let pulled = ba.lock().unwrap().pulled;
        let frames = pulled.saturating_sub(hs.len() as u64) / 2;
        let mut r = rep.lock().unwrap();
        r.add("control_flood_frames_pulled", frames);
        r.add("control_flood_frame_limit", count);
        // every buffered frame holds a count permit; one more header may have been read and be waiting for its permit
        if frames > count + 2 {
            r.fail("mux_frame_count_bound", format!("{frames} unconsumed OPEN/CLOSE frames pulled from a peer that floods a stream nobody accepts; read_frame_count = {count}"), json!({"seed": seed, "scenario": "control_flood"}));
        }
        if frames < 2 {
            r.notes.push("control flood: the multiplexer pulled nothing (handshake mismatch in the harness?)".into());
        }
        Ok(())
    })
    .await;
}

/// MuxBuffer.tla, exact: a raw peer sends the frame list of a scenario while the local application accepts nothing. Once the
/// multiplexer stops pulling, what it pulled from the transport must not exceed what the specification pulls in its blocked state
/// (permits are acquired BEFORE the bytes of a chunk are pulled): the payload held is within read_buffer_size / read_frame_count.
async fn data_flood_exact(case: &serde_json::Value, rep: Arc<Mutex<Report>>) {
    let clock = ctx::RealClock;
    let root = ctx::test_root(&clock);
    let ctx = &root.with_timeout(time::Duration::seconds(30));
    let (frame, bufsz, count) = (case["fs"].as_u64().unwrap(), case["buf"].as_u64().unwrap(), case["cnt"].as_u64().unwrap());
    let hs: Vec<u8> = {
        let (ea, _eb, ab, _ba) = pipe::pair();
        ab.lock().unwrap().auto = false;
        let q = StreamQueue::new(ctx, 2, limiter::Rate::INF);
        let m = Mux { cfg: mux_cfg(frame, bufsz, count), accept: BTreeMap::new(), connect: [(0, q)].into_iter().collect() };
        let _ = m.run(&root.with_timeout(time::Duration::milliseconds(200)), ea).await;
        let v = ab.lock().unwrap().staging.clone();
        v
    };
    let qa = StreamQueue::new(ctx, 2, limiter::Rate::INF);
    let mux_a = Mux { cfg: mux_cfg(frame, bufsz, count), connect: BTreeMap::new(), accept: [(0, qa.clone())].into_iter().collect() };
    let (ea, eb, _ab, ba) = pipe::pair();
    let _keep = eb;
    let rd = case["rd"].as_u64().unwrap_or(0) as usize;
    let rd = &rd;
    let _: Result<(), ctx::Error> = scope::run!(ctx, |ctx, s| async {
        s.spawn_bg(async {
            let _ = mux_a.run(ctx, ea).await;
            Ok(())
        });
        pipe::release(&ba, &hs);
        // scenarios with rd > 0: the application accepts the stream, reads exactly rd bytes (the last frame only partly) and stalls, keeping the stream
        if *rd > 0 {
            s.spawn_bg(async {
                let mut st = qa.open(ctx).await?;
                let _ = st.read(ctx, *rd).await;
                ctx.canceled().await;
                drop(st);
                Ok(())
            });
        }
        // CONNECT side; the low bits are the reusable stream the frame is addressed to (the capability has two)
        let hdr = |kind: u16, s: u16| (kind | 0b0010_0000_0000_0000 | s).to_le_bytes();
        let mut bytes = vec![];
        for f in case["frames"].as_array().unwrap() {
            let s = f["s"].as_u64().unwrap_or(0) as u16;
            match f["k"].as_str().unwrap() {
                "open" => bytes.extend(hdr(0, s)),
                "close" => bytes.extend(hdr(0b1000_0000_0000_0000, s)),
                _ => {
                    let l = f["len"].as_u64().unwrap() as u16;
                    bytes.extend(hdr(0b0100_0000_0000_0000, s));
                    bytes.extend(l.to_le_bytes());
                    bytes.extend(vec![0x5au8; l as usize]);
                }
            }
        }
        pipe::release(&ba, &bytes);
        let (mut last, mut calm) = (0, 0);
        for _ in 0..3000 {
            let _ = ctx.sleep(time::Duration::milliseconds(2)).await;
            let p = ba.lock().unwrap().pulled;
            if p == last {
                calm += 1;
                if calm > 80 {
                    break;
                }
            } else {
                calm = 0;
                last = p;
            }
        }
        let pulled = ba.lock().unwrap().pulled.saturating_sub(hs.len() as u64);
        let want = case["wire"].as_u64().unwrap();
        let mut r = rep.lock().unwrap();
        r.add("exact_flood_cases", 1);
        if pulled > want {
            r.fail("mux_buffer_bound_exact", format!("scenario {}: the multiplexer pulled {pulled} bytes after its handshake from a peer whose data nobody reads; with read_buffer_size = {bufsz}, read_frame_count = {count}, read_frame_size = {frame} the specification pulls {want} (payload held {} B in {} frames): more unconsumed data is held than the limits allow", case["name"], case["payload"], case["chunks"]), json!({"scenario": "data_flood_exact", "case": case}));
        } else if pulled < want {
            r.add("exact_flood_pulled_less_than_spec", 1);
            r.notes.push(format!("exact flood {}: pulled {pulled} < specification {want}", case["name"]));
        }
        Ok(())
    })
    .await;
}


const CELL: usize = 256;

fn cell(i: u16, off: u16) -> Vec<u8> {
    let mut v = Vec::with_capacity(CELL);
    v.extend(i.to_le_bytes());
    v.extend(off.to_le_bytes());
    let fill = (i as u32 * 7 + off as u32 * 13 + 1) as u8;
    v.resize(CELL, fill);
    v
}

/// MuxWrite.tla / TraceMuxWrite.tla: the write half under back-pressure with writes that give up. The peer's application accepts the
/// stream but reads nothing at first, the transport is a small in-memory pipe, the peer's read buffer holds two frames: the writer's
/// `write_all` calls (each under a short deadline) start to fail. Every call and its result is logged; once a few have failed the
/// reader drains the stream to its end and what it obtained is decoded into (record, cell) pairs. TLC decides whether the stream is
/// "every completed write, a prefix of every failed one, in order, nothing else" (the hand-over to the writer task is inferred).
async fn cancel_writes(seed: u64, trace: &str, rep: Arc<Mutex<Report>>) {
    let clock = ctx::RealClock;
    let root = ctx::test_root(&clock);
    let ctx = &root.with_timeout(time::Duration::seconds(40));
    let frame_cells = 4u64;
    let frame = frame_cells * CELL as u64;
    let qa = StreamQueue::new(ctx, 1, limiter::Rate::INF);
    let qb = StreamQueue::new(ctx, 1, limiter::Rate::INF);
    // A: reader (accept side), small read buffer; B: writer (connect side)
    let mux_a = Mux { cfg: mux_cfg(frame, 2 * frame, 8), connect: BTreeMap::new(), accept: [(0, qa.clone())].into_iter().collect() };
    let mux_b = Mux { cfg: mux_cfg(frame, 1 << 20, 1000), accept: BTreeMap::new(), connect: [(0, qb.clone())].into_iter().collect() };
    let (ea, eb) = tokio::io::duplex(512);
    let log = EventLog::new();
    log.emit(json!({"e": "header", "frame": frame_cells, "seed": seed, "cell_bytes": CELL}));
    let failed = Arc::new(AtomicU64::new(0));
    let done_writing = Arc::new(AtomicU64::new(0));
    let mut rng = rand::rngs::StdRng::seed_from_u64(seed ^ 0x5eed);
    let sizes: Vec<u16> = (0..36).map(|_| rng.gen_range(1..=6u16)).collect();
    let res: Result<(), ctx::Error> = scope::run!(ctx, |ctx, s| async {
        s.spawn_bg(async {
            let _ = mux_a.run(ctx, ea).await;
            Ok(())
        });
        s.spawn_bg(async {
            let _ = mux_b.run(ctx, eb).await;
            Ok(())
        });
        let reader = s.spawn(async {
            let mut st = qa.open(ctx).await?;
            // read nothing until the writer has run into the back-pressure a few times (or is done)
            while failed.load(Ordering::SeqCst) < 4 && done_writing.load(Ordering::SeqCst) == 0 {
                ctx.sleep(time::Duration::milliseconds(5)).await?;
            }
            let mut all = vec![];
            loop {
                match st.read(ctx, 4096).await {
                    Ok(b) => {
                        let n = b.len();
                        all.extend(b);
                        if n < 4096 {
                            break;
                        }
                    }
                    Err(_) => break,
                }
            }
            Ok(all)
        });
        let mut st = qb.open(ctx).await?;
        for (i, n) in sizes.iter().enumerate() {
            let data: Vec<u8> = (0..*n).flat_map(|off| cell(i as u16, off)).collect();
            let ok = st.write_all(&ctx.with_timeout(time::Duration::milliseconds(25)), &data).await.is_ok();
            log.emit(json!({"e": "w", "i": i, "n": n, "ok": ok}));
            if !ok {
                failed.fetch_add(1, Ordering::SeqCst);
            }
        }
        done_writing.store(1, Ordering::SeqCst);
        // end of stream: what is still buffered is flushed with the CLOSE
        st.close_write();
        log.emit(json!({"e": "close"}));
        let all = reader.join(ctx).await?;
        let mut cells = vec![];
        for ch in all.chunks(CELL) {
            if ch.len() == CELL {
                let (i, off) = (u16::from_le_bytes([ch[0], ch[1]]), u16::from_le_bytes([ch[2], ch[3]]));
                if ch == &cell(i, off)[..] {
                    cells.push(json!([i, off]));
                    continue;
                }
            }
            cells.push(json!([65535, ch.len()])); // not a cell of the pattern
        }
        log.emit(json!({"e": "got", "cells": cells}));
        Ok(())
    })
    .await;
    let mut r = rep.lock().unwrap();
    r.add("cancel_writes_failed_calls", failed.load(Ordering::SeqCst));
    r.add("cancel_writes_runs", 1);
    if res.is_err() {
        r.notes.push("cancel_writes: the scenario did not complete within its time limit".to_string());
        r.add("cancel_writes_incomplete", 1);
    } else {
        log.write(trace);
    }
}

fn main() {
    quiet_panics();
    let a = args();
    let seed: u64 = a[2].parse().unwrap();
    let rt = tokio::runtime::Builder::new_multi_thread().worker_threads(4).enable_all().build().unwrap();
    let log = Arc::new(EventLog::new());
    let rep = Arc::new(Mutex::new(Report::default()));
    let r = catch(|| {
        rt.block_on(async {
            cooperative(seed, log.clone(), rep.clone()).await;
            flood(seed, rep.clone()).await;
            control_flood(seed, rep.clone()).await;
            if let Some(t) = a.get(4) {
                cancel_writes(seed, t, rep.clone()).await;
            }
            if let Some(p) = a.get(3).filter(|p| p.as_str() != "-") {
                for case in read_cases(p) {
                    data_flood_exact(&case, rep.clone()).await;
                }
            }
        })
    });
    let mut rep = std::mem::take(&mut *rep.lock().unwrap());
    if let Err(p) = r {
        rep.fail("mux_panic", format!("panic: {p}"), json!({"seed": seed}));
    }
    let evs = log.snapshot();
    rep.evaluations = evs.len() as u64;
    rep.distinct = evs.iter().filter(|e| e["e"] == "connected").count() as u64;
    rep.sample(json!({"seed": seed, "header": evs.first(), "open_max": evs.last()}));
    log.write(&a[0]);
    rep.write(&a[1]);
}

//! C18 (T2): every transition (book, batch) -> (ok, book') enumerated by AddrBook.tla replayed on the real
//! `ValidatorAddrsWatch::update` / `current` with real signatures (forged = signature made by another key).
//!   addrbook_replay <cases.ndjson> <report.json>
use std::sync::Arc;

use serde_json::{json, Value};
use vcore::{bft::*, *};
use zksync_concurrency::{ctx, time};
use zksync_consensus_network::gossip::verif::AddrBook;
use zksync_consensus_roles::validator::{self, NetAddress};

fn main() {
    quiet_panics();
    let a = args();
    let c = Committee::new(&[1, 1], 31);
    let rt = tokio::runtime::Builder::new_current_thread().enable_all().build().unwrap();
    let clock = ctx::ManualClock::new();
    let _root = ctx::test_root(&clock);
    let key_of = |k: &str| -> validator::SecretKey {
        match k {
            "v1" => c.keys[0].clone(),
            "v2" => c.keys[1].clone(),
            _ => c.outsider.clone(),
        }
    };
    let name_of = |pk: &validator::PublicKey| -> &'static str {
        if *pk == c.keys[0].public() { "v1" } else if *pk == c.keys[1].public() { "v2" } else { "x" }
    };
    let cache: std::cell::RefCell<std::collections::HashMap<String, Arc<validator::Signed<NetAddress>>>> = Default::default();
    let mk = |e: &Value| -> Arc<validator::Signed<NetAddress>> {
        if let Some(x) = cache.borrow().get(&e.to_string()) {
            return x.clone();
        }
        let key = key_of(e["k"].as_str().unwrap());
        let msg = NetAddress {
            addr: std::net::SocketAddr::from(([127, 0, 0, 1], 1000 + e["a"].as_u64().unwrap() as u16)),
            version: e["ver"].as_u64().unwrap(),
            timestamp: time::UNIX_EPOCH + time::Duration::seconds(e["ts"].as_i64().unwrap()),
        };
        let mut s = key.sign_msg(msg.clone());
        if e["forged"].as_bool().unwrap_or(false) {
            // signature made by a different key over the same message
            let other = if e["k"] == "v1" { c.keys[1].clone() } else { c.keys[0].clone() };
            s.sig = other.sign_msg(msg).sig;
        }
        let s = Arc::new(s);
        cache.borrow_mut().insert(e.to_string(), s.clone());
        s
    };
    let book_json = |b: &AddrBook| -> Value {
        let mut m = serde_json::Map::new();
        for k in ["v1", "v2"] {
            m.insert(k.into(), json!({"ver": 0, "ts": 0, "a": 0}));
        }
        for (pk, e) in b.current() {
            let ts = (e.msg.timestamp - time::UNIX_EPOCH).whole_seconds();
            m.insert(name_of(&pk).into(), json!({"ver": e.msg.version, "ts": ts, "a": e.msg.addr.port() - 1000,
                "authentic": e.verify().is_ok() && e.key == pk}));
        }
        Value::Object(m)
    };
    let strip = |mut v: Value| -> Value {
        for k in ["v1", "v2"] {
            if let Some(o) = v[k].as_object_mut() {
                o.remove("authentic");
            }
        }
        v
    };
    let mut rep = Report::default();
    for case in read_cases(&a[0]) {
        rep.evaluations += 1;
        rep.distinct += 1;
        let res = catch(|| {
            rt.block_on(async {
                let book = AddrBook::default();
                // establish the pre-state with one valid batch
                let mut pre = vec![];
                for k in ["v1", "v2"] {
                    let e = &case["pre"][k];
                    if e["a"].as_u64().unwrap() != 0 {
                        pre.push(mk(&json!({"k": k, "ver": e["ver"], "ts": e["ts"], "a": e["a"], "forged": false})));
                    }
                }
                if !pre.is_empty() {
                    book.update(&c.schedule, &pre).await.map_err(|e| format!("establishing the pre-state failed: {e}"))?;
                }
                if strip(book_json(&book)) != case["pre"] {
                    return Err("pre-state could not be established".to_string());
                }
                let batch: Vec<_> = case["batch"].as_array().unwrap().iter().map(&mk).collect();
                let ok = book.update(&c.schedule, &batch).await.is_ok();
                Ok((ok, book_json(&book)))
            })
        });
        let tagged = json!({"mode": "addrbook", "case": case});
        match res {
            Err(p) => rep.fail("addrbook_panic", format!("panic: {p}"), tagged),
            Ok(Err(e)) => rep.fail("addrbook_prestate", e, tagged),
            Ok(Ok((ok, post))) => {
                let authentic = ["v1", "v2"].iter().all(|k| post[*k].get("authentic").map(|x| x.as_bool().unwrap()).unwrap_or(true));
                if !authentic {
                    rep.fail("addrbook_forged_stored", "an announcement that does not verify under its validator's key is stored", tagged);
                } else if ok != case["ok"].as_bool().unwrap() {
                    rep.fail("addrbook_result_mismatch", format!("update returned ok={ok}, specification says {}", case["ok"]), tagged);
                } else if strip(post.clone()) != case["post"] {
                    rep.fail("addrbook_state_mismatch", format!("address book {} differs from the specification {}", strip(post), case["post"]), tagged);
                }
            }
        }
        if rep.evaluations % 2999 == 1 {
            rep.sample(case.clone());
        }
    }
    // ---- concurrent batches (the gossip layer calls `update` from every connection): AddrBook.tla's Update for DISJOINT sets of
    // validators commutes, so whatever the interleaving the book must end up holding the newest announcement of every validator
    let conc = catch(|| {
        let rt = tokio::runtime::Builder::new_multi_thread().worker_threads(4).enable_all().build().unwrap();
        rt.block_on(async {
            let big = Committee::new(&[1; 12], 32);
            let mut lost = vec![];
            for round in 0..12u64 {
                let book = Arc::new(AddrBook::default());
                let barrier = Arc::new(tokio::sync::Barrier::new(4));
                let mut hs = vec![];
                for t in 0..4usize {
                    let (book, barrier, big) = (book.clone(), barrier.clone(), big.clone());
                    hs.push(tokio::spawn(async move {
                        // this task owns validators 3t..3t+2; it announces versions 1..=6 of each, one batch per version
                        let batches: Vec<Vec<Arc<validator::Signed<NetAddress>>>> = (1..=6u64)
                            .map(|ver| {
                                (0..3)
                                    .map(|j| {
                                        let k = &big.keys[3 * t + j];
                                        Arc::new(k.sign_msg(NetAddress { addr: std::net::SocketAddr::from(([127, 0, 0, 1], 2000 + ver as u16)), version: ver, timestamp: time::UNIX_EPOCH + time::Duration::seconds(round as i64) }))
                                    })
                                    .collect()
                            })
                            .collect();
                        barrier.wait().await;
                        for b in batches {
                            let _ = book.update(&big.schedule, &b).await;
                            tokio::task::yield_now().await;
                        }
                    }));
                }
                for h in hs {
                    let _ = h.await;
                }
                let cur = book.current();
                for (i, k) in big.keys.iter().enumerate() {
                    let v = cur.iter().find(|(pk, _)| *pk == k.public()).map(|(_, e)| e.msg.version).unwrap_or(0);
                    if v != 6 {
                        lost.push(json!({"round": round, "validator": i, "version_held": v, "newest_announced": 6}));
                    }
                }
            }
            lost
        })
    });
    rep.evaluations += 12;
    match conc {
        Err(p) => rep.fail("addrbook_panic", format!("panic in the concurrent phase: {p}"), json!({"mode": "addrbook_concurrent"})),
        Ok(lost) if !lost.is_empty() => rep.fail("addrbook_lost_update", format!("after concurrent batches for disjoint validators the book does not hold the newest accepted announcement of {} validator(s), e.g. {}", lost.len(), lost[0]), json!({"mode": "addrbook_concurrent", "lost": lost.iter().take(5).collect::<Vec<_>>()})),
        Ok(_) => {}
    }
    rep.write(&a[1]);
}

//! Seeded random driver of the BFT world (T1 source) + good-period continuation (T5).
//!   bft_drive random <trace-out> <report-out> <seed> <steps> <config> [suffix=1]
//! configs: W4a/W4b/W4c = weights <3,1,1,1>, faulty validator 2/3/4; U6 = six of weight 1, faulty 6;
//!          W5b = <2,2,2,2,2,1> faulty 1 (weight 2 = f); H4 = <1,1,1,1> all correct.
use rand::{rngs::StdRng, seq::SliceRandom, Rng};
use serde_json::json;
use vcore::{bft::*, *};
use zksync_consensus_roles::validator::{
    self,
    v2::{ChonkyMsg, CommitQC, LeaderProposal, ProposalJustification, ReplicaNewView, ReplicaTimeout, TimeoutQC},
};

pub fn config(name: &str) -> (Vec<u64>, Vec<usize>) {
    match name {
        "W4a" => (vec![3, 1, 1, 1], vec![2]),
        "W4b" => (vec![3, 1, 1, 1], vec![3]),
        "W4c" => (vec![3, 1, 1, 1], vec![4]),
        "U6" => (vec![1; 6], vec![6]),
        "U6a" => (vec![1; 6], vec![2]),
        "W5b" => (vec![2, 2, 2, 2, 2, 1], vec![1]),
        "H4" => (vec![1, 1, 1, 1], vec![]),
        "H6" => (vec![1; 6], vec![]),
        _ => panic!("unknown config {name}"),
    }
}

struct Driver {
    w: World,
    rng: StdRng,
    /// pool of deliverable messages (emitted by real nodes or crafted with faulty keys)
    pool: Vec<SMsg>,
    seen_emitted: usize,
    counts: std::collections::BTreeMap<String, u64>,
}

impl Driver {
    fn count(&mut self, k: &str) {
        *self.counts.entry(k.to_string()).or_default() += 1;
    }
    fn absorb(&mut self) {
        while self.seen_emitted < self.w.emitted.len() {
            self.pool.push(self.w.emitted[self.seen_emitted].clone());
            self.seen_emitted += 1;
        }
    }
    fn real(&self) -> Vec<usize> {
        self.w.nodes.keys().copied().collect()
    }
    fn max_view(&self) -> u64 {
        self.real().iter().map(|p| self.w.snapshot(*p).view.0).max().unwrap_or(0)
    }
    async fn deliver(&mut self, pos: usize, m: SMsg) {
        let r = self.w.step(pos, StepKind::Recv(m)).await;
        self.count(if r.accepted { "recv_accepted" } else { "recv_rejected" });
        self.count(&format!("class:{}", r.class));
        if r.crashed {
            self.w.crash(pos).await;
            self.boot(pos).await;
            self.count("crash_in_handler");
        }
        self.absorb();
    }
    async fn boot(&mut self, pos: usize) {
        let r = self.w.step(pos, StepKind::Boot).await;
        if r.crashed {
            self.w.crash(pos).await;
        }
        self.absorb();
    }
    async fn timer(&mut self, pos: usize) {
        let r = self.w.step(pos, StepKind::Timer).await;
        self.count("timer");
        if r.crashed {
            self.w.crash(pos).await;
            self.boot(pos).await;
            self.count("crash_in_handler");
        }
        self.absorb();
    }
    async fn propose(&mut self, pos: usize) {
        self.w.payload_counter += 1;
        let name = format!("p{}", self.w.payload_counter);
        if self.w.propose(pos, &name).await.is_some() {
            self.count("proposals");
        }
        self.absorb();
    }

    // ---------------- Byzantine crafting (faulty keys only) ----------------
    fn byz_pos(&mut self) -> Option<usize> {
        self.w.faulty.clone().choose(&mut self.rng).copied()
    }
    /// Any commit certificate assemblable from the pool (+ faulty signatures).
    fn craft_commit_qc(&mut self) -> Option<CommitQC> {
        let commits = commits_in(&self.pool);
        if commits.is_empty() {
            return None;
        }
        let pick = commits.choose(&mut self.rng)?.msg.clone();
        let c = self.w.c.clone();
        let f = Forge { c: &c };
        let mut votes: Vec<_> = commits.iter().filter(|c| c.msg == pick).cloned().collect();
        for b in &self.w.faulty {
            votes.push(f.commit(*b, pick.clone()).cast().unwrap());
        }
        let qc = f.commit_qc(&votes)?;
        Some(qc)
    }
    fn craft_timeout_qc(&mut self) -> Option<TimeoutQC> {
        let touts = timeouts_in(&self.pool);
        let views: Vec<u64> = touts.iter().map(|t| t.msg.view.number.0).collect();
        let view = *views.choose(&mut self.rng)?;
        let c = self.w.c.clone();
        let f = Forge { c: &c };
        let mut votes: Vec<_> = touts.iter().filter(|t| t.msg.view.number.0 == view && t.msg.view.genesis == self.w.c.genesis.hash()).cloned().collect();
        votes.shuffle(&mut self.rng);
        // faulty reports: none / a header some correct replica reports, with any certificate from the pool
        let hvs: Vec<_> = votes.iter().filter_map(|t| t.msg.high_vote.clone()).collect();
        for b in self.w.faulty.clone() {
            let hv = if self.rng.gen_bool(0.5) { hvs.choose(&mut self.rng).cloned() } else { None };
            let hq = if self.rng.gen_bool(0.5) { self.craft_commit_qc().filter(|q| q.verify(self.w.c.genesis.hash(), EPOCH, &self.w.c.schedule).is_ok()) } else { None };
            let t = ReplicaTimeout { view: self.w.c.view(view), high_vote: hv, high_qc: hq };
            votes.insert(0, f.sign(b, ChonkyMsg::ReplicaTimeout(t)).cast().unwrap());
        }
        Some(f.timeout_qc(view, &votes))
    }
    fn craft_just(&mut self) -> Option<ProposalJustification> {
        if self.rng.gen_bool(0.5) {
            self.craft_commit_qc().map(ProposalJustification::Commit)
        } else {
            self.craft_timeout_qc().map(ProposalJustification::Timeout)
        }
    }
    fn craft_byz(&mut self) -> Option<SMsg> {
        let b = self.byz_pos()?;
        let view = self.max_view();
        let kind = self.rng.gen_range(0..10);
        // own the forge data to avoid borrowing self.w across rng use
        let c = self.w.c.clone();
        let f = Forge { c: &c };
        match kind {
            0 | 1 => {
                // commit vote: copy a vote seen in the pool (helps or conflicts), or a fresh conflicting one
                let commits = commits_in(&self.pool);
                let vote = if !commits.is_empty() && self.rng.gen_bool(0.7) {
                    commits.choose(&mut self.rng)?.msg.clone()
                } else {
                    let p = self.w.labels.payload(&format!("z{}", self.rng.gen_range(0..3)));
                    f.vote(view + self.rng.gen_range(0..2), self.rng.gen_range(0..3), &p)
                };
                Some(f.commit(b, vote))
            }
            2 | 3 => {
                let touts = timeouts_in(&self.pool);
                let hv = touts.iter().filter_map(|t| t.msg.high_vote.clone()).collect::<Vec<_>>().choose(&mut self.rng).cloned();
                let hq = self.craft_commit_qc();
                let v = view.saturating_sub(self.rng.gen_range(0..2));
                Some(f.sign(b, ChonkyMsg::ReplicaTimeout(ReplicaTimeout { view: c.view(v), high_vote: if self.rng.gen_bool(0.6) { hv } else { None }, high_qc: if self.rng.gen_bool(0.6) { hq } else { None } })))
            }
            4 | 5 | 6 => {
                // proposal (equivocating when b leads the view of the justification)
                let j = self.craft_just()?;
                let payload = if self.rng.gen_bool(0.75) { Some(self.w.labels.payload(&format!("z{}", self.rng.gen_range(0..3)))) } else { None };
                Some(f.sign(b, ChonkyMsg::LeaderProposal(LeaderProposal { proposal_payload: payload, justification: j })))
            }
            7 => {
                let j = self.craft_just()?;
                Some(f.sign(b, ChonkyMsg::ReplicaNewView(ReplicaNewView { justification: j })))
            }
            8 => {
                // future-view flood (C16): validly signed votes for far views
                let fv = view + self.rng.gen_range(2..40);
                if self.rng.gen_bool(0.5) {
                    let p = self.w.labels.payload("z0");
                    Some(f.commit(b, f.vote(fv, self.rng.gen_range(0..3), &p)))
                } else {
                    Some(f.sign(b, ChonkyMsg::ReplicaTimeout(ReplicaTimeout { view: c.view(fv), high_vote: None, high_qc: None })))
                }
            }
            _ => self.craft_invalid(b),
        }
    }
    /// Invalid classes: the specification says "rejected, no state change".
    fn craft_invalid(&mut self, b: usize) -> Option<SMsg> {
        use zksync_consensus_crypto::ByteFmt;
        let c = self.w.c.clone();
        let f = Forge { c: &c };
        let view = self.max_view();
        match self.rng.gen_range(0..6) {
            0 => {
                // signature by another (faulty/outsider) key over the message, attributed to b
                let p = self.w.labels.payload("z1");
                let mut m = f.commit(b, f.vote(view, 0, &p));
                let other = f.commit(0, f.vote(view, 1, &p));
                m.sig = other.sig;
                self.w.labels.forged_sig.insert(ByteFmt::encode(&m.sig));
                Some(m)
            }
            1 => {
                // wrong genesis
                let p = self.w.labels.payload("z1");
                let mut v = f.vote(view, 0, &p);
                let other = Committee::new(&[1, 1], 999);
                v.view.genesis = other.genesis.hash();
                Some(f.commit(b, v))
            }
            2 => {
                // wrong epoch
                let mut t = ReplicaTimeout { view: c.view(view), high_vote: None, high_qc: None };
                t.view.epoch = validator::EpochNumber(7);
                Some(f.sign(b, ChonkyMsg::ReplicaTimeout(t)))
            }
            3 => {
                // non-member signer
                let p = self.w.labels.payload("z1");
                Some(f.commit(0, f.vote(view, 0, &p)))
            }
            4 => {
                // certificate below the quorum: only faulty signatures
                let p = self.w.labels.payload("z2");
                let vote = f.vote(view, 0, &p);
                let votes: Vec<_> = self.w.faulty.iter().map(|x| f.commit(*x, vote.clone()).cast().unwrap()).collect();
                let qc = f.commit_qc(&votes)?;
                Some(f.sign(b, ChonkyMsg::ReplicaNewView(ReplicaNewView { justification: ProposalJustification::Commit(qc) })))
            }
            _ => {
                // certificate with a quorum bitmap but a forged aggregate (signers claimed, signature of faulty keys only)
                let mut qc = self.craft_commit_qc()?;
                for i in 0..c.n() {
                    qc.signers.0.set(i, true);
                }
                if qc.verify(c.genesis.hash(), EPOCH, &c.schedule).is_ok() {
                    return None; // all really signed: it is valid, not an invalid class
                }
                self.w.labels.forged_agg.insert(ByteFmt::encode(&qc.signature));
                Some(f.sign(b, ChonkyMsg::ReplicaNewView(ReplicaNewView { justification: ProposalJustification::Commit(qc) })))
            }
        }
    }

    async fn random_step(&mut self) {
        let real = self.real();
        let pos = *real.choose(&mut self.rng).unwrap();
        let x = self.rng.gen_range(0..100);
        if x < 45 && !self.pool.is_empty() {
            // deliver: prefer recent messages (progress), sometimes an old one (dup / reorder / delay)
            let n = self.pool.len();
            let idx = if self.rng.gen_bool(0.75) { n - 1 - self.rng.gen_range(0..n.min(12)) } else { self.rng.gen_range(0..n) };
            let m = self.pool[idx].clone();
            self.deliver(pos, m).await;
        } else if x < 60 {
            if let Some(m) = self.craft_byz() {
                self.count("byz_crafted");
                self.pool.push(m.clone());
                self.deliver(pos, m).await;
            }
        } else if x < 72 {
            // proposer
            let ps: Vec<usize> = real.iter().copied().filter(|p| self.w.nodes[p].pending_just.is_some()).collect();
            if let Some(p) = ps.choose(&mut self.rng) {
                self.propose(*p).await;
            }
        } else if x < 82 {
            self.timer(pos).await;
        } else if x < 88 {
            if self.w.force_sync(pos).await {
                self.count("sync");
            }
        } else if x < 92 {
            self.w.crash(pos).await;
            self.count("crash");
            self.boot(pos).await;
        } else if x < 96 {
            // crash at the next durable write, applied or not
            let apply = self.rng.gen_bool(0.5);
            {
                let mut c = self.w.nodes[&pos].engine.inner().ctl.lock().unwrap();
                let k = c.total_set_state + 1;
                c.crash_at = Some((k, apply));
            }
            self.count(if apply { "crash_armed_applied" } else { "crash_armed_skipped" });
        } else {
            // burst: deliver the last few messages to everyone (a short good period)
            let n = self.pool.len();
            let recent: Vec<SMsg> = self.pool[n.saturating_sub(6)..].to_vec();
            for m in recent {
                for p in self.real() {
                    self.deliver(p, m.clone()).await;
                }
            }
        }
    }

    /// T5: synchronous suffix. Returns (ok, rounds_used, timer_rounds, heights).
    async fn good_period(&mut self, max_timer_rounds: u32) -> (bool, u32, u32, Vec<usize>) {
        // disarm pending crash injections: the suffix is fault-free for correct replicas
        for p in self.real() {
            self.w.nodes[&p].engine.inner().ctl.lock().unwrap().crash_at = None;
        }
        let h0 = self.real().iter().map(|p| self.w.nodes[p].engine.store_len()).max().unwrap_or(0);
        let target = h0 + 1;
        let mut cursor = self.w.emitted.len();
        let mut timer_rounds = 0;
        let mut rounds = 0;
        // first: everybody retransmits (timeouts keep firing) so that state is exchanged
        loop {
            rounds += 1;
            let done = self.real().iter().all(|p| self.w.nodes[p].engine.store_len() >= target);
            if done {
                return (true, rounds, timer_rounds, self.heights());
            }
            if rounds > 400 {
                return (false, rounds, timer_rounds, self.heights());
            }
            // proposers
            for p in self.real() {
                if self.w.nodes[&p].pending_just.is_some() {
                    self.propose(p).await;
                }
            }
            // block fetcher
            for p in self.real() {
                while self.w.force_sync(p).await {}
            }
            // deliver everything new to everyone, through each replica's real inbound queue
            let new: Vec<SMsg> = self.w.emitted[cursor..].to_vec();
            cursor = self.w.emitted.len();
            if !new.is_empty() {
                for p in self.real() {
                    let (tx, mut rx) = zksync_consensus_bft::create_input_channel();
                    for m in &new {
                        let (ack, _ack_rx) = zksync_concurrency::oneshot::channel();
                        tx.send(zksync_consensus_bft::FromNetworkMessage { msg: m.clone(), ack });
                    }
                    // drain what the queue retained, in its order
                    let cctx = self.w.ctx.with_timeout(zksync_concurrency::time::Duration::milliseconds(0));
                    let mut kept = vec![];
                    loop {
                        let fut = rx.recv(&cctx);
                        tokio::pin!(fut);
                        let r = tokio::select! { biased; r = &mut fut => r.ok(), _ = tokio::task::yield_now() => None };
                        match r { Some(req) => kept.push(req.msg), None => break }
                    }
                    self.counts.entry("queue_in".into()).and_modify(|x| *x += new.len() as u64).or_insert(new.len() as u64);
                    self.counts.entry("queue_out".into()).and_modify(|x| *x += kept.len() as u64).or_insert(kept.len() as u64);
                    for m in kept {
                        self.deliver(p, m).await;
                    }
                }
                continue;
            }
            if self.real().iter().any(|p| self.w.nodes[p].pending_just.is_some()) {
                continue;
            }
            // quiescent: timers fire everywhere
            timer_rounds += 1;
            if timer_rounds > max_timer_rounds {
                return (false, rounds, timer_rounds, self.heights());
            }
            self.w.clock.advance(zksync_concurrency::time::Duration::milliseconds(VIEW_TIMEOUT_MS + 1));
            for p in self.real() {
                self.timer(p).await;
            }
        }
    }
    fn heights(&self) -> Vec<usize> {
        self.real().iter().map(|p| self.w.nodes[p].engine.store_len()).collect()
    }
}

async fn run_random(trace: &str, report: &str, seed: u64, steps: u64, cfg: &str, suffix: bool) {
    let (weights, faulty) = config(cfg);
    let mut rep = Report::default();
    let w = World::new(&weights, &faulty, seed).await;
    let mut d = Driver { w, rng: vcore::rng(seed), pool: vec![], seen_emitted: 0, counts: Default::default() };
    // boot every node (view 0 times out immediately)
    for p in d.real() {
        d.boot(p).await;
    }
    for _ in 0..steps {
        d.random_step().await;
    }
    let views: Vec<u64> = d.real().iter().map(|p| d.w.snapshot(*p).view.0).collect();
    let heights_prefix = d.heights();
    let mut progress = json!(null);
    if suffix {
        let n = d.w.c.n() as u32;
        // bound: L + 3 views with L = number of faulty-led views in any window of n views, doubled for slack
        let bound = 2 * (faulty.len() as u32 + 3) + n;
        let (ok, rounds, timer_rounds, heights) = d.good_period(bound).await;
        progress = json!({"ok": ok, "rounds": rounds, "timer_rounds": timer_rounds, "heights": heights, "bound_timer_rounds": bound});
        if !ok {
            rep.fail("no_progress", format!("no new block at every correct node within {bound} timer rounds of the good period (heights {heights:?})"),
                json!({"mode": "random", "seed": seed, "steps": steps, "config": cfg}));
        }
    }
    rep.evaluations = d.w.log.len() as u64;
    rep.distinct = d.counts.iter().filter(|(k, _)| k.starts_with("class:")).count() as u64;
    for (k, v) in &d.counts {
        rep.add(k, *v);
    }
    rep.add("stuck", d.w.stuck);
    rep.add("events", d.w.log.len() as u64);
    rep.sample(json!({"config": cfg, "seed": seed, "views_after_prefix": views, "heights_after_prefix": heights_prefix, "progress": progress}));
    d.w.log.write(trace);
    d.w.shutdown().await;
    rep.write(report);
}

fn main() {
    quiet_panics();
    let a = args();
    let rt = tokio::runtime::Builder::new_current_thread().enable_all().build().unwrap();
    match a[0].as_str() {
        "random" => {
            let (trace, report, seed, steps, cfg) = (&a[1], &a[2], a[3].parse().unwrap(), a[4].parse().unwrap(), &a[5]);
            let suffix = a.get(6).map(|s| s != "0").unwrap_or(true);
            let r = catch(|| rt.block_on(run_random(trace, report, seed, steps, cfg, suffix)));
            if let Err(p) = r {
                // a panic of the code under test (or of the harness): report it as data
                let mut rep = Report::default();
                rep.fail("panic", format!("panic during run: {p}"), json!({"mode": "random", "seed": seed, "steps": steps, "config": cfg}));
                rep.write(report);
            }
        }
        _ => panic!("unknown mode"),
    }
}

//! Seeded random driver of the BFT world (T1 source) + good-period continuation (T5).
//!   bft_drive random <trace-out> <report-out> <seed> <steps> <config> [suffix=1]
//! configs: W4a/W4b/W4c = weights <3,1,1,1>, faulty validator 2/3/4; U6 = six of weight 1, faulty 6;
//!          W5b = <2,2,2,2,2,1> faulty 1 (weight 2 = f); H4 = <1,1,1,1> all correct.
use rand::{rngs::StdRng, seq::SliceRandom, Rng};
use serde_json::json;
use vcore::{bft::*, *};
use zksync_consensus_roles::validator::{
    self,
    v2::{ChonkyMsg, CommitQC, LeaderProposal, ProposalJustification, ReplicaNewView, ReplicaTimeout, TimeoutQC},
};

pub fn config(name: &str) -> (Vec<u64>, Vec<usize>) {
    match name {
        "W4a" => (vec![3, 1, 1, 1], vec![2]),
        "W4b" => (vec![3, 1, 1, 1], vec![3]),
        "W4c" => (vec![3, 1, 1, 1], vec![4]),
        "U6" => (vec![1; 6], vec![6]),
        "U6a" => (vec![1; 6], vec![2]),
        "W5b" => (vec![2, 2, 2, 2, 2, 1], vec![1]),
        "H4" => (vec![1, 1, 1, 1], vec![]),
        "H6" => (vec![1; 6], vec![]),
        _ => panic!("unknown config {name}"),
    }
}

struct Driver {
    w: World,
    rng: StdRng,
    /// pool of deliverable messages (emitted by real nodes or crafted with faulty keys)
    pool: Vec<SMsg>,
    seen_emitted: usize,
    counts: std::collections::BTreeMap<String, u64>,
    /// replica cut off from the others (partition) during the last part of the prefix
    isolated: Option<usize>,
    /// every message crafted with faulty keys so far (valid or not)
    byz_msgs: Vec<SMsg>,
    /// Twins: for every faulty validator two further *real* replicas run with its key (each with its own engine and durable
    /// state, in a world of its own whose log is discarded). Whatever they emit is Byzantine material in the pool.
    twins: Vec<(World, usize)>,
}

impl Driver {
    fn count(&mut self, k: &str) {
        *self.counts.entry(k.to_string()).or_default() += 1;
    }
    fn absorb(&mut self) {
        while self.seen_emitted < self.w.emitted.len() {
            self.pool.push(self.w.emitted[self.seen_emitted].clone());
            self.seen_emitted += 1;
        }
    }
    fn real(&self) -> Vec<usize> {
        self.w.nodes.keys().copied().collect()
    }
    fn max_view(&self) -> u64 {
        self.real().iter().map(|p| self.w.snapshot(*p).view.0).max().unwrap_or(0)
    }
    async fn deliver(&mut self, pos: usize, m: SMsg) {
        let r = self.w.step(pos, StepKind::Recv(m)).await;
        self.count(if r.accepted { "recv_accepted" } else { "recv_rejected" });
        self.count(&format!("class:{}", r.class));
        if r.crashed {
            self.w.crash(pos).await;
            self.boot(pos).await;
            self.count("crash_in_handler");
        }
        self.absorb();
    }
    async fn boot(&mut self, pos: usize) {
        let r = self.w.step(pos, StepKind::Boot).await;
        if r.crashed {
            self.w.crash(pos).await;
        }
        self.absorb();
    }
    async fn timer(&mut self, pos: usize) {
        let r = self.w.step(pos, StepKind::Timer).await;
        self.count("timer");
        if r.crashed {
            self.w.crash(pos).await;
            self.boot(pos).await;
            self.count("crash_in_handler");
        }
        self.absorb();
    }
    async fn propose(&mut self, pos: usize) {
        self.w.payload_counter += 1;
        let name = format!("p{}", self.w.payload_counter);
        if self.w.propose(pos, &name).await.is_some() {
            self.count("proposals");
        }
        self.absorb();
    }

    // ---------------- Byzantine crafting (faulty keys only) ----------------
    fn byz_pos(&mut self) -> Option<usize> {
        self.w.faulty.clone().choose(&mut self.rng).copied()
    }
    /// Any commit certificate assemblable from the pool (+ faulty signatures).
    fn craft_commit_qc(&mut self) -> Option<CommitQC> {
        let commits = commits_in(&self.pool);
        if commits.is_empty() {
            return None;
        }
        let pick = commits.choose(&mut self.rng)?.msg.clone();
        let c = self.w.c.clone();
        let f = Forge { c: &c };
        let mut votes: Vec<_> = commits.iter().filter(|c| c.msg == pick).cloned().collect();
        for b in &self.w.faulty {
            votes.push(f.commit(*b, pick.clone()).cast().unwrap());
        }
        let qc = f.commit_qc(&votes)?;
        Some(qc)
    }
    fn craft_timeout_qc(&mut self) -> Option<TimeoutQC> {
        let touts = timeouts_in(&self.pool);
        let views: Vec<u64> = touts.iter().map(|t| t.msg.view.number.0).collect();
        let view = *views.choose(&mut self.rng)?;
        let c = self.w.c.clone();
        let f = Forge { c: &c };
        let mut votes: Vec<_> = touts.iter().filter(|t| t.msg.view.number.0 == view && t.msg.view.genesis == self.w.c.genesis.hash()).cloned().collect();
        votes.shuffle(&mut self.rng);
        // faulty reports: none / a header some correct replica reports, with any certificate from the pool
        let hvs: Vec<_> = votes.iter().filter_map(|t| t.msg.high_vote.clone()).collect();
        for b in self.w.faulty.clone() {
            let hv = if self.rng.gen_bool(0.5) { hvs.choose(&mut self.rng).cloned() } else { None };
            let hq = if self.rng.gen_bool(0.5) { self.craft_commit_qc().filter(|q| q.verify(self.w.c.genesis.hash(), EPOCH, &self.w.c.schedule).is_ok()) } else { None };
            let t = ReplicaTimeout { view: self.w.c.view(view), high_vote: hv, high_qc: hq };
            votes.insert(0, f.sign(b, ChonkyMsg::ReplicaTimeout(t)).cast().unwrap());
        }
        Some(f.timeout_qc(view, &votes))
    }
    fn craft_just(&mut self) -> Option<ProposalJustification> {
        if self.rng.gen_bool(0.5) {
            self.craft_commit_qc().map(ProposalJustification::Commit)
        } else {
            self.craft_timeout_qc().map(ProposalJustification::Timeout)
        }
    }
    fn craft_byz(&mut self) -> Option<SMsg> {
        let b = self.byz_pos()?;
        let view = self.max_view();
        let kind = self.rng.gen_range(0..10);
        // own the forge data to avoid borrowing self.w across rng use
        let c = self.w.c.clone();
        let f = Forge { c: &c };
        match kind {
            0 | 1 => {
                // commit vote: copy a vote seen in the pool (helps or conflicts), or a fresh conflicting one
                let commits = commits_in(&self.pool);
                let vote = if !commits.is_empty() && self.rng.gen_bool(0.7) {
                    commits.choose(&mut self.rng)?.msg.clone()
                } else {
                    let p = self.w.labels.payload(&format!("z{}", self.rng.gen_range(0..3)));
                    f.vote(view + self.rng.gen_range(0..2), self.rng.gen_range(0..3), &p)
                };
                Some(f.commit(b, vote))
            }
            2 | 3 => {
                let touts = timeouts_in(&self.pool);
                let hv = touts.iter().filter_map(|t| t.msg.high_vote.clone()).collect::<Vec<_>>().choose(&mut self.rng).cloned();
                let hq = self.craft_commit_qc();
                let v = view.saturating_sub(self.rng.gen_range(0..2));
                Some(f.sign(b, ChonkyMsg::ReplicaTimeout(ReplicaTimeout { view: c.view(v), high_vote: if self.rng.gen_bool(0.6) { hv } else { None }, high_qc: if self.rng.gen_bool(0.6) { hq } else { None } })))
            }
            4 | 5 | 6 => {
                // proposal (equivocating when b leads the view of the justification): prefer a justification whose next view b leads
                let mut j = self.craft_just()?;
                for _ in 0..6 {
                    if c.leader(j.view().number.0) == b {
                        break;
                    }
                    if let Some(j2) = self.craft_just() {
                        j = j2;
                    }
                }
                let payload = match self.rng.gen_range(0..20) {
                    0..=3 => Some(self.w.labels.payload("huge")), // above max_payload_size
                    4 | 5 => Some(self.w.labels.payload("bad")), // refused by the application
                    6..=8 => None,
                    _ => Some(self.w.labels.payload(&format!("z{}", self.rng.gen_range(0..3)))),
                };
                Some(f.sign(b, ChonkyMsg::LeaderProposal(LeaderProposal { proposal_payload: payload, justification: j })))
            }
            7 => {
                let j = self.craft_just()?;
                Some(f.sign(b, ChonkyMsg::ReplicaNewView(ReplicaNewView { justification: j })))
            }
            8 => {
                // future-view flood (C16): validly signed votes for far views
                let fv = view + self.rng.gen_range(2..40);
                if self.rng.gen_bool(0.5) {
                    let p = self.w.labels.payload("z0");
                    Some(f.commit(b, f.vote(fv, self.rng.gen_range(0..3), &p)))
                } else {
                    Some(f.sign(b, ChonkyMsg::ReplicaTimeout(ReplicaTimeout { view: c.view(fv), high_vote: None, high_qc: None })))
                }
            }
            _ => self.craft_invalid(b),
        }
    }
    /// Invalid classes: the specification says "rejected, no state change".
    fn craft_invalid(&mut self, b: usize) -> Option<SMsg> {
        use zksync_consensus_crypto::ByteFmt;
        let c = self.w.c.clone();
        let f = Forge { c: &c };
        let view = self.max_view();
        match self.rng.gen_range(0..11) {
            7 => {
                // timeout vote for a fresh view with a signature that is not the sender's
                let mut m = f.sign(b, ChonkyMsg::ReplicaTimeout(ReplicaTimeout { view: c.view(view + 1), high_vote: None, high_qc: None }));
                let other = f.sign(0, ChonkyMsg::ReplicaTimeout(ReplicaTimeout { view: c.view(view + 2), high_vote: None, high_qc: None }));
                m.sig = other.sig;
                self.w.labels.forged_sig.insert(ByteFmt::encode(&m.sig));
                Some(m)
            }
            8 => {
                // new-view carrying a genuine certificate, message signature forged
                let j = self.craft_just()?;
                let mut m = f.sign(b, ChonkyMsg::ReplicaNewView(ReplicaNewView { justification: j }));
                let other = f.sign(0, ChonkyMsg::ReplicaTimeout(ReplicaTimeout { view: c.view(view + 3), high_vote: None, high_qc: None }));
                m.sig = other.sig;
                self.w.labels.forged_sig.insert(ByteFmt::encode(&m.sig));
                Some(m)
            }
            9 => {
                // new-view carrying a genuine certificate, sent by a non-member
                let j = self.craft_just()?;
                Some(f.sign(0, ChonkyMsg::ReplicaNewView(ReplicaNewView { justification: j })))
            }
            10 => {
                // commit vote for a fresh view on another chain
                let p = self.w.labels.payload("z1");
                let mut v = f.vote(view + 1, 0, &p);
                let other = Committee::new(&[1, 1], 999);
                v.view.genesis = other.genesis.hash();
                Some(f.commit(b, v))
            }
            6 => {
                // a timeout certificate for view v that aggregates (genuine) timeout votes signed in an EARLIER view
                let touts = timeouts_in(&self.pool);
                let views: Vec<u64> = touts.iter().map(|t| t.msg.view.number.0).collect();
                let old = *views.iter().min()?;
                let votes: Vec<_> = touts.iter().filter(|t| t.msg.view.number.0 == old).cloned().collect();
                let mut qc = f.timeout_qc(old, &votes);
                for x in self.w.faulty.clone() {
                    let t = ReplicaTimeout { view: c.view(old), high_vote: None, high_qc: None };
                    let _ = qc.add(&f.sign(x, ChonkyMsg::ReplicaTimeout(t)).cast().unwrap(), c.genesis.hash(), EPOCH, &c.schedule);
                }
                qc.view = c.view(view.max(old + 1));
                if self.rng.gen_bool(0.5) {
                    Some(f.sign(b, ChonkyMsg::ReplicaNewView(ReplicaNewView { justification: ProposalJustification::Timeout(qc) })))
                } else {
                    let payload = Some(self.w.labels.payload(&format!("z{}", self.rng.gen_range(0..3))));
                    Some(f.sign(b, ChonkyMsg::LeaderProposal(LeaderProposal { proposal_payload: payload, justification: ProposalJustification::Timeout(qc) })))
                }
            }
            0 => {
                // signature by another (faulty/outsider) key over the message, attributed to b
                let p = self.w.labels.payload("z1");
                let mut m = f.commit(b, f.vote(view, 0, &p));
                let other = f.commit(0, f.vote(view, 1, &p));
                m.sig = other.sig;
                self.w.labels.forged_sig.insert(ByteFmt::encode(&m.sig));
                Some(m)
            }
            1 => {
                // wrong genesis
                let p = self.w.labels.payload("z1");
                let mut v = f.vote(view, 0, &p);
                let other = Committee::new(&[1, 1], 999);
                v.view.genesis = other.genesis.hash();
                Some(f.commit(b, v))
            }
            2 => {
                // wrong epoch
                let mut t = ReplicaTimeout { view: c.view(view), high_vote: None, high_qc: None };
                t.view.epoch = validator::EpochNumber(7);
                Some(f.sign(b, ChonkyMsg::ReplicaTimeout(t)))
            }
            3 => {
                // non-member signer
                let p = self.w.labels.payload("z1");
                Some(f.commit(0, f.vote(view, 0, &p)))
            }
            4 => {
                // certificate below the quorum: only faulty signatures
                let p = self.w.labels.payload("z2");
                let vote = f.vote(view, 0, &p);
                let votes: Vec<_> = self.w.faulty.iter().map(|x| f.commit(*x, vote.clone()).cast().unwrap()).collect();
                let qc = f.commit_qc(&votes)?;
                Some(f.sign(b, ChonkyMsg::ReplicaNewView(ReplicaNewView { justification: ProposalJustification::Commit(qc) })))
            }
            _ => {
                // certificate with a quorum bitmap but a forged aggregate (signers claimed, signature of faulty keys only)
                let mut qc = self.craft_commit_qc()?;
                for i in 0..c.n() {
                    qc.signers.0.set(i, true);
                }
                if qc.verify(c.genesis.hash(), EPOCH, &c.schedule).is_ok() {
                    return None; // all really signed: it is valid, not an invalid class
                }
                self.w.labels.forged_agg.insert(vcore::bft::agg_key(&qc.signers, &ByteFmt::encode(&qc.signature)));
                Some(f.sign(b, ChonkyMsg::ReplicaNewView(ReplicaNewView { justification: ProposalJustification::Commit(qc) })))
            }
        }
    }

    /// One step of a twin: it hears a message of the pool (each twin prefers its own half of the recent ones, so the two
    /// incarnations of one key drift apart), its timer fires, its proposer runs, or it fetches blocks from the correct nodes.
    async fn twin_step(&mut self) {
        if self.twins.is_empty() {
            return;
        }
        let t = self.rng.gen_range(0..self.twins.len());
        let poss: Vec<usize> = self.twins[t].0.nodes.keys().copied().collect();
        let Some(&b) = poss.choose(&mut self.rng) else { return };
        // (1) catch up on blocks
        loop {
            let have = self.twins[t].0.nodes[&b].engine.store_len();
            let mut blk = None;
            for n in self.w.nodes.values() {
                let bs = n.engine.inner().blocks.lock().unwrap();
                if bs.len() > have {
                    blk = Some(bs[have].clone());
                    break;
                }
            }
            match blk {
                Some(x) => {
                    if !self.twins[t].0.sync_block(b, x).await {
                        break;
                    }
                }
                None => break,
            }
        }
        // (2) hear the recent traffic - except (mostly) what the OTHER incarnation of this key said, so that the two drift apart
        let other: Vec<Vec<u8>> = self.twins.iter().enumerate().filter(|(i, _)| *i != t).flat_map(|(_, (tw, _))| tw.emitted.iter().rev().take(20).map(|m| zksync_protobuf::encode(&m.sig)).collect::<Vec<_>>()).collect();
        let n = self.pool.len();
        let k = self.rng.gen_range(1..=10usize).min(n);
        let recent: Vec<SMsg> = self.pool[n - k..].to_vec();
        for m in recent {
            if other.contains(&zksync_protobuf::encode(&m.sig)) && self.rng.gen_bool(0.8) {
                continue;
            }
            if self.twins[t].0.nodes.get(&b).map(|n| n.replica.is_none()).unwrap_or(true) {
                break;
            }
            let r = self.twins[t].0.step(b, StepKind::Recv(m)).await;
            if r.crashed {
                self.twins[t].0.crash(b).await;
                self.twins[t].0.step(b, StepKind::Boot).await;
            }
        }
        // (3) lead when it is this key's turn: each incarnation proposes its own payload, and votes for it
        if self.twins[t].0.nodes[&b].pending_just.is_some() && self.rng.gen_bool(0.8) {
            self.w.payload_counter += 1;
            let name = format!("t{}p{}", t, self.w.payload_counter);
            self.w.labels.payload(&name); // the observer's name for it, before any vote for it is seen
            if let Some(m) = self.twins[t].0.propose(b, &name).await {
                let r = self.twins[t].0.step(b, StepKind::Recv(m)).await;
                if r.crashed {
                    self.twins[t].0.crash(b).await;
                    self.twins[t].0.step(b, StepKind::Boot).await;
                }
            }
        }
        // (4) sometimes its timer fires
        if self.rng.gen_range(0..100) < 15 {
            let r = self.twins[t].0.step(b, StepKind::Timer).await;
            if r.crashed {
                self.twins[t].0.crash(b).await;
                self.twins[t].0.step(b, StepKind::Boot).await;
            }
        }
        // everything a twin made visible is deliverable to anyone
        let (tw, seen) = &mut self.twins[t];
        let mut fresh = 0;
        while *seen < tw.emitted.len() {
            self.pool.push(tw.emitted[*seen].clone());
            *seen += 1;
            fresh += 1;
        }
        *self.counts.entry("twin_steps".into()).or_default() += 1;
        *self.counts.entry("twin_messages".into()).or_default() += fresh;
    }

    async fn random_step(&mut self) {
        if !self.twins.is_empty() && self.rng.gen_range(0..100) < 15 {
            self.twin_step().await;
            return;
        }
        let real: Vec<usize> = self.real().into_iter().filter(|p| Some(*p) != self.isolated).collect();
        let pos = *real.choose(&mut self.rng).unwrap();
        let x = self.rng.gen_range(0..100);
        if x < 45 && !self.pool.is_empty() {
            // deliver: prefer recent messages (progress), sometimes an old one (dup / reorder / delay)
            let n = self.pool.len();
            let idx = if self.rng.gen_bool(0.75) { n - 1 - self.rng.gen_range(0..n.min(12)) } else { self.rng.gen_range(0..n) };
            let m = self.pool[idx].clone();
            self.deliver(pos, m).await;
        } else if x < 60 {
            if let Some(m) = self.craft_byz() {
                self.count("byz_crafted");
                self.byz_msgs.push(m.clone());
                self.pool.push(m.clone());
                self.deliver(pos, m).await;
            }
        } else if x < 72 {
            // proposer
            let ps: Vec<usize> = real.iter().copied().filter(|p| self.w.nodes[p].pending_just.is_some()).collect();
            if let Some(p) = ps.choose(&mut self.rng) {
                self.propose(*p).await;
            }
        } else if x < 82 {
            self.timer(pos).await;
        } else if x < 88 {
            if self.w.force_sync(pos).await {
                self.count("sync");
            }
        } else if x < 92 {
            self.w.crash(pos).await;
            self.count("crash");
            self.boot(pos).await;
        } else if x < 96 {
            // crash at the next durable write, applied or not
            let apply = self.rng.gen_bool(0.5);
            {
                let mut c = self.w.nodes[&pos].engine.inner().ctl.lock().unwrap();
                let k = c.total_set_state + 1;
                c.crash_at = Some((k, apply));
            }
            self.count(if apply { "crash_armed_applied" } else { "crash_armed_skipped" });
        } else {
            // burst: deliver the last few messages to everyone (a short good period)
            let n = self.pool.len();
            let recent: Vec<SMsg> = self.pool[n.saturating_sub(6)..].to_vec();
            for m in recent {
                for p in real.clone() {
                    self.deliver(p, m.clone()).await;
                }
            }
        }
    }

    /// T5: synchronous suffix. Returns (ok, rounds_used, timer_rounds, heights).
    async fn good_period(&mut self, max_timer_rounds: u32, lossy_first_expiry: bool) -> (bool, u32, u32, Vec<usize>) {
        // disarm pending crash injections: the suffix is fault-free for correct replicas
        for p in self.real() {
            self.w.nodes[&p].engine.inner().ctl.lock().unwrap().crash_at = None;
        }
        if lossy_first_expiry {
            // the last thing that happens before the network heals: every replica's timer fires once and what it sends is
            // LOST. Recovery must then come from retransmission on later expiries (timeout.rs:170-225).
            for p in self.real() {
                self.timer(p).await;
            }
        }
        let h0 = self.real().iter().map(|p| self.w.nodes[p].engine.store_len()).max().unwrap_or(0);
        let target = h0 + 1;
        let mut cursor = self.w.emitted.len();
        let mut timer_rounds = 0;
        let mut rounds = 0;
        // first: everybody retransmits (timeouts keep firing) so that state is exchanged
        loop {
            rounds += 1;
            let done = self.real().iter().all(|p| self.w.nodes[p].engine.store_len() >= target);
            if done {
                return (true, rounds, timer_rounds, self.heights());
            }
            if rounds > 400 {
                return (false, rounds, timer_rounds, self.heights());
            }
            // proposers
            for p in self.real() {
                if self.w.nodes[&p].pending_just.is_some() {
                    self.propose(p).await;
                }
            }
            // block fetcher
            for p in self.real() {
                while self.w.force_sync(p).await {}
            }
            // deliver everything new to everyone, through each replica's real inbound queue
            let new: Vec<SMsg> = self.w.emitted[cursor..].to_vec();
            cursor = self.w.emitted.len();
            if !new.is_empty() {
                for p in self.real() {
                    let (tx, mut rx) = zksync_consensus_bft::create_input_channel();
                    for m in &new {
                        let (ack, _ack_rx) = zksync_concurrency::oneshot::channel();
                        tx.send(zksync_consensus_bft::FromNetworkMessage { msg: m.clone(), ack });
                    }
                    // drain what the queue retained, in its order
                    let cctx = self.w.ctx.with_timeout(zksync_concurrency::time::Duration::milliseconds(0));
                    let mut kept = vec![];
                    loop {
                        let fut = rx.recv(&cctx);
                        tokio::pin!(fut);
                        let r = tokio::select! { biased; r = &mut fut => r.ok(), _ = tokio::task::yield_now() => None };
                        match r { Some(req) => kept.push(req.msg), None => break }
                    }
                    self.counts.entry("queue_in".into()).and_modify(|x| *x += new.len() as u64).or_insert(new.len() as u64);
                    self.counts.entry("queue_out".into()).and_modify(|x| *x += kept.len() as u64).or_insert(kept.len() as u64);
                    for m in kept {
                        self.deliver(p, m).await;
                    }
                }
                continue;
            }
            if self.real().iter().any(|p| self.w.nodes[p].pending_just.is_some()) {
                continue;
            }
            // quiescent: timers fire everywhere
            timer_rounds += 1;
            if timer_rounds > max_timer_rounds {
                return (false, rounds, timer_rounds, self.heights());
            }
            self.w.clock.advance(zksync_concurrency::time::Duration::milliseconds(VIEW_TIMEOUT_MS + 1));
            for p in self.real() {
                self.timer(p).await;
            }
        }
    }
    fn heights(&self) -> Vec<usize> {
        self.real().iter().map(|p| self.w.nodes[p].engine.store_len()).collect()
    }
}

async fn run_random(trace: &str, report: &str, seed: u64, steps: u64, cfg: &str, suffix: u8) {
    let (weights, faulty) = config(cfg);
    let mut rep = Report::default();
    let w = World::new(&weights, &faulty, seed).await;
    let mut d = Driver { w, rng: vcore::rng(seed), pool: vec![], seen_emitted: 0, counts: Default::default(), isolated: None, twins: vec![], byz_msgs: vec![] };
    // boot every node (view 0 times out immediately)
    for p in d.real() {
        d.boot(p).await;
    }
    if seed % 2 == 1 && !faulty.is_empty() {
        // twins (odd seeds): two more worlds with the same keys (Committee::new is a function of weights and seed) in which only
        // the FAULTY validators run - real replicas, real engines, own durable state. Their logs are not part of the trace.
        let correct: Vec<usize> = (1..=weights.len()).filter(|p| !faulty.contains(p)).collect();
        for _ in 0..2 {
            let mut tw = World::new(&weights, &correct, seed).await;
            for b in faulty.iter() {
                tw.step(*b, StepKind::Boot).await;
            }
            d.twins.push((tw, 0));
        }
        d.count("twin_runs");
    }
    for i in 0..steps {
        if i == steps * 3 / 4 && seed % 2 == 0 {
            // partition: one replica hears nothing during the last quarter of the prefix (it falls behind)
            let real = d.real();
            d.isolated = Some(real[(seed / 2) as usize % real.len()]);
            d.count("partition");
        }
        d.random_step().await;
    }
    d.isolated = None;
    if suffix == 2 {
        // the harsher ending: before the network heals, whatever the faulty validators ever sent (late, duplicated) reaches EVERY correct
        // replica - a flood for future views, an equivocation or a stale certificate then sits in everybody's caches, not in one replica's
        let late: Vec<SMsg> = d.byz_msgs.iter().rev().take(40).cloned().collect();
        for m in late.into_iter().rev() {
            for p in d.real() {
                d.deliver(p, m.clone()).await;
            }
        }
        d.count("byz_broadcast_before_good_period");
    }
    let views: Vec<u64> = d.real().iter().map(|p| d.w.snapshot(*p).view.0).collect();
    let heights_prefix = d.heights();
    let mut progress = json!(null);
    if suffix > 0 {
        let n = d.w.c.n() as u32;
        // bound: L + 3 views with L = number of faulty-led views in any window of n views, doubled for slack
        let bound = 2 * (faulty.len() as u32 + 3) + n;
        let (ok, rounds, timer_rounds, heights) = d.good_period(bound, suffix == 2).await;
        progress = json!({"ok": ok, "rounds": rounds, "timer_rounds": timer_rounds, "heights": heights, "bound_timer_rounds": bound, "first_expiry_lost": suffix == 2});
        if !ok {
            rep.fail("no_progress", format!("no new block at every correct node within {bound} timer rounds of the good period (heights {heights:?})"),
                json!({"mode": "random", "seed": seed, "steps": steps, "config": cfg, "suffix": suffix}));
        } else {
            // "From any state the system can reach": the state after that block is reachable too. The good period goes on for one block per
            // validator, so that the leadership passes through every validator - the views led by the (silent) faulty ones must be left by
            // timeout certificates assembled from what the caches kept of the adversarial prefix.
            let mut more = 0;
            for k in 0..n {
                let (ok, _r, tr, heights) = d.good_period(bound, false).await;
                if !ok {
                    rep.fail("no_progress", format!("the good period stalls: block {} after the network healed is not committed by every correct node within {bound} timer rounds ({tr} used; heights {heights:?})", k + 2),
                        json!({"mode": "random", "seed": seed, "steps": steps, "config": cfg, "suffix": suffix}));
                    break;
                }
                more += 1;
            }
            progress["further_blocks"] = json!(more);
            rep.add("good_period_further_blocks", more);
        }
    }
    rep.evaluations = d.w.log.len() as u64;
    rep.distinct = d.counts.iter().filter(|(k, _)| k.starts_with("class:")).count() as u64;
    for (k, v) in &d.counts {
        rep.add(k, *v);
    }
    rep.add("stuck", d.w.stuck);
    rep.add("events", d.w.log.len() as u64);
    rep.sample(json!({"config": cfg, "seed": seed, "views_after_prefix": views, "heights_after_prefix": heights_prefix, "progress": progress}));
    if !d.twins.is_empty() {
        // how often the two incarnations of one key really contradicted each other (commit votes of one view for different blocks)
        let mut votes: std::collections::BTreeMap<(Vec<u8>, u64), std::collections::BTreeSet<Vec<u8>>> = Default::default();
        for (tw, _) in d.twins.iter() {
            for v in vcore::bft::commits_in(&tw.emitted) {
                votes.entry((zksync_protobuf::encode(&v.key), v.msg.view.number.0)).or_default().insert(zksync_protobuf::encode(&v.msg.proposal));
            }
        }
        rep.add("twin_commit_equivocations", votes.values().filter(|s| s.len() > 1).count() as u64);
        rep.add("twin_commit_votes", votes.len() as u64);
    }
    d.w.log.write(trace);
    d.w.shutdown().await;
    for (tw, _) in d.twins.iter_mut() {
        tw.shutdown().await;
    }
    rep.write(report);
}

fn main() {
    quiet_panics();
    let a = args();
    let rt = tokio::runtime::Builder::new_current_thread().enable_all().build().unwrap();
    match a[0].as_str() {
        "random" => {
            let (trace, report, seed, steps, cfg) = (&a[1], &a[2], a[3].parse().unwrap(), a[4].parse().unwrap(), &a[5]);
            let suffix: u8 = a.get(6).map(|s| s.parse().unwrap_or(1)).unwrap_or(1);
            let r = catch(|| rt.block_on(run_random(trace, report, seed, steps, cfg, suffix)));
            if let Err(p) = r {
                // a panic of the code under test (or of the harness): report it as data
                let mut rep = Report::default();
                rep.fail("panic", format!("panic during run: {p}"), json!({"mode": "random", "seed": seed, "steps": steps, "config": cfg}));
                rep.write(report);
            }
        }
        "replay" => {
            let r = catch(|| rt.block_on(run_replay(&a[1], &a[2], &a[3])));
            if let Err(p) = r {
                let mut rep = Report::default();
                rep.fail("panic", format!("panic during replay: {p}"), json!({"mode": "replay", "scenario": a[1]}));
                rep.write(&a[3]);
            }
        }
        "io" => {
            let r = catch(|| rt.block_on(run_io(&a[1], &a[2], &a[3])));
            if let Err(p) = r {
                let mut rep = Report::default();
                rep.fail("panic", format!("panic during ReplicaIO replay: {p}"), json!({"mode": "io", "behaviours": a[1]}));
                rep.write(&a[3]);
            }
        }
        _ => panic!("unknown mode"),
    }
}

// ================================================================================================
// Replay of specification behaviours (T2) and weakened-spec attack schedules (T4).
//   bft_drive replay <scenario.json> <trace-out> <report-out>
// scenario: {"config": {"weights": [..], "faulty": [..]}, "init": "view0"|"view1", "acts": [lastAct records], "suffix": bool}
// Abstract messages are materialised: a correct replica's message must have been emitted by its real instance in this
// run (looked up by abstract content); Byzantine ones are built with faulty keys; certificates are aggregated from
// real signatures. Steps that cannot be materialised are skipped and counted.
// ================================================================================================
mod replay {
    use std::collections::HashMap;

    use serde_json::{json, Value};
    use vcore::bft::*;
    use zksync_consensus_roles::validator::{
        self,
        v2::{ChonkyMsg, CommitQC, LeaderProposal, ProposalJustification, ReplicaCommit, ReplicaNewView, ReplicaTimeout, TimeoutQC},
    };

    pub struct Replayer {
        pub w: World,
        pub skipped: u64,
        pub relabelled: u64,
        pub applied: u64,
        pub mismatched_outcome: u64,
        pub tsig_cache: HashMap<String, validator::Signed<ReplicaTimeout>>,
    }

    fn strip_valid(mut v: Value) -> Value {
        if let Some(o) = v.as_object_mut() {
            o.remove("valid");
        }
        v
    }

    impl Replayer {
        fn faulty(&self) -> Vec<usize> {
            self.w.faulty.clone()
        }
        fn find_emitted(&self, abs_msg: &Value) -> Option<SMsg> {
            let want = strip_valid(abs_msg.clone());
            let abs = self.w.abs();
            self.w.emitted.iter().find(|m| strip_valid(abs.msg_abs(m)) == want).cloned()
        }
        fn vote_of(&mut self, v: &Value) -> Option<ReplicaCommit> {
            if v["view"].as_i64()? < 0 {
                return None;
            }
            let p = self.w.labels.payload(v["pay"].as_str()?);
            let c = self.w.c.clone();
            Some(Forge { c: &c }.vote(v["view"].as_u64()?, v["num"].as_u64()?, &p))
        }
        /// A real commit certificate for the abstract vote: signatures emitted by real replicas + faulty keys.
        fn commit_qc(&mut self, v: &Value) -> Option<CommitQC> {
            let vote = self.vote_of(v)?;
            let c = self.w.c.clone();
            let f = Forge { c: &c };
            let mut votes: Vec<_> = commits_in(&self.w.emitted).into_iter().filter(|m| m.msg == vote).collect();
            for b in self.faulty() {
                votes.push(f.commit(b, vote.clone()).cast().unwrap());
            }
            let qc = f.commit_qc(&votes)?;
            if qc.signers.weight(&c.schedule) >= c.quorum() {
                Some(qc)
            } else {
                None
            }
        }
        /// A real timeout certificate whose derived content (by the real high_vote / high_qc) equals the target.
        fn timeout_qc(&mut self, t: &Value) -> Option<TimeoutQC> {
            let view = t["view"].as_u64()?;
            let c = self.w.c.clone();
            let f = Forge { c: &c };
            let correct: Vec<validator::Signed<ReplicaTimeout>> = timeouts_in(&self.w.emitted)
                .into_iter()
                .filter(|m| m.msg.view.number.0 == view && c.pos(&m.key) > 0)
                .collect();
            // candidate reports per signer
            let mut cands: Vec<(usize, Vec<validator::Signed<ReplicaTimeout>>)> = vec![];
            let hvs: Vec<Option<ReplicaCommit>> = {
                let mut v: Vec<Option<ReplicaCommit>> = vec![None];
                for m in &correct {
                    if m.msg.high_vote.is_some() && !v.contains(&m.msg.high_vote) {
                        v.push(m.msg.high_vote.clone());
                    }
                }
                v
            };
            let mut hqs: Vec<Option<CommitQC>> = vec![None];
            if let Some(q) = self.commit_qc(&t["hq"]) {
                hqs.push(Some(q));
            }
            for pos in 1..=c.n() {
                let mut v = vec![];
                if self.faulty().contains(&pos) {
                    for hv in &hvs {
                        for hq in &hqs {
                            let key = format!("{pos}|{view}|{:?}|{}", hv, hq.is_some());
                            let m = self
                                .tsig_cache
                                .entry(key)
                                .or_insert_with(|| f.sign(pos, ChonkyMsg::ReplicaTimeout(ReplicaTimeout { view: c.view(view), high_vote: hv.clone(), high_qc: hq.clone() })).cast().unwrap())
                                .clone();
                            v.push(m);
                        }
                    }
                } else {
                    for m in &correct {
                        if c.pos(&m.key) == pos && !v.iter().any(|x: &validator::Signed<ReplicaTimeout>| x.msg == m.msg) {
                            v.push(m.clone());
                        }
                    }
                }
                if !v.is_empty() {
                    cands.push((pos, v));
                }
            }
            // search signer subsets (bitmask) x report choices
            let k = cands.len();
            let abs_target = t.clone();
            for mask in 1u32..(1 << k) {
                let chosen: Vec<usize> = (0..k).filter(|i| mask & (1 << i) != 0).collect();
                let w: u64 = chosen.iter().map(|i| c.weights[cands[*i].0 - 1]).sum();
                if w < c.quorum() {
                    continue;
                }
                // odometer over choices
                let mut idx = vec![0usize; chosen.len()];
                loop {
                    let votes: Vec<_> = chosen.iter().zip(&idx).map(|(ci, j)| cands[*ci].1[*j].clone()).collect();
                    let qc = f.timeout_qc(view, &votes);
                    let got = Abs { c: &c, l: &self.w.labels }.tq_derived(&qc);
                    if got == abs_target {
                        return Some(qc);
                    }
                    let mut p = 0;
                    loop {
                        if p == idx.len() {
                            break;
                        }
                        idx[p] += 1;
                        if idx[p] < cands[chosen[p]].1.len() {
                            break;
                        }
                        idx[p] = 0;
                        p += 1;
                    }
                    if p == idx.len() {
                        break;
                    }
                }
            }
            None
        }
        fn just(&mut self, j: &Value) -> Option<ProposalJustification> {
            match j["k"].as_str()? {
                "c" => self.commit_qc(&j["cq"]).map(ProposalJustification::Commit),
                "t" => {
                    if let Some(t) = self.timeout_qc(&j["tq"]) {
                        return Some(ProposalJustification::Timeout(t));
                    }
                    // not formable from votes of its own view: a Byzantine sender can still RELABEL a certificate formable for an
                    // earlier view with the same derived content (the aggregate stays genuine); verification must refuse it
                    let view = j["tq"]["view"].as_u64()?;
                    for ov in (0..view).rev() {
                        let mut t = j["tq"].clone();
                        t["view"] = json!(ov);
                        if let Some(mut qc) = self.timeout_qc(&t) {
                            qc.view = self.w.c.view(view);
                            self.relabelled += 1;
                            return Some(ProposalJustification::Timeout(qc));
                        }
                    }
                    None
                }
                _ => None,
            }
        }
        async fn deliver(&mut self, r: usize, m: SMsg, cut: Option<usize>) -> StepResult {
            let res = self.w.step_cut(r, StepKind::Recv(m), cut).await;
            if res.crashed {
                self.w.crash(r).await;
                self.w.step(r, StepKind::Boot).await;
            }
            res
        }

        pub async fn act(&mut self, a: &Value) {
            let name = a["a"].as_str().unwrap_or("");
            let r = a["r"].as_u64().unwrap_or(0) as usize;
            let cut = a["crash"].as_i64().filter(|k| *k >= 0).map(|k| k as usize);
            if name == "init" {
                return;
            }
            if !self.w.nodes.contains_key(&r) {
                self.skipped += 1;
                return;
            }
            let c = self.w.c.clone();
            let f = Forge { c: &c };
            match name {
                "proposal" => {
                    let m = &a["m"];
                    let from = m["from"].as_u64().unwrap() as usize;
                    let msg = if self.faulty().contains(&from) {
                        match self.just(&m["j"]) {
                            Some(j) => {
                                let p = m["p"].as_str().unwrap();
                                let payload = if p == "none" { None } else { Some(self.w.labels.payload(p)) };
                                Some(f.sign(from, ChonkyMsg::LeaderProposal(LeaderProposal { proposal_payload: payload, justification: j })))
                            }
                            None => None,
                        }
                    } else {
                        self.find_emitted(m)
                    };
                    match msg {
                        Some(msg) => {
                            let res = self.deliver(r, msg, cut).await;
                            self.applied += 1;
                            if !res.accepted && !res.crashed {
                                self.mismatched_outcome += 1;
                            }
                        }
                        None => self.skipped += 1,
                    }
                }
                "just" => {
                    // the certificate is assembled locally: deliver the individual votes until the view advances
                    let j = &a["m"]["j"];
                    let before = self.w.snapshot(r).view.0;
                    let target = match j["k"].as_str() {
                        Some("c") => j["cq"]["view"].as_u64().unwrap_or(0) + 1,
                        _ => j["tq"]["view"].as_u64().unwrap_or(0) + 1,
                    };
                    let votes: Vec<SMsg> = match self.just(j) {
                        Some(ProposalJustification::Commit(qc)) => {
                            let mut v: Vec<SMsg> = commits_in(&self.w.emitted).into_iter().filter(|m| m.msg == qc.message).map(|m| m.cast().unwrap()).collect();
                            for b in self.faulty() {
                                v.push(f.commit(b, qc.message.clone()));
                            }
                            v
                        }
                        Some(ProposalJustification::Timeout(tqc)) => {
                            // the signed votes inside the certificate: re-find them (emitted or crafted)
                            let mut v: Vec<SMsg> = vec![];
                            for (msg, signers) in &tqc.map {
                                for (i, b) in signers.0.iter().enumerate() {
                                    if !b {
                                        continue;
                                    }
                                    let pos = i + 1;
                                    if self.faulty().contains(&pos) {
                                        v.push(f.sign(pos, ChonkyMsg::ReplicaTimeout(msg.clone())));
                                    } else if let Some(m) = timeouts_in(&self.w.emitted).into_iter().find(|m| &m.msg == msg && c.pos(&m.key) == pos) {
                                        v.push(m.cast().unwrap());
                                    }
                                }
                            }
                            v
                        }
                        None => vec![],
                    };
                    if votes.is_empty() {
                        self.skipped += 1;
                        return;
                    }
                    let n = votes.len();
                    let mut advanced = false;
                    for (i, m) in votes.into_iter().enumerate() {
                        // the kill point (if any) applies to the step that forms the certificate: we do not know which one it is
                        // in advance, so the cut is applied to every delivery (a cut on a step without output is a plain crash)
                        let last = i + 1 == n;
                        let res = self.deliver(r, m, if last { cut } else { None }).await;
                        let _ = res;
                        if self.w.nodes.contains_key(&r) && self.w.snapshot(r).view.0 >= target && self.w.snapshot(r).view.0 > before {
                            advanced = true;
                            break;
                        }
                    }
                    self.applied += 1;
                    if !advanced {
                        self.mismatched_outcome += 1;
                    }
                }
                "leadernv" => {
                    let m = &a["m"];
                    let from = m["from"].as_u64().unwrap() as usize;
                    let msg = if self.faulty().contains(&from) {
                        self.just(&m["j"]).map(|j| f.sign(from, ChonkyMsg::ReplicaNewView(ReplicaNewView { justification: j })))
                    } else {
                        self.find_emitted(m)
                    };
                    match msg {
                        Some(msg) => {
                            self.deliver(r, msg, None).await;
                            self.applied += 1;
                        }
                        None => self.skipped += 1,
                    }
                }
                "timer" => {
                    let res = self.w.step_cut(r, StepKind::Timer, cut).await;
                    if res.crashed {
                        self.w.crash(r).await;
                        self.w.step(r, StepKind::Boot).await;
                    }
                    self.applied += 1;
                }
                "propose" => {
                    let p = a["m"]["p"].as_str().unwrap_or("none");
                    let name = if p == "none" { "unused" } else { p };
                    if self.w.propose(r, name).await.is_some() {
                        self.applied += 1;
                    } else {
                        self.skipped += 1;
                    }
                }
                "sync" => {
                    let num = a["m"]["num"].as_u64().unwrap();
                    let pay = a["m"]["pay"].as_str().unwrap().to_string();
                    // from another node's store if it holds exactly that block, else build it from a materialised certificate
                    let mut blk = None;
                    for (p, n) in &self.w.nodes {
                        if *p != r {
                            let bs = n.engine.inner().blocks.lock().unwrap();
                            if let Some(validator::Block::FinalV2(b)) = bs.get(num as usize) {
                                if self.w.labels.name(&b.payload.hash()) == pay {
                                    blk = Some(validator::Block::FinalV2(b.clone()));
                                }
                            }
                        }
                    }
                    if blk.is_none() {
                        let votes = commits_in(&self.w.emitted);
                        let views: Vec<u64> = votes.iter().map(|m| m.msg.view.number.0).collect();
                        for v in views {
                            if let Some(qc) = self.commit_qc(&json!({"view": v, "num": num, "pay": pay})) {
                                blk = Some(validator::Block::FinalV2(validator::v2::FinalBlock { payload: self.w.labels.payload(&pay), justification: qc }));
                                break;
                            }
                        }
                    }
                    match blk {
                        Some(b) => {
                            self.w.sync_block(r, b).await;
                            self.applied += 1;
                        }
                        None => self.skipped += 1,
                    }
                }
                "crash" => {
                    self.w.crash(r).await;
                    self.w.step(r, StepKind::Boot).await;
                    self.applied += 1;
                }
                _ => self.skipped += 1,
            }
        }
    }
}

async fn run_replay(scn_path: &str, trace: &str, report: &str) {
    let scn: serde_json::Value = serde_json::from_str(&std::fs::read_to_string(scn_path).unwrap()).unwrap();
    let weights: Vec<u64> = scn["config"]["weights"].as_array().unwrap().iter().map(|x| x.as_u64().unwrap()).collect();
    let faulty: Vec<usize> = scn["config"]["faulty"].as_array().unwrap().iter().map(|x| x.as_u64().unwrap() as usize).collect();
    let mut rep = Report::default();
    let w = World::new(&weights, &faulty, scn["seed"].as_u64().unwrap_or(1)).await;
    let mut d = Driver { w, rng: vcore::rng(1), pool: vec![], seen_emitted: 0, counts: Default::default(), isolated: None, twins: vec![], byz_msgs: vec![] };
    for p in d.real() {
        d.boot(p).await;
    }
    if scn["init"] == "view1" {
        // bootstrap as InitView1: every replica receives everybody's view-0 timeout votes
        d.absorb();
        let t0: Vec<SMsg> = d.pool.clone();
        for p in d.real() {
            for m in &t0 {
                d.deliver(p, m.clone()).await;
            }
        }
        // faulty validators' timeouts may be needed to reach the quorum
        let c = d.w.c.clone();
        let f = Forge { c: &c };
        for b in faulty.clone() {
            let m = f.sign(b, zksync_consensus_roles::validator::v2::ChonkyMsg::ReplicaTimeout(ReplicaTimeout { view: c.view(0), high_vote: None, high_qc: None }));
            for p in d.real() {
                if d.w.snapshot(p).view.0 == 0 {
                    d.deliver(p, m.clone()).await;
                }
            }
        }
    }
    let mut rp = replay::Replayer { w: d.w, skipped: 0, relabelled: 0, applied: 0, mismatched_outcome: 0, tsig_cache: Default::default() };
    for a in scn["acts"].as_array().unwrap() {
        rp.act(a).await;
    }
    let (skipped, applied, mism) = (rp.skipped, rp.applied, rp.mismatched_outcome);
    let relabelled = rp.relabelled;
    d.w = rp.w;
    d.seen_emitted = 0;
    d.pool.clear();
    d.absorb();
    let mut progress = json!(null);
    if scn["suffix"].as_bool().unwrap_or(true) {
        let bound = 2 * (faulty.len() as u32 + 3) + d.w.c.n() as u32;
        let (ok, rounds, timer_rounds, heights) = d.good_period(bound, scn["lossy_first_expiry"].as_bool().unwrap_or(false)).await;
        progress = json!({"ok": ok, "rounds": rounds, "timer_rounds": timer_rounds, "heights": heights});
        if !ok {
            rep.fail("no_progress", format!("no new block at every correct node within {bound} timer rounds of the good period (heights {heights:?})"),
                json!({"mode": "replay", "scenario": scn_path}));
        }
    }
    rep.evaluations = d.w.log.len() as u64;
    rep.distinct = applied;
    rep.add("applied", applied);
    rep.add("skipped", skipped);
    rep.add("relabelled_certificates", relabelled);
    rep.add("outcome_differs", mism);
    rep.add("events", d.w.log.len() as u64);
    rep.add("stuck", d.w.stuck);
    rep.sample(json!({"scenario": scn_path, "applied": applied, "skipped": skipped, "progress": progress, "heights": d.heights()}));
    if !d.twins.is_empty() {
        // how often the two incarnations of one key really contradicted each other (commit votes of one view for different blocks)
        let mut votes: std::collections::BTreeMap<(Vec<u8>, u64), std::collections::BTreeSet<Vec<u8>>> = Default::default();
        for (tw, _) in d.twins.iter() {
            for v in vcore::bft::commits_in(&tw.emitted) {
                votes.entry((zksync_protobuf::encode(&v.key), v.msg.view.number.0)).or_default().insert(zksync_protobuf::encode(&v.msg.proposal));
            }
        }
        rep.add("twin_commit_equivocations", votes.values().filter(|s| s.len() > 1).count() as u64);
        rep.add("twin_commit_votes", votes.len() as u64);
    }
    d.w.log.write(trace);
    d.w.shutdown().await;
    for (tw, _) in d.twins.iter_mut() {
        tw.shutdown().await;
    }
    rep.write(report);
}

// ================================================================================================
// Replay of ReplicaIO.tla behaviours (T2 for C05): one real replica (validator 1 of six unit-weight validators); every
// other validator is played by the harness with its key (declared faulty in the trace header), so any certificate is
// constructible from real signatures.
//   bft_drive io <behaviours.ndjson> <trace-out> <report-out>
// ================================================================================================
mod io_replay {
    use serde_json::Value;
    use vcore::bft::*;
    use zksync_consensus_roles::validator::{
        self,
        v2::{ChonkyMsg, CommitQC, LeaderProposal, ProposalJustification, ReplicaCommit, ReplicaNewView, ReplicaTimeout},
    };

    pub const SELF: usize = 1;

    fn vote_of(w: &mut World, v: &Value) -> Option<ReplicaCommit> {
        if v["view"].as_i64()? < 0 {
            return None;
        }
        let p = w.labels.payload(v["pay"].as_str()?);
        let c = w.c.clone();
        Some(Forge { c: &c }.vote(v["view"].as_u64()?, v["num"].as_u64()?, &p))
    }
    /// certificate signed by the other validators: all five (a quorum) or only four ("weak")
    fn qc_of(w: &mut World, v: &Value, weak: bool) -> Option<CommitQC> {
        let vote = vote_of(w, v)?;
        let c = w.c.clone();
        let f = Forge { c: &c };
        let signers: Vec<usize> = if weak { vec![2, 3, 4, 5] } else { vec![2, 3, 4, 5, 6] };
        let votes: Vec<_> = signers.iter().map(|p| f.commit(*p, vote.clone()).cast().unwrap()).collect();
        f.commit_qc(&votes)
    }
    fn just_of(w: &mut World, j: &Value, weak: bool) -> Option<ProposalJustification> {
        match j["k"].as_str()? {
            "c" => qc_of(w, &j["cq"], weak).map(ProposalJustification::Commit),
            "t" => {
                let t = &j["tq"];
                let view = t["view"].as_u64()?;
                let c = w.c.clone();
                let f = Forge { c: &c };
                // three signers (= sub-quorum) report the high vote, one of them also the high certificate
                let hv = if t["hvh"]["num"].as_i64()? >= 0 {
                    let p = w.labels.payload(t["hvh"]["pay"].as_str()?);
                    Some(f.vote(view, t["hvh"]["num"].as_u64()?, &p))
                } else {
                    None
                };
                let hq = qc_of(w, &t["hq"], false);
                let signers: Vec<usize> = if weak { vec![2, 3, 4, 5] } else { vec![2, 3, 4, 5, 6] };
                let mut votes = vec![];
                for (i, s) in signers.iter().enumerate() {
                    let m = ReplicaTimeout { view: c.view(view), high_vote: if i < 3 { hv.clone() } else { None }, high_qc: if i == 0 { hq.clone() } else { None } };
                    votes.push(f.sign(*s, ChonkyMsg::ReplicaTimeout(m)).cast().unwrap());
                }
                Some(ProposalJustification::Timeout(f.timeout_qc(view, &votes)))
            }
            _ => None,
        }
    }

    pub async fn act(w: &mut World, a: &Value) -> bool {
        use zksync_consensus_crypto::ByteFmt;
        match a["a"].as_str().unwrap_or("") {
            "timer" => {
                w.step(SELF, StepKind::Timer).await;
                true
            }
            "crash" => {
                w.crash(SELF).await;
                w.step(SELF, StepKind::Boot).await;
                true
            }
            "sync" => {
                let pay = a["pay"].as_str().unwrap().to_string();
                let num = a["num"].as_u64().unwrap();
                let Some(qc) = qc_of(w, &serde_json::json!({"view": 0, "num": num, "pay": pay}), false) else { return false };
                let b = validator::Block::FinalV2(validator::v2::FinalBlock { payload: w.labels.payload(&pay), justification: qc });
                w.sync_block(SELF, b).await;
                true
            }
            "recv" => {
                let m = &a["m"];
                let c = w.c.clone();
                let f = Forge { c: &c };
                let from = m["from"].as_u64().unwrap() as usize;
                let inv = m["inv"].as_str().unwrap_or("none");
                let weak = inv == "weak";
                let inner = match m["t"].as_str().unwrap() {
                    "commit" => vote_of(w, &m["vote"]).map(ChonkyMsg::ReplicaCommit),
                    "timeout" => {
                        let hv = vote_of(w, &m["hv"]);
                        let hq = qc_of(w, &m["hq"], false);
                        Some(ChonkyMsg::ReplicaTimeout(ReplicaTimeout { view: c.view(m["view"].as_u64().unwrap()), high_vote: hv, high_qc: hq }))
                    }
                    "newview" => just_of(w, &m["j"], weak).map(|j| ChonkyMsg::ReplicaNewView(ReplicaNewView { justification: j })),
                    "proposal" => {
                        let p = m["p"].as_str().unwrap();
                        let payload = if p == "none" { None } else { Some(w.labels.payload(p)) };
                        just_of(w, &m["j"], weak).map(|j| ChonkyMsg::LeaderProposal(LeaderProposal { proposal_payload: payload, justification: j }))
                    }
                    _ => None,
                };
                let Some(inner) = inner else { return false };
                let mut msg = f.sign(from, inner);
                if inv == "sig" {
                    // signature of another message by the same key
                    let p = w.labels.payload("zz");
                    msg.sig = f.commit(from, f.vote(77, 0, &p)).sig;
                    w.labels.forged_sig.insert(ByteFmt::encode(&msg.sig));
                }
                let r = w.step(SELF, StepKind::Recv(msg)).await;
                if r.crashed {
                    w.crash(SELF).await;
                    w.step(SELF, StepKind::Boot).await;
                }
                r.accepted == a["ok"].as_bool().unwrap_or(r.accepted)
            }
            _ => false,
        }
    }
}

async fn run_io(beh_path: &str, trace: &str, report: &str) {
    let mut rep = Report::default();
    let mut all: Vec<serde_json::Value> = vec![];
    let mut outcome_differs = 0u64;
    let mut steps = 0u64;
    for (i, beh) in read_cases(beh_path).into_iter().enumerate() {
        let mut w = World::new(&[1, 1, 1, 1, 1, 1], &[2, 3, 4, 5, 6], 1).await;
        w.step(io_replay::SELF, StepKind::Boot).await;
        for a in beh.as_array().unwrap() {
            steps += 1;
            if !io_replay::act(&mut w, a).await {
                outcome_differs += 1;
            }
        }
        let evs = w.log.take();
        for (k, e) in evs.into_iter().enumerate() {
            if k == 0 {
                if i == 0 {
                    all.push(e);
                } else {
                    all.push(json!({"e": "reset"}));
                }
            } else {
                all.push(e);
            }
        }
        w.shutdown().await;
        rep.distinct += 1;
    }
    rep.evaluations = steps;
    rep.add("outcome_differs", outcome_differs);
    rep.add("events", all.len() as u64);
    rep.sample(json!({"behaviours": rep.distinct, "steps": steps}));
    let log = vcore::log::EventLog::new();
    for e in all {
        log.emit(e);
    }
    log.write(trace);
    rep.write(report);
}

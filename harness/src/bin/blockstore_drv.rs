//! C08 (T1): seeded driver of the real `EngineManager` + `EngineManagerRunner` over a harness `EngineInterface` whose
//! persistence is scheduled by the driver (completes a write, jumps ahead through a side channel, prunes, restarts).
//! Concurrent `queue_block` callers offer in-order / out-of-order / duplicate / conflicting / invalid blocks.
//! Events are logged at the public API boundary; `quiet` events carry everything observable at quiescence.
//!   blockstore_drv <trace-out> <report-out> <seed> <steps> <max-number>
use std::{
    collections::BTreeMap,
    sync::{Arc, Mutex},
};

use anyhow::Context as _;
use rand::Rng;
use serde_json::json;
use vcore::{bft::Committee, log::EventLog, *};
use zksync_concurrency::{ctx, scope, sync, time};
use zksync_consensus_engine::{BlockStoreState, EngineInterface, EngineManager, Last, Transaction};
use zksync_consensus_roles::validator::{self, Block, BlockNumber, Justification, Payload, PreGenesisBlock};

const FIRST_CONSENSUS_BLOCK: u64 = 100_000;

#[derive(Debug)]
struct Inner {
    genesis: validator::Genesis,
    persisted: sync::watch::Sender<BlockStoreState>,
    /// durable blocks by number
    blocks: Mutex<BTreeMap<u64, Block>>,
    /// handed by queue_next_block, durable write not completed yet
    inflight: Mutex<BTreeMap<u64, Block>>,
    handed: Mutex<Vec<u64>>,
}

#[derive(Debug, Clone)]
struct StoreEngine(Arc<Inner>);

fn blk(n: u64, id: u64) -> Block {
    // id 9.. = invalid (the external justification does not check out)
    Block::PreGenesis(PreGenesisBlock { number: BlockNumber(n), payload: Payload(format!("b{n}-{id}").into_bytes()), justification: Justification(vec![id as u8]) })
}
fn id_of(b: &Block) -> u64 {
    match b {
        Block::PreGenesis(b) => b.justification.0[0] as u64,
        _ => 0,
    }
}

#[async_trait::async_trait]
impl EngineInterface for StoreEngine {
    async fn genesis(&self, _ctx: &ctx::Ctx) -> ctx::Result<validator::Genesis> {
        Ok(self.0.genesis.clone())
    }
    async fn get_validator_schedule(&self, _ctx: &ctx::Ctx, _n: BlockNumber) -> ctx::Result<(validator::Schedule, BlockNumber)> {
        Ok((self.0.genesis.validators_schedule.clone().unwrap(), self.0.genesis.first_block))
    }
    async fn get_pending_validator_schedule(&self, _ctx: &ctx::Ctx, _n: BlockNumber) -> ctx::Result<Option<(validator::Schedule, BlockNumber)>> {
        Ok(None)
    }
    fn persisted(&self) -> sync::watch::Receiver<BlockStoreState> {
        self.0.persisted.subscribe()
    }
    async fn get_block(&self, _ctx: &ctx::Ctx, number: BlockNumber) -> ctx::Result<Block> {
        Ok(self.0.blocks.lock().unwrap().get(&number.0).context("not found")?.clone())
    }
    async fn queue_next_block(&self, _ctx: &ctx::Ctx, block: Block) -> ctx::Result<()> {
        self.0.handed.lock().unwrap().push(block.number().0);
        self.0.inflight.lock().unwrap().insert(block.number().0, block);
        Ok(())
    }
    async fn verify_pregenesis_block(&self, _ctx: &ctx::Ctx, b: &PreGenesisBlock) -> ctx::Result<()> {
        if b.justification.0.first().copied().unwrap_or(9) >= 9 {
            return Err(anyhow::format_err!("invalid pre-genesis block").into());
        }
        Ok(())
    }
    async fn verify_payload(&self, _ctx: &ctx::Ctx, _n: BlockNumber, _p: &Payload) -> ctx::Result<()> {
        Ok(())
    }
    async fn propose_payload(&self, _ctx: &ctx::Ctx, _n: BlockNumber) -> ctx::Result<Payload> {
        Ok(Payload(vec![]))
    }
    async fn get_state(&self, _ctx: &ctx::Ctx) -> ctx::Result<validator::ReplicaState> {
        Ok(validator::ReplicaState::default())
    }
    async fn set_state(&self, _ctx: &ctx::Ctx, _s: &validator::ReplicaState) -> ctx::Result<()> {
        Ok(())
    }
    async fn push_tx(&self, _ctx: &ctx::Ctx, _tx: Transaction) -> ctx::Result<bool> {
        Ok(false)
    }
}

async fn settle() {
    for _ in 0..60 {
        tokio::task::yield_now().await;
    }
}

struct Incarnation {
    manager: Arc<EngineManager>,
    stop: Option<tokio::sync::oneshot::Sender<()>>,
    runner: tokio::task::JoinHandle<()>,
}

async fn start(root: &ctx::Ctx, engine: &StoreEngine) -> Incarnation {
    let (manager, runner) = EngineManager::new(root, Box::new(engine.clone()), time::Duration::seconds(3600)).await.unwrap();
    let rc = root.with_deadline(time::Deadline::Infinite);
    let (stop_tx, stop_rx) = tokio::sync::oneshot::channel::<()>();
    let handle = tokio::spawn(async move {
        let _: Result<(), ctx::Error> = scope::run!(&rc, |ctx, s| async move {
            s.spawn_bg(async move {
                let _ = runner.run(ctx).await;
                Ok(())
            });
            let _ = stop_rx.await;
            Ok(())
        })
        .await;
    });
    Incarnation { manager, stop: Some(stop_tx), runner: handle }
}

async fn run(trace: &str, report: &str, seed: u64, steps: u64, maxn: u64, bulk: bool, burst0: bool) {
    let clock = ctx::ManualClock::new();
    let root = ctx::test_root(&clock);
    let c = Committee::new(&[1], 3);
    let genesis = validator::GenesisRaw {
        chain_id: validator::ChainId(1),
        fork_number: validator::ForkNumber(0),
        protocol_version: validator::ProtocolVersion::CURRENT,
        first_block: BlockNumber(FIRST_CONSENSUS_BLOCK),
        validators_schedule: Some(c.schedule.clone()),
    }
    .with_hash();
    let engine = StoreEngine(Arc::new(Inner {
        genesis,
        persisted: sync::watch::channel(BlockStoreState { first: BlockNumber(0), last: None }).0,
        blocks: Mutex::default(),
        inflight: Mutex::default(),
        handed: Mutex::default(),
    }));
    let log = Arc::new(EventLog::new());
    log.emit(json!({"e": "header", "maxn": maxn, "ids": [1, 2, 9], "bad": [9]}));
    let mut rng = vcore::rng(seed);
    let mut rep = Report::default();
    let mut inc = start(&root, &engine).await;
    // in-flight queue_block calls: call id -> (n, id)
    let calls: Arc<Mutex<BTreeMap<u64, (u64, u64)>>> = Default::default();
    let returns: Arc<Mutex<Vec<serde_json::Value>>> = Default::default();
    let mut call_handles: Vec<(u64, tokio::sync::oneshot::Sender<()>, tokio::task::JoinHandle<()>)> = vec![];
    let mut next_call = 0u64;
    let mut counts: BTreeMap<&str, u64> = BTreeMap::new();
    for _ in 0..steps {
        // bulk profile: long in-order runs with lagging persistence and no restarts, so that the in-memory cache crosses
        // its capacity with unpersisted blocks in it
        let q = inc.manager.queued();
        let qn = q.next().0;
        // burst0 profile: the store is EMPTY (nothing durable yet, first block 0) while more blocks than the cache capacity are queued in order
        let burst_phase = burst0 && qn < 135 && engine.0.persisted.borrow().last.is_none();
        let x = if burst_phase { 0 } else if bulk { let y = rng.gen_range(0..100); if y < 80 { 0 } else if y < 97 { 50 } else { 72 } } else { rng.gen_range(0..100) };
        if x < 45 {
            // offer a block: mostly around the head of the queue, sometimes far ahead / behind, sometimes invalid or conflicting
            let n = if burst_phase { qn } else { match if bulk { rng.gen_range(0..12).min(9) % 10 } else { rng.gen_range(0..10) } {
                0..=4 => qn,
                5 | 6 => qn + rng.gen_range(1..3),
                7 => qn.saturating_sub(rng.gen_range(1..3)),
                _ => rng.gen_range(0..=maxn),
            }
            .min(maxn) };
            let id = if burst_phase { 1 } else { match rng.gen_range(0..10) { 0..=5 => 1, 6 | 7 => 2, _ => 9 } };
            next_call += 1;
            let cid = next_call;
            calls.lock().unwrap().insert(cid, (n, id));
            log.emit(json!({"e": "offer", "call": cid, "n": n, "id": id}));
            let (stx, srx) = tokio::sync::oneshot::channel::<()>();
            let (mgr, calls2, returns2) = (inc.manager.clone(), calls.clone(), returns.clone());
            let rc = root.with_deadline(time::Deadline::Infinite);
            let h = tokio::spawn(async move {
                let _: Result<(), ctx::Error> = scope::run!(&rc, |ctx, s| async move {
                    s.spawn_bg(async move {
                        let r = mgr.queue_block(ctx, blk(n, id)).await;
                        if !matches!(r, Err(ctx::Error::Canceled(_))) {
                            calls2.lock().unwrap().remove(&cid);
                            returns2.lock().unwrap().push(json!({"call": cid, "n": n, "id": id, "ok": r.is_ok()}));
                        }
                        Ok(())
                    });
                    let _ = srx.await;
                    Ok(())
                })
                .await;
            });
            call_handles.push((cid, stx, h));
            *counts.entry("offer").or_default() += 1;
        } else if x < 70 {
            // complete the oldest durable write in flight
            let first = engine.0.inflight.lock().unwrap().keys().next().copied();
            if let Some(n) = first {
                let b = engine.0.inflight.lock().unwrap().remove(&n).unwrap();
                let want = engine.0.persisted.borrow().next().0;
                if n == want {
                    log.emit(json!({"e": "persist_done", "n": n}));
                    engine.0.blocks.lock().unwrap().insert(n, b.clone());
                    engine.0.persisted.send_modify(|p| p.last = Some(Last::from(&b)));
                    *counts.entry("persist_done").or_default() += 1;
                } else if n > want {
                    engine.0.inflight.lock().unwrap().insert(n, b); // not yet its turn
                }
            }
        } else if x < 78 {
            // side channel: storage jumps ahead
            let pn = engine.0.persisted.borrow().next().0;
            let m = (pn + rng.gen_range(1..4)).min(maxn);
            if m > pn {
                let mut ids = serde_json::Map::new();
                for n in pn..m {
                    // the side channel delivers THE block of that number: the one this node already accepted, if any
                    let known = match inc.manager.get_block(&root, BlockNumber(n)).await {
                        Ok(Some(b)) => Some(b),
                        _ => engine.0.inflight.lock().unwrap().get(&n).cloned(),
                    };
                    let b = known.unwrap_or_else(|| blk(n, 2));
                    ids.insert(n.to_string(), json!(id_of(&b)));
                    engine.0.blocks.lock().unwrap().entry(n).or_insert(b);
                }
                let actual: Vec<u64> = (pn..m).map(|n| id_of(&engine.0.blocks.lock().unwrap()[&n])).collect();
                log.emit(json!({"e": "side_jump", "m": m, "from": pn, "ids": actual}));
                let last = engine.0.blocks.lock().unwrap()[&(m - 1)].clone();
                engine.0.persisted.send_modify(|p| p.last = Some(Last::from(&last)));
                engine.0.inflight.lock().unwrap().retain(|k, _| *k >= m);
                *counts.entry("side_jump").or_default() += 1;
            }
        } else if x < 84 {
            // prune
            let (pf, pn) = { let p = engine.0.persisted.borrow(); (p.first.0, p.next().0) };
            if pn > pf + 1 {
                let k = rng.gen_range(pf + 1..pn);
                log.emit(json!({"e": "prune", "k": k}));
                engine.0.blocks.lock().unwrap().retain(|n, _| *n >= k);
                engine.0.persisted.send_modify(|p| p.first = BlockNumber(k));
                *counts.entry("prune").or_default() += 1;
            }
        } else if x < 88 {
            // restart from the durable state: the manager (cache, queue) is lost, in-flight calls die, unfinished writes are lost
            for (_, s, h) in std::mem::take(&mut call_handles) {
                let _ = s.send(());
                let _ = h.await;
            }
            calls.lock().unwrap().clear();
            if let Some(s) = inc.stop.take() {
                let _ = s.send(());
            }
            let _ = (&mut inc.runner).await;
            engine.0.inflight.lock().unwrap().clear();
            engine.0.handed.lock().unwrap().clear();
            log.emit(json!({"e": "restart"}));
            inc = start(&root, &engine).await;
            *counts.entry("restart").or_default() += 1;
        }
        settle().await;
        // observe
        let (q, p) = (inc.manager.queued(), inc.manager.persisted());
        let mut ids = vec![];
        for n in q.first.0..q.next().0 {
            let r = inc.manager.get_block(&root, BlockNumber(n)).await;
            ids.push(match r {
                Ok(Some(b)) => json!({"n": n, "id": id_of(&b)}),
                Ok(None) => json!({"n": n, "id": 0}),
                Err(_) => json!({"n": n, "id": 0}),
            });
        }
        let pend: Vec<serde_json::Value> = calls.lock().unwrap().iter().map(|(c, (n, id))| json!({"call": c, "n": n, "id": id})).collect();
        log.emit(json!({"e": "quiet", "qfirst": q.first.0, "qnext": q.next().0, "pfirst": p.first.0, "pnext": p.next().0,
            "blocks": ids, "handed": engine.0.handed.lock().unwrap().clone(), "returns": std::mem::take(&mut *returns.lock().unwrap()), "pending": pend}));
    }
    for (k, v) in counts {
        rep.add(k, v);
    }
    rep.evaluations = log.len() as u64;
    rep.distinct = steps;
    rep.sample(json!({"seed": seed, "steps": steps, "maxn": maxn, "final_queued_next": inc.manager.queued().next().0}));
    log.write(trace);
    for (_, s, h) in call_handles {
        let _ = s.send(());
        let _ = h.await;
    }
    if let Some(s) = inc.stop.take() {
        let _ = s.send(());
    }
    let _ = (&mut inc.runner).await;
    rep.write(report);
}

fn main() {
    quiet_panics();
    let a = args();
    let rt = tokio::runtime::Builder::new_current_thread().enable_all().build().unwrap();
    let (seed, steps, maxn) = (a[2].parse().unwrap(), a[3].parse().unwrap(), a[4].parse().unwrap());
    let burst0 = a.get(5).map(|x| x == "burst0").unwrap_or(false);
    let bulk = burst0 || a.get(5).map(|x| x == "bulk").unwrap_or(false);
    let r = catch(|| rt.block_on(run(&a[0], &a[1], seed, steps, maxn, bulk, burst0)));
    if let Err(p) = r {
        let mut rep = Report::default();
        rep.fail("panic", format!("panic: {p}"), json!({"seed": seed, "steps": steps}));
        rep.write(&a[1]);
    }
}

//! C12 (T2): (a) handshake message classes enumerated by Handshake.tla materialised on real noise sessions over loopback
//! TCP against the real gossip / validator handshake functions (+ validator pool admission); (b) Pool.tla operation
//! sequences replayed on the real PoolWatch, plus a multi-threaded stress with a quota-consistency probe.
//!   conn_replay handshake <cases.ndjson> <report.json>
//!   conn_replay pool <cases.ndjson> <report.json> <seed>
use std::collections::{HashMap, HashSet};

use rand::{Rng, SeedableRng};
use serde_json::{json, Value};
use vcore::{bft::Committee, *};
use zksync_concurrency::{ctx, net, time};
use zksync_consensus_network::{consensus, gossip, verif as nv, Config, GossipConfig, RpcConfig};
use zksync_consensus_roles::{node, validator};

fn net_config(key: node::SecretKey) -> Config {
    Config {
        build_version: None,
        server_addr: net::tcp::testonly::reserve_listener(),
        public_addr: "127.0.0.1:1".parse::<std::net::SocketAddr>().unwrap().into(),
        gossip: GossipConfig { key, dynamic_inbound_limit: 10, static_inbound: HashSet::new(), static_outbound: HashMap::new() },
        validator_key: None,
        max_block_size: 1 << 20,
        max_tx_size: 1 << 20,
        ping_timeout: None,
        tcp_accept_rate: zksync_concurrency::limiter::Rate::INF,
        rpc: RpcConfig::default(),
        max_block_queue_size: 10,
    }
}

async fn handshake_case(case: &Value, c: &Committee, other_genesis: validator::GenesisHash, nkeys: &HashMap<&str, node::SecretKey>, vkeys: &HashMap<&str, validator::SecretKey>) -> Result<(bool, String), String> {
    let clock = ctx::RealClock;
    let root = ctx::test_root(&clock);
    let ctx = &root.with_timeout(time::Duration::seconds(20));
    let kind = case["kind"].as_str().unwrap();
    let m = &case["m"];
    let (claimed, signer) = (m["key"].as_str().unwrap(), m["sig"].as_str().unwrap());
    let genesis = c.genesis.hash();
    let msg_genesis = if m["genesis"] == "g" { genesis } else { other_genesis };
    let (mut cli, mut srv) = nv::tcp_noise_pair(ctx).await.map_err(|e| format!("{e:?}"))?;
    let this_sid = cli.id();
    // session id the attacker's message talks about: this session, or another (a transcript recorded elsewhere)
    let sid_bytes = if m["sid"].as_u64().unwrap() == 1 { this_sid.clone() } else { let mut x = this_sid.clone(); x[0] ^= 0x5a; x };
    let sid = node::SessionId(sid_bytes);
    let inbound = kind.ends_with("_in");
    // the endpoint under test is identity "a"; the harness plays the other end
    if kind.starts_with("gossip") {
        let mut signed = nkeys[signer].sign_msg(sid.clone());
        signed.key = nkeys[claimed].public();
        let bytes = gossip::verif::handshake_bytes(signed, msg_genesis, false);
        let cfg = net_config(nkeys["a"].clone());
        if inbound {
            let (res, _) = tokio::join!(gossip::verif::handshake_inbound(ctx, &cfg, genesis, &mut srv), async {
                let _ = nv::send_raw_frame(ctx, &mut cli, &bytes).await;
            });
            Ok(match res { Ok(k) => (true, name_of_node(nkeys, &k)), Err(_) => (false, String::new()) })
        } else {
            let dialled = nkeys["b"].public();
            let (res, _) = tokio::join!(gossip::verif::handshake_outbound(ctx, &cfg, genesis, &mut cli, &dialled), async {
                let _ = nv::send_raw_frame(ctx, &mut srv, &bytes).await;
            });
            Ok(match res { Ok(k) => (true, name_of_node(nkeys, &k)), Err(_) => (false, String::new()) })
        }
    } else {
        let mut signed = vkeys[signer].sign_msg(sid.clone());
        signed.key = vkeys[claimed].public();
        let claimed_pk = signed.key.clone();
        let bytes = consensus::verif::handshake_bytes(signed, msg_genesis);
        let me = vkeys["a"].clone();
        if inbound {
            let (res, _) = tokio::join!(consensus::verif::handshake_inbound(ctx, &me, genesis, &mut srv), async {
                let _ = nv::send_raw_frame(ctx, &mut cli, &bytes).await;
            });
            match res {
                Err(_) => Ok((false, String::new())),
                Ok(k) => {
                    // admission to the validator network: pool of committee keys with zero extra quota (consensus/mod.rs:145-151)
                    use zksync_consensus_crypto::TextFmt;
                    let allowed: HashSet<String> = ["a", "b"].iter().map(|n| TextFmt::encode(&vkeys[*n].public())).collect();
                    let pool = nv::Pool::new(allowed, 0);
                    let admitted = pool.insert(TextFmt::encode(&k), 1).await.is_ok();
                    Ok((admitted, name_of_val(vkeys, &k)))
                }
            }
        } else {
            let dialled = vkeys["b"].public();
            let (res, _) = tokio::join!(consensus::verif::handshake_outbound(ctx, &me, genesis, &mut cli, &dialled), async {
                let _ = nv::send_raw_frame(ctx, &mut srv, &bytes).await;
            });
            Ok(match res { Ok(()) => (true, name_of_val(vkeys, &claimed_pk)), Err(_) => (false, String::new()) })
        }
    }
}

fn name_of_node(nkeys: &HashMap<&str, node::SecretKey>, k: &node::PublicKey) -> String {
    nkeys.iter().find(|(_, v)| &v.public() == k).map(|(n, _)| n.to_string()).unwrap_or("?".into())
}
fn name_of_val(vkeys: &HashMap<&str, validator::SecretKey>, k: &validator::PublicKey) -> String {
    vkeys.iter().find(|(_, v)| &v.public() == k).map(|(n, _)| n.to_string()).unwrap_or("?".into())
}

fn main() {
    quiet_panics();
    let a = args();
    let mut rep = Report::default();
    match a[0].as_str() {
        "handshake" => {
            let rt = tokio::runtime::Builder::new_multi_thread().worker_threads(2).enable_all().build().unwrap();
            let c = Committee::new(&[1, 1], 41);
            let other = Committee::new(&[1, 1, 1], 42).genesis.hash();
            let mut r = rand::rngs::StdRng::seed_from_u64(77);
            let nkeys: HashMap<&str, node::SecretKey> = ["a", "b", "m", "o"].iter().map(|n| (*n, r.gen())).collect();
            let mut vkeys: HashMap<&str, validator::SecretKey> = HashMap::new();
            vkeys.insert("a", c.keys[0].clone());
            vkeys.insert("b", c.keys[1].clone());
            vkeys.insert("m", c.outsider.clone());
            vkeys.insert("o", r.gen());
            for case in read_cases(&a[1]) {
                rep.evaluations += 1;
                rep.distinct += 1;
                let res = catch(|| rt.block_on(handshake_case(&case, &c, other, &nkeys, &vkeys)));
                let tag = json!({"mode": "handshake", "case": case});
                match res {
                    Err(p) => rep.fail("handshake_panic", format!("panic: {p}"), tag),
                    Ok(Err(e)) => rep.fail("handshake_harness_error", e, tag),
                    Ok(Ok((accepted, who))) => {
                        let want = case["accept"].as_bool().unwrap();
                        if accepted && !want {
                            rep.fail("handshake_accepts_unauthenticated", format!("{} endpoint attributed the connection to {who:?} on a message the specification refuses", case["kind"]), tag);
                        } else if !accepted && want {
                            rep.fail("handshake_rejects_authentic", format!("{} endpoint refused an authentic, expected peer", case["kind"]), tag);
                        } else if accepted && who != case["attributed"].as_str().unwrap() {
                            rep.fail("handshake_wrong_identity", format!("connection attributed to {who}, specification says {}", case["attributed"]), tag);
                        }
                    }
                }
                if rep.evaluations % 37 == 1 {
                    rep.sample(case.clone());
                }
            }
        }
        "pool" => {
            let rt = tokio::runtime::Builder::new_multi_thread().worker_threads(4).enable_all().build().unwrap();
            for case in read_cases(&a[1]) {
                rep.evaluations += 1;
                rep.distinct += 1;
                let ops = case["ops"].as_array().unwrap().clone();
                let res = catch(|| {
                    rt.block_on(async {
                        let pool = nv::Pool::new(["a".to_string()].into_iter().collect(), 1);
                        let mut results = vec![];
                        for op in &ops {
                            let k = op["k"].as_str().unwrap().to_string();
                            if op["op"] == "insert" {
                                results.push(pool.insert(k, 1).await.is_ok());
                            } else {
                                pool.remove(&k).await;
                                results.push(true);
                            }
                        }
                        let cur: Vec<String> = pool.current().into_iter().map(|x| x.0).collect();
                        (results, cur)
                    })
                });
                let tag = json!({"mode": "pool", "case": case});
                match res {
                    Err(p) => rep.fail("pool_panic", format!("panic: {p}"), tag),
                    Ok((results, cur)) => {
                        let want: Vec<bool> = ops.iter().map(|o| o["ok"].as_bool().unwrap()).collect();
                        let mut fin: Vec<String> = case["final"].as_array().unwrap().iter().map(|x| x.as_str().unwrap().to_string()).collect();
                        fin.sort();
                        if results != want {
                            rep.fail("pool_result_mismatch", format!("insert results {results:?}, specification {want:?}"), tag);
                        } else if cur != fin {
                            rep.fail("pool_state_mismatch", format!("pool content {cur:?}, specification {fin:?}"), tag);
                        }
                    }
                }
                if rep.evaluations % 1999 == 1 {
                    rep.sample(case.clone());
                }
            }
            // concurrent stress: many tasks insert/remove; afterwards the quota must be fully available again
            let seed: u64 = a.get(3).map(|s| s.parse().unwrap()).unwrap_or(1);
            let stress = catch(|| {
                rt.block_on(async {
                    let pool = std::sync::Arc::new(nv::Pool::new(["a".to_string(), "b".to_string()].into_iter().collect(), 2));
                    let mut hs = vec![];
                    for t in 0..8u64 {
                        let pool = pool.clone();
                        hs.push(tokio::spawn(async move {
                            let mut r = rand::rngs::StdRng::seed_from_u64(seed * 100 + t);
                            let mut max_extra = 0usize;
                            for _ in 0..400 {
                                let k = ["a", "b", "x", "y", "z", "w"][r.gen_range(0..6)].to_string();
                                if r.gen_bool(0.6) {
                                    let _ = pool.insert(k, t).await;
                                } else {
                                    pool.remove(&k).await;
                                }
                                let cur = pool.current();
                                let extra = cur.iter().filter(|(k, _)| k != "a" && k != "b").count();
                                max_extra = max_extra.max(extra);
                                tokio::task::yield_now().await;
                            }
                            max_extra
                        }));
                    }
                    let mut max_extra = 0;
                    for h in hs {
                        max_extra = max_extra.max(h.await.unwrap());
                    }
                    for k in ["a", "b", "x", "y", "z", "w"] {
                        pool.remove(&k.to_string()).await;
                    }
                    // probe: exactly `limit` (2) extra keys fit again
                    let r1 = pool.insert("x".into(), 0).await.is_ok();
                    let r2 = pool.insert("y".into(), 0).await.is_ok();
                    let r3 = pool.insert("z".into(), 0).await.is_ok();
                    (max_extra, r1, r2, r3)
                })
            });
            rep.evaluations += 1;
            match stress {
                Err(p) => rep.fail("pool_panic", format!("panic in concurrent stress: {p}"), json!({"mode": "pool_stress", "seed": seed})),
                Ok((max_extra, r1, r2, r3)) => {
                    if max_extra > 2 {
                        rep.fail("pool_quota_exceeded", format!("{max_extra} non-configured peers connected at once, quota is 2"), json!({"mode": "pool_stress", "seed": seed}));
                    }
                    if !(r1 && r2 && !r3) {
                        rep.fail("pool_quota_leak", format!("after removing everything the quota admits ({r1},{r2},{r3}) instead of (true,true,false)"), json!({"mode": "pool_stress", "seed": seed}));
                    }
                    rep.add("stress_max_extra", max_extra as u64);
                }
            }
        }
        _ => panic!("mode"),
    }
    rep.write(&a[2]);
}

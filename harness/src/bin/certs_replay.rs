//! C04 (T3): case tables of Certs.tla (MC_Certs) materialised with real BLS keys and signatures and offered to the real
//! CommitQC::{verify,add}, TimeoutQC::verify, FinalBlock::verify, LeaderProposal::verify, ReplicaNewView::verify.
//! Compared: accept / reject only.
//!   certs_replay <cases.ndjson> <report.json> <weights>
use std::collections::BTreeMap;

use bit_vec::BitVec;
use serde_json::Value;
use vcore::{bft::*, *};
use zksync_consensus_roles::validator::{
    self,
    v2::{ChonkyMsg, CommitQC, FinalBlock, LeaderProposal, ProposalJustification, ReplicaCommit, ReplicaNewView, ReplicaTimeout, Signers, TimeoutQC},
};

fn setof(v: &Value) -> Vec<usize> {
    v.as_array().map(|a| a.iter().map(|x| x.as_u64().unwrap() as usize).collect()).unwrap_or_default()
}

fn main() {
    quiet_panics();
    let a = args();
    // "3,1,1n,1": a trailing n marks a member that is not leader-eligible (irrelevant for quorums: they are over the TOTAL weight)
    let nonleader: Vec<bool> = a[2].split(',').map(|x| x.ends_with('n')).collect();
    let weights: Vec<u64> = a[2].split(',').map(|x| x.trim_end_matches('n').parse().unwrap()).collect();
    let mut c = Committee::new(&weights, 9);
    if nonleader.iter().any(|x| *x) {
        let infos: Vec<validator::ValidatorInfo> = c.keys.iter().zip(&weights).zip(&nonleader).map(|((k, w), nl)| validator::ValidatorInfo { key: k.public(), weight: *w, leader: !*nl }).collect();
        // positions are by key order in both schedules, so the abstraction stays valid
        c.schedule = validator::Schedule::new(infos, validator::LeaderSelection { frequency: 1, mode: validator::LeaderSelectionMode::RoundRobin }).unwrap();
        c.genesis = validator::GenesisRaw { chain_id: validator::ChainId(1337), fork_number: validator::ForkNumber(0), protocol_version: validator::ProtocolVersion::CURRENT, first_block: validator::BlockNumber(0), validators_schedule: Some(c.schedule.clone()) }.with_hash();
    }
    let other = Committee::new(&[1, 1], 777); // another chain
    let f = Forge { c: &c };
    let n = c.n();
    let mut labels = Labels::default();
    let (pa, pb, pc) = (labels.payload("a"), labels.payload("b"), labels.payload("c"));
    let mut rep = Report::default();
    let view_of = |num: u64, gk: &str| {
        let mut v = c.view(num);
        match gk {
            "genesis" => v.genesis = other.genesis.hash(),
            "epoch" => v.epoch = validator::EpochNumber(5),
            _ => {}
        }
        v
    };
    let v1 = |gk: &str| ReplicaCommit { view: view_of(3, gk), proposal: validator::v2::BlockHeader { number: validator::BlockNumber(1), payload: pa.hash() } };
    let v1b = ReplicaCommit { view: c.view(3), proposal: validator::v2::BlockHeader { number: validator::BlockNumber(1), payload: pb.hash() } };
    let vprev = |gk: &str| ReplicaCommit { view: view_of(1, gk), proposal: validator::v2::BlockHeader { number: validator::BlockNumber(0), payload: pc.hash() } };
    let bitmap = |s: &[usize], len: usize| {
        let mut b = BitVec::from_elem(len, false);
        for p in s {
            if *p <= len {
                b.set(p - 1, true);
            }
        }
        Signers(b)
    };
    // aggregate of `signers` over `vote`, corrupted per `sk`
    let agg_commit = |vote: &ReplicaCommit, signers: &[usize], sk: &str| -> validator::AggregateSignature {
        let mut sigs: Vec<validator::Signature> = signers.iter().map(|p| f.commit(*p, vote.clone()).sig).collect();
        if !sigs.is_empty() {
            match sk {
                "other_signer" => sigs[0] = f.commit(0, vote.clone()).sig,
                "other_vote" => sigs[0] = f.commit(signers[0], v1b.clone()).sig,
                "dropped" => {
                    sigs.remove(0);
                }
                "duplicated" => sigs.push(sigs[0].clone()),
                _ => {}
            }
        }
        validator::AggregateSignature::aggregate(sigs.iter())
    };
    let (g, sch) = (c.genesis.hash(), &c.schedule);
    for case in read_cases(&a[0]) {
        rep.evaluations += 1;
        rep.distinct += 1;
        let kind = case["kind"].as_str().unwrap();
        let want = case["valid"].as_bool();
        match kind {
            "cqc" => {
                let s = setof(&case["signers"]);
                let (gk, len, sk) = (case["gk"].as_str().unwrap(), case["len"].as_u64().unwrap() as usize, case["sk"].as_str().unwrap());
                let vote = v1(gk);
                let qc = CommitQC { message: vote.clone(), signers: bitmap(&s, len), signature: agg_commit(&vote, &s, sk) };
                let want = want.unwrap();
                let got = catch(|| qc.verify(g, EPOCH, sch).is_ok());
                match got {
                    Err(p) => rep.fail("cqc_verify_panic", format!("CommitQC::verify panicked: {p}"), case.clone()),
                    Ok(x) if x != want => rep.fail(if x { "cqc_accepts_invalid" } else { "cqc_rejects_valid" }, format!("CommitQC::verify = {x}, specification says {want}"), case.clone()),
                    _ => {}
                }
                // derived objects carrying the certificate (only meaningful when the bitmap has the right length)
                if len == n {
                    let blk = FinalBlock { payload: pa.clone(), justification: qc.clone() };
                    let r1 = catch(|| blk.verify(g, EPOCH, sch).is_ok());
                    if r1 != Ok(want) {
                        rep.fail("block_verify_mismatch", format!("FinalBlock::verify = {r1:?}, specification says {want}"), case.clone());
                    }
                    let blk2 = FinalBlock { payload: pb.clone(), justification: qc.clone() };
                    if catch(|| blk2.verify(g, EPOCH, sch).is_ok()) != Ok(false) {
                        rep.fail("block_payload_mismatch_accepted", "FinalBlock with a payload not matching the certified header accepted", case.clone());
                    }
                    let j = ProposalJustification::Commit(qc.clone());
                    let r2 = catch(|| LeaderProposal { proposal_payload: Some(pb.clone()), justification: j.clone() }.verify(g, EPOCH, sch).is_ok());
                    let r3 = catch(|| ReplicaNewView { justification: j.clone() }.verify(g, EPOCH, sch).is_ok());
                    if r2 != Ok(want) || r3 != Ok(want) {
                        rep.fail("justification_verify_mismatch", format!("LeaderProposal/ReplicaNewView::verify = {r2:?}/{r3:?}, specification says {want}"), case.clone());
                    }
                    rep.evaluations += 4;
                }
            }
            "tqc" => {
                let s = setof(&case["signers"]);
                let g2 = setof(&case["g2"]);
                let g1: Vec<usize> = s.iter().copied().filter(|x| !g2.contains(x)).collect();
                let corr = case["corr"].as_str().unwrap();
                let gk = if corr == "genesis" { "genesis" } else if corr == "epoch" { "epoch" } else { "ok" };
                let nested = {
                    let vote = vprev(if corr == "nested_genesis" { "genesis" } else if corr == "nested_epoch" { "epoch" } else { "ok" });
                    let signers: Vec<usize> = if corr == "nested_subquorum" { vec![1] } else { (1..=n).collect() };
                    CommitQC { message: vote.clone(), signers: bitmap(&signers, n), signature: agg_commit(&vote, &signers, if corr == "nested_badsig" { "other_vote" } else { "ok" }) }
                };
                let m1 = ReplicaTimeout { view: view_of(3, gk), high_vote: None, high_qc: None };
                let m2 = ReplicaTimeout { view: view_of(if corr == "viewmismatch" { 4 } else if corr == "viewearlier" { 2 } else { 3 }, gk), high_vote: Some(v1(if corr == "hv_genesis" { "genesis" } else if corr == "hv_epoch" { "epoch" } else { "ok" })), high_qc: Some(nested) };
                let m3 = ReplicaTimeout { view: view_of(3, gk), high_vote: Some(vprev("ok")), high_qc: None };
                let mut map: BTreeMap<ReplicaTimeout, Signers> = BTreeMap::new();
                let mut sigs = vec![];
                if !g1.is_empty() || corr == "len_short" || corr == "len_long" {
                    let len = match corr { "len_short" => n - 1, "len_long" => n + 1, _ => n };
                    map.insert(m1.clone(), bitmap(&g1, len));
                    for p in &g1 {
                        sigs.push(f.sign(*p, ChonkyMsg::ReplicaTimeout(m1.clone())).sig);
                    }
                }
                if !g2.is_empty() {
                    let mut s2 = g2.clone();
                    if corr == "overlap" && !g1.is_empty() {
                        s2.push(g1[0]);
                    }
                    map.insert(m2.clone(), bitmap(&s2, n));
                    for p in &s2 {
                        sigs.push(f.sign(*p, ChonkyMsg::ReplicaTimeout(m2.clone())).sig);
                    }
                }
                if corr == "emptygroup" {
                    map.insert(m3, bitmap(&[], n));
                }
                if !sigs.is_empty() {
                    match corr {
                        "sig_other_signer" => sigs[0] = f.sign(0, ChonkyMsg::ReplicaTimeout(m1.clone())).sig,
                        "sig_dropped" => {
                            sigs.remove(0);
                        }
                        _ => {}
                    }
                }
                if map.len() != case["ngroups"].as_u64().unwrap() as usize {
                    rep.count("tqc_case_not_materialisable");
                    continue;
                }
                let t = TimeoutQC { view: view_of(3, gk), map, signature: validator::AggregateSignature::aggregate(sigs.iter()) };
                let want = want.unwrap();
                match catch(|| t.verify(g, EPOCH, sch).is_ok()) {
                    Err(p) => rep.fail("tqc_verify_panic", format!("TimeoutQC::verify panicked: {p}"), case.clone()),
                    Ok(x) if x != want => rep.fail(if x { "tqc_accepts_invalid" } else { "tqc_rejects_valid" }, format!("TimeoutQC::verify = {x}, specification says {want}"), case.clone()),
                    _ => {}
                }
                let j = ProposalJustification::Timeout(t);
                let r3 = catch(|| ReplicaNewView { justification: j.clone() }.verify(g, EPOCH, sch).is_ok());
                if r3 != Ok(want) {
                    rep.fail("justification_verify_mismatch", format!("ReplicaNewView::verify (timeout justification) = {r3:?}, specification says {want}"), case.clone());
                }
            }
            "tqc3" => {
                let nested = {
                    let vote = vprev("ok");
                    let signers: Vec<usize> = (1..=n).collect();
                    CommitQC { message: vote.clone(), signers: bitmap(&signers, n), signature: agg_commit(&vote, &signers, "ok") }
                };
                let msgs = [
                    ReplicaTimeout { view: view_of(3, "ok"), high_vote: None, high_qc: None },
                    ReplicaTimeout { view: view_of(3, "ok"), high_vote: Some(v1("ok")), high_qc: Some(nested) },
                    ReplicaTimeout { view: view_of(3, "ok"), high_vote: Some(vprev("ok")), high_qc: None },
                ];
                let memb: Vec<Vec<usize>> = case["memb"].as_array().unwrap().iter().map(setof).collect();
                let mut map: BTreeMap<ReplicaTimeout, Signers> = BTreeMap::new();
                let mut sigs = vec![];
                for (gi, m) in msgs.iter().enumerate() {
                    let signers: Vec<usize> = (1..=n).filter(|v| memb[*v - 1].contains(&(gi + 1))).collect();
                    if signers.is_empty() {
                        continue;
                    }
                    map.insert(m.clone(), bitmap(&signers, n));
                    for p in &signers {
                        sigs.push(f.sign(*p, ChonkyMsg::ReplicaTimeout(m.clone())).sig);
                    }
                }
                if map.len() != case["ngroups"].as_u64().unwrap() as usize {
                    rep.count("tqc_case_not_materialisable");
                    continue;
                }
                let t = TimeoutQC { view: view_of(3, "ok"), map, signature: validator::AggregateSignature::aggregate(sigs.iter()) };
                let want = want.unwrap();
                match catch(|| t.verify(g, EPOCH, sch).is_ok()) {
                    Err(p) => rep.fail("tqc_verify_panic", format!("TimeoutQC::verify panicked: {p}"), case.clone()),
                    Ok(x) if x != want => rep.fail(if x { "tqc_accepts_invalid" } else { "tqc_rejects_valid" }, format!("TimeoutQC::verify = {x}, specification says {want}"), case.clone()),
                    _ => {}
                }
            }
            "add" => {
                let mut qc = CommitQC::new(v1("ok"), sch);
                let seq = case["seq"].as_array().unwrap();
                let res = case["res"].as_array().unwrap();
                let mut bad = None;
                for (i, st) in seq.iter().enumerate() {
                    let from = st["from"].as_u64().unwrap() as usize;
                    let k = st["k"].as_str().unwrap();
                    let vote = match k { "othervote" => v1b.clone(), "genesis" => v1("genesis"), _ => v1("ok") };
                    let mut m: validator::Signed<ReplicaCommit> = f.commit(if k == "nonmember" { 0 } else { from }, vote.clone()).cast().unwrap();
                    if k == "badsig" {
                        m.sig = f.commit(from, vprev("ok")).sig;
                    }
                    let got = catch(|| qc.add(&m, g, EPOCH, sch).is_ok());
                    let want = res[i].as_bool().unwrap();
                    if got != Ok(want) {
                        bad = Some(format!("add #{} ({k} from {from}) = {got:?}, specification says {want}", i + 1));
                        break;
                    }
                }
                if let Some(b) = bad {
                    rep.fail("add_mismatch", b, case.clone());
                    continue;
                }
                let fs = setof(&case["final_signers"]);
                if qc.signers != bitmap(&fs, n) {
                    rep.fail("add_signers_mismatch", "signer set after incremental assembly differs from the specification", case.clone());
                    continue;
                }
                let fv = case["final_valid"].as_bool().unwrap();
                if catch(|| qc.verify(g, EPOCH, sch).is_ok()) != Ok(fv) {
                    rep.fail("assembled_cert_verify_mismatch", format!("certificate assembled incrementally: verify differs from the specification ({fv})"), case.clone());
                }
            }
            "tadd" => {
                let nested = {
                    let vote = vprev("ok");
                    let signers: Vec<usize> = (1..=n).collect();
                    CommitQC { message: vote.clone(), signers: bitmap(&signers, n), signature: agg_commit(&vote, &signers, "ok") }
                };
                let tm1 = ReplicaTimeout { view: view_of(3, "ok"), high_vote: None, high_qc: None };
                let msg_of = |k: &str| match k {
                    "ok2" => ReplicaTimeout { view: view_of(3, "ok"), high_vote: Some(v1("ok")), high_qc: Some(nested.clone()) },
                    "view" => ReplicaTimeout { view: view_of(4, "ok"), high_vote: None, high_qc: None },
                    "badcontent" => ReplicaTimeout { view: view_of(3, "ok"), high_vote: Some(v1("genesis")), high_qc: None },
                    _ => tm1.clone(),
                };
                let mut qc = TimeoutQC::new(view_of(3, "ok"));
                let seq = case["seq"].as_array().unwrap();
                let res = case["res"].as_array().unwrap();
                let mut bad = None;
                for (i, st) in seq.iter().enumerate() {
                    let from = st["from"].as_u64().unwrap() as usize;
                    let k = st["k"].as_str().unwrap();
                    let body = msg_of(k);
                    let mut m: validator::Signed<ReplicaTimeout> = f.sign(if k == "nonmember" { 0 } else { from }, ChonkyMsg::ReplicaTimeout(body)).cast().unwrap();
                    if k == "badsig" {
                        m.sig = f.commit(from, vprev("ok")).sig;
                    }
                    let got = catch(|| qc.add(&m, g, EPOCH, sch).is_ok());
                    let want = res[i].as_bool().unwrap();
                    if got != Ok(want) {
                        bad = Some(format!("TimeoutQC::add #{} ({k} from {from}) = {got:?}, specification says {want}", i + 1));
                        break;
                    }
                }
                if let Some(b) = bad {
                    rep.fail("tadd_mismatch", b, case.clone());
                    continue;
                }
                if qc.map.len() != case["ngroups"].as_u64().unwrap() as usize {
                    // implementation-shaped detail (drift); the property-level verdict is the final verify below
                    rep.count("drift_tadd_groups");
                }
                // completed by valid votes of everybody who has not signed yet: each must be accepted, the result must verify as specified
                let have = setof(&case["signers"]);
                for v in 1..=n {
                    if have.contains(&v) {
                        continue;
                    }
                    let m: validator::Signed<ReplicaTimeout> = f.sign(v, ChonkyMsg::ReplicaTimeout(tm1.clone())).cast().unwrap();
                    if catch(|| qc.add(&m, g, EPOCH, sch).is_ok()) != Ok(true) {
                        rep.fail("tadd_valid_vote_refused", format!("a valid vote of validator {v} was refused during completion"), case.clone());
                    }
                }
                let fv = case["final_valid"].as_bool().unwrap();
                if catch(|| qc.verify(g, EPOCH, sch).is_ok()) != Ok(fv) {
                    rep.fail("assembled_cert_verify_mismatch", format!("timeout certificate assembled incrementally from valid votes reaching the quorum: verify differs from the specification ({fv})"), case.clone());
                }
            }
            _ => {}
        }
        if rep.evaluations % 997 == 1 {
            rep.sample(case.clone());
        }
    }
    rep.write(&a[1]);
}

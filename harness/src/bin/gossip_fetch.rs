//! C08 (peer-supplied blocks) + C19 (end to end) at node level (T2): every scripted peer of GossipFetch.tla (announced range x answer script over
//! {right, other number, forged payload, empty}) is played against a REAL running node that misses blocks 0..N-1; afterwards an honest peer
//! connects. Checked on the real node: it asks the scripted peer only for announced numbers, it stores only the genuine block of each number, and
//! with the honest peer it ends up with every block (no request is lost when a peer misbehaves or leaves).
//!   gossip_fetch <cases.ndjson> <report.json> <seed> <nblocks>
use std::sync::{Arc, Mutex};

use rand::{Rng, SeedableRng};
use serde_json::json;
use vcore::*;
use zksync_concurrency::{ctx, scope, time};
use zksync_consensus_engine::{testonly::TestEngine, BlockStoreState, Last};
use zksync_consensus_network::{gossip::verif as gv, testonly};
use zksync_consensus_roles::validator;

fn last_of(b: &validator::Block) -> Last {
    match b {
        validator::Block::FinalV2(b) => Last::FinalV2(b.justification.clone()),
        validator::Block::PreGenesis(b) => Last::PreGenesis(b.number),
    }
}

fn main() {
    quiet_panics();
    let a = args();
    let cases = read_cases(&a[0]);
    let seed: u64 = a[2].parse().unwrap();
    let nblocks: usize = a[3].parse().unwrap();
    let rep = Arc::new(Mutex::new(Report::default()));
    let rt = tokio::runtime::Builder::new_multi_thread().worker_threads(4).enable_all().build().unwrap();
    let rep2 = rep.clone();
    let r = catch(move || {
        rt.block_on(async move {
            let rep = rep2;
            let root = ctx::test_root(&ctx::RealClock);
            let ctx = &root.with_timeout(time::Duration::seconds(1500));
            let mut rng = rand::rngs::StdRng::seed_from_u64(seed);
            let mut setup = validator::testonly::Setup::new_without_pregenesis(&mut rng, 1);
            setup.push_blocks_v2(&mut rng, nblocks);
            let first = setup.first_block().0;
            let genuine: Vec<validator::Block> = (0..nblocks as u64).map(|i| setup.block(validator::BlockNumber(first + i)).unwrap().clone()).collect();
            let forged: Vec<validator::Block> = genuine
                .iter()
                .map(|b| match b {
                    validator::Block::FinalV2(b) => {
                        let mut b = b.clone();
                        b.payload = validator::Payload(vec![0xde, 0xad]);
                        validator::Block::FinalV2(b)
                    }
                    x => x.clone(),
                })
                .collect();
            for (ci, case) in cases.iter().enumerate() {
                let ann = case["ann"].as_u64().unwrap() as usize;
                let script: Vec<String> = case["script"].as_array().map(|a| a.iter().map(|x| x.as_str().unwrap().to_string()).collect()).unwrap_or_default();
                let tag = json!({"case": case, "seed": seed});
                let mut cfg = testonly::new_configs(&mut rng, &setup, 0).remove(0);
                cfg.gossip.dynamic_inbound_limit = 10;
                // a call that gets no answer must time out (production default: 10 s)
                cfg.rpc.get_block_timeout = Some(time::Duration::milliseconds(300));
                let (evil_cfg, honest_cfg) = (gv::test_config(rng.gen()), gv::test_config(rng.gen()));
                let rep_outer = rep.clone();
                let (genuine, forged, setup, rep, cfg, case, evil_cfg, honest_cfg, tag) = (genuine.clone(), forged.clone(), setup.clone(), rep.clone(), cfg.clone(), case.clone(), evil_cfg.clone(), honest_cfg.clone(), tag.clone());
                let res: anyhow::Result<()> = scope::run!(ctx, |ctx, s| async move {
                    let engine = TestEngine::new(ctx, &setup).await;
                    s.spawn_bg(engine.runner.run(ctx));
                    let (_node, runner) = testonly::Instance::new(cfg.clone(), engine.manager.clone());
                    s.spawn_bg(async {
                        let _ = runner.run(ctx).await;
                        Ok(())
                    });
                    let addr = *cfg.server_addr;
                    let node_key = cfg.gossip.key.public();
                    let genesis = setup.genesis_hash();
                    let manager = engine.manager.clone();
                    // what the node stores must be the genuine chain
                    let check_store = |when: &str| -> Option<String> {
                        let st = manager.queued();
                        let next = st.next().0;
                        if st.first.0 != first {
                            return Some(format!("{when}: the store starts at {} instead of {first}", st.first.0));
                        }
                        for n in first..next {
                            let want = &genuine[(n - first) as usize];
                            match st.last.as_ref() {
                                Some(l) if l.number().0 == n => {
                                    if *l != last_of(want) {
                                        return Some(format!("{when}: block {n} in the store is not the genuine block {n}"));
                                    }
                                }
                                _ => {}
                            }
                        }
                        None
                    };
                    // ---- the scripted peer
                    let requested = Arc::new(Mutex::new(vec![]));
                    let pos = Arc::new(Mutex::new(0usize));
                    let gave_bad = Arc::new(Mutex::new(false));
                    let conn = {
                        let mut c = None;
                        for _ in 0..500 {
                            match gv::dial(ctx, addr, &evil_cfg, genesis, &node_key).await {
                                Ok(d) => {
                                    c = Some(d);
                                    break;
                                }
                                Err(_) => ctx.sleep(time::Duration::milliseconds(10)).await?,
                            }
                        }
                        c
                    };
                    let Some(conn) = conn else {
                        rep.lock().unwrap().fail("node_not_up", "the node never accepted a connection (harness problem)", tag.clone());
                        return Ok(());
                    };
                    let state = BlockStoreState { first: validator::BlockNumber(first), last: Some(last_of(&genuine[ann])) };
                    // "silent": the handler does not return until the harness releases it (or 6 s pass) - the connection stays open, no answer comes
                    let silent_case = script.iter().any(|a| a == "silent");
                    let silent_hit = Arc::new(std::sync::atomic::AtomicBool::new(false));
                    let (rel_tx, rel_rx) = std::sync::mpsc::channel::<()>();
                    let rel_rx = Arc::new(Mutex::new(rel_rx));
                    let respond: Arc<dyn Fn(u64) -> Option<validator::Block> + Send + Sync> = {
                        let (script, pos, gave_bad, genuine, forged) = (script.clone(), pos.clone(), gave_bad.clone(), genuine.clone(), forged.clone());
                        let (silent_hit, rel_rx) = (silent_hit.clone(), rel_rx.clone());
                        Arc::new(move |n: u64| {
                            let mut p = pos.lock().unwrap();
                            let ans = script.get(*p).cloned().unwrap_or_else(|| "none".to_string());
                            *p += 1;
                            let i = (n.saturating_sub(first)) as usize % genuine.len();
                            if ans != "right" {
                                *gave_bad.lock().unwrap() = true;
                            }
                            match ans.as_str() {
                                "right" => Some(genuine[i].clone()),
                                "other" => Some(genuine[(i + 1) % genuine.len()].clone()),
                                "forged" => Some(forged[i].clone()),
                                "silent" => {
                                    drop(p);
                                    silent_hit.store(true, std::sync::atomic::Ordering::SeqCst);
                                    // block_in_place: the worker's other tasks (the node under test shares this runtime) move to another thread first
                                    tokio::task::block_in_place(|| {
                                        let _ = rel_rx.lock().unwrap().recv_timeout(std::time::Duration::from_secs(6));
                                    });
                                    None
                                }
                                _ => None,
                            }
                        })
                    };
                    let ended = Arc::new(Mutex::new(None::<String>));
                    if silent_case {
                        let (ended3, requested2) = (ended.clone(), requested.clone());
                        s.spawn_bg(async move {
                            let how = gv::serve_blocks(ctx, conn, state, respond, requested2).await;
                            *ended3.lock().unwrap() = Some(how);
                            Ok(())
                        });
                        // until the silent answer is reached (the answers before it are "right")
                        for _ in 0..4000 {
                            if silent_hit.load(std::sync::atomic::Ordering::SeqCst) || ended.lock().unwrap().is_some() {
                                break;
                            }
                            ctx.sleep(time::Duration::milliseconds(2)).await?;
                        }
                    } else {
                        // the scripted peer lives in an inner scope: it is cancelled when the play loop returns
                        let (ended2, requested2, pos2, manager2) = (ended.clone(), requested.clone(), pos.clone(), manager.clone());
                        let _: Result<(), ctx::Error> = scope::run!(ctx, |ctx, s2| async move {
                            let ended3 = ended2.clone();
                            s2.spawn_bg(async move {
                                let how = gv::serve_blocks(ctx, conn, state, respond, requested2).await;
                                *ended3.lock().unwrap() = Some(how);
                                Ok(())
                            });
                            // let it play: until the connection ended / nothing has moved for a while
                            let mut quiet = 0;
                            let mut last_seen = (0usize, 0u64);
                            for _ in 0..4000 {
                                ctx.sleep(time::Duration::milliseconds(2)).await?;
                                let now = (*pos2.lock().unwrap(), manager2.queued().next().0);
                                if ended2.lock().unwrap().is_some() {
                                    break;
                                }
                                if now == last_seen {
                                    quiet += 1;
                                    if quiet > 40 {
                                        break;
                                    }
                                } else {
                                    quiet = 0;
                                    last_seen = now;
                                }
                            }
                            Ok(())
                        })
                        .await;
                    }
                    if *gave_bad.lock().unwrap() && ended.lock().unwrap().is_none() && !silent_case {
                        rep.lock().unwrap().count("drift_bad_answer_did_not_end_the_connection");
                    }
                    {
                        let mut g = rep.lock().unwrap();
                        g.evaluations += requested.lock().unwrap().len() as u64;
                        for n in requested.lock().unwrap().iter() {
                            if *n < first || *n > first + ann as u64 {
                                g.fail("fetch_not_announced", format!("the node asked the scripted peer for block {n}; it announced {first}..={}", first + ann as u64), tag.clone());
                            }
                        }
                        if let Some(e) = check_store("after the scripted peer") {
                            g.fail("store_not_genuine", e, tag.clone());
                        }
                    }
                    // every block the node holds must read back as the genuine one
                    for n in first..manager.queued().next().0 {
                        match manager.get_block(ctx, validator::BlockNumber(n)).await {
                            Ok(Some(b)) if b == genuine[(n - first) as usize] => {}
                            Ok(Some(_)) => rep.lock().unwrap().fail("store_not_genuine", format!("block {n} read back from the node is not the genuine block {n}"), tag.clone()),
                            _ => {}
                        }
                    }
                    // ---- the honest peer: has everything
                    let hconn = gv::dial(ctx, addr, &honest_cfg, genesis, &node_key).await;
                    let Ok(hconn) = hconn else {
                        rep.lock().unwrap().fail("node_unresponsive", "the node does not accept the honest peer after the scripted one", tag.clone());
                        return Ok(());
                    };
                    let hstate = BlockStoreState { first: validator::BlockNumber(first), last: Some(last_of(&genuine[nblocks - 1])) };
                    let hreq = Arc::new(Mutex::new(vec![]));
                    {
                        let genuine = genuine.clone();
                        let hr: Arc<dyn Fn(u64) -> Option<validator::Block> + Send + Sync> = Arc::new(move |n: u64| genuine.get((n.saturating_sub(first)) as usize).cloned());
                        let hreq = hreq.clone();
                        s.spawn_bg(async move {
                            let _ = gv::serve_blocks(ctx, hconn, hstate, hr, hreq).await;
                            Ok(())
                        });
                    }
                    let mut done = false;
                    // a silent peer holds the request: the honest one gets it only through the call's timeout (300 ms); the window ends well before the silent handler gives up
                    let t_start = std::time::Instant::now();
                    let window = if silent_case && silent_hit.load(std::sync::atomic::Ordering::SeqCst) { std::time::Duration::from_millis(4500) } else { std::time::Duration::from_secs(30) };
                    while t_start.elapsed() < window {
                        if manager.queued().next().0 >= first + nblocks as u64 {
                            done = true;
                            break;
                        }
                        ctx.sleep(time::Duration::milliseconds(2)).await?;
                    }
                    let _ = rel_tx.send(());
                    let mut g = rep.lock().unwrap();
                    if !done && silent_case && silent_hit.load(std::sync::atomic::Ordering::SeqCst) {
                        g.fail("fetch_request_lost", format!("a peer received get_block, keeps the connection open and does not answer; 4.5 s later (get_block_timeout = 300 ms) the request is still with it although an honest peer that has every block is connected: next = {}, wanted {}", manager.queued().next().0, first + nblocks as u64), tag.clone());
                    } else if !done {
                        g.fail("fetch_request_lost", format!("with an honest peer that has every block connected for 30 s the node still misses blocks: next = {}, wanted {} (requests to the honest peer: {:?})", manager.queued().next().0, first + nblocks as u64, hreq.lock().unwrap()), tag.clone());
                    } else if let Some(e) = check_store("at the end") {
                        g.fail("store_not_genuine", e, tag.clone());
                    }
                    g.distinct += 1;
                    if ci % 60 == 0 {
                        g.sample(json!({"case": case, "requested_from_scripted_peer": requested.lock().unwrap().clone(), "ended": ended.lock().unwrap().clone()}));
                    }
                    Ok(())
                })
                .await;
                let _ = res;
                if rep_outer.lock().unwrap().failures.len() >= 5 {
                    break;
                }
            }
        })
    });
    let mut rep = std::mem::take(&mut *rep.lock().unwrap());
    if let Err(p) = r {
        rep.fail("node_panic", format!("a task of the node panicked: {}", p.lines().next().unwrap_or("")), json!({"seed": seed}));
    }
    rep.write(&a[1]);
}

//! C15a (T1): the real `limiter::Limiter` on a `ManualClock`, single-threaded runtime. A seeded script of acquire(k)
//! calls (some with a deadline = cancelled waits), hold times and clock advances is executed twice: run A as scripted,
//! run B with the cancelled calls removed. Events: call / grant / release / cancel with the manual-clock time.
//!   limiter_drv <trace-out> <report-out> <seed> <ncalls> <burst> <refresh_ns>
use std::sync::Arc;

use rand::Rng;
use serde_json::json;
use vcore::{log::EventLog, *};
use zksync_concurrency::{ctx, limiter, time};

#[derive(Clone)]
struct CallSpec {
    id: u64,
    at_step: u64,
    k: usize,
    hold_ns: i64,
    /// cancelled after this many ns of waiting (None = waits as long as needed)
    cancel_after_ns: Option<i64>,
}

async fn settle() {
    for _ in 0..50 {
        tokio::task::yield_now().await;
    }
}

async fn run_once(log: &Arc<EventLog>, run: &str, calls: &[CallSpec], steps: u64, step_ns: &[i64], burst: usize, refresh_ns: i64, skip_cancelled: bool) {
    let clock = ctx::ManualClock::new();
    let root = ctx::test_root(&clock);
    let t0 = clock.now();
    let lim = Arc::new(limiter::Limiter::new(&root, limiter::Rate { burst, refresh: time::Duration::nanoseconds(refresh_ns) }));
    log.emit(json!({"e": "run", "run": run}));
    let mut handles = vec![];
    for step in 0..steps {
        for c in calls.iter().filter(|c| c.at_step == step) {
            if skip_cancelled && c.cancel_after_ns.is_some() {
                continue;
            }
            let (lim, log, c, clock2) = (lim.clone(), log.clone(), c.clone(), clock.clone());
            let cctx = match c.cancel_after_ns {
                Some(d) => root.with_deadline(time::Deadline::Finite(clock.now() + time::Duration::nanoseconds(d))),
                None => root.with_deadline(time::Deadline::Infinite),
            };
            let run = run.to_string();
            log.emit(json!({"e": "call", "run": run, "id": c.id, "k": c.k, "t": (clock.now() - t0).whole_nanoseconds() as i64, "cancellable": c.cancel_after_ns.is_some()}));
            handles.push(tokio::spawn(async move {
                match lim.acquire(&cctx, c.k).await {
                    Ok(permit) => {
                        log.emit(json!({"e": "grant", "run": run, "id": c.id, "k": c.k, "t": (clock2.now() - t0).whole_nanoseconds() as i64}));
                        // hold the permit; it may outlive the deadline of the acquiring context, so sleep on a fresh one
                        let hctx = ctx::test_root(&clock2);
                        let _ = hctx.sleep(time::Duration::nanoseconds(c.hold_ns)).await;
                        drop(permit);
                        log.emit(json!({"e": "release", "run": run, "id": c.id, "k": c.k, "t": (clock2.now() - t0).whole_nanoseconds() as i64}));
                    }
                    Err(_) => {
                        log.emit(json!({"e": "cancel", "run": run, "id": c.id, "t": (clock2.now() - t0).whole_nanoseconds() as i64}));
                    }
                }
            }));
            settle().await;
        }
        clock.advance(time::Duration::nanoseconds(step_ns[step as usize]));
        // the clock moves in jumps: a sleeper wakes at the first clock value at or after its deadline
        log.emit(json!({"e": "tick", "run": run, "t": (clock.now() - t0).whole_nanoseconds() as i64}));
        settle().await;
    }
    // drain: let everything finish
    for _ in 0..(calls.len() as u64 * 4 + 50) {
        clock.advance(time::Duration::nanoseconds(refresh_ns));
        log.emit(json!({"e": "tick", "run": run, "t": (clock.now() - t0).whole_nanoseconds() as i64}));
        settle().await;
    }
    for h in handles {
        h.abort();
        let _ = h.await;
    }
}

fn main() {
    quiet_panics();
    let a = args();
    let (seed, ncalls, burst, refresh_ns): (u64, u64, usize, i64) = (a[2].parse().unwrap(), a[3].parse().unwrap(), a[4].parse().unwrap(), a[5].parse().unwrap());
    let mut rng = vcore::rng(seed);
    let steps = ncalls * 3;
    // clock advances: fractions and multiples of the refresh period (not only multiples)
    let step_ns: Vec<i64> = (0..steps).map(|_| match rng.gen_range(0..6) { 0 => refresh_ns / 3, 1 => refresh_ns / 2, 2 => refresh_ns, 3 => refresh_ns + refresh_ns / 4, 4 => 0, _ => 2 * refresh_ns }).collect();
    let calls: Vec<CallSpec> = (1..=ncalls)
        .map(|id| CallSpec {
            id,
            at_step: rng.gen_range(0..steps - 2),
            k: rng.gen_range(1..=burst.min(3)),
            hold_ns: match rng.gen_range(0..4) { 0 => 0, 1 => refresh_ns / 2, 2 => refresh_ns * 2, _ => refresh_ns * 5 },
            cancel_after_ns: if rng.gen_range(0..4) == 0 { Some(rng.gen_range(0..2) * refresh_ns + refresh_ns / 3) } else { None },
        })
        .map(|mut c| {
            // a call that is meant to be cancelled asks for the whole burst, so that it really has to wait
            if c.cancel_after_ns.is_some() {
                c.k = burst;
            }
            c
        })
        .collect();
    // arrival order = (at_step, id): renumber so that ids are in arrival order (the spec's Fifo compares ids)
    let mut sorted = calls.clone();
    sorted.sort_by_key(|c| (c.at_step, c.id));
    for (i, c) in sorted.iter_mut().enumerate() {
        c.id = i as u64 + 1;
    }
    let log = Arc::new(EventLog::new());
    log.emit(json!({"e": "header", "burst": burst, "refresh": refresh_ns, "ncalls": ncalls}));
    let rt = tokio::runtime::Builder::new_current_thread().enable_all().build().unwrap();
    let mut rep = Report::default();
    let r = catch(|| {
        rt.block_on(async {
            run_once(&log, "A", &sorted, steps, &step_ns, burst, refresh_ns, false).await;
            run_once(&log, "B", &sorted, steps, &step_ns, burst, refresh_ns, true).await;
        })
    });
    if let Err(p) = r {
        rep.fail("panic", format!("panic: {p}"), json!({"seed": seed}));
    }
    let evs = log.snapshot();
    rep.evaluations = evs.len() as u64;
    rep.distinct = ncalls;
    rep.add("grants", evs.iter().filter(|e| e["e"] == "grant").count() as u64);
    rep.add("cancels", evs.iter().filter(|e| e["e"] == "cancel").count() as u64);
    rep.sample(json!({"seed": seed, "ncalls": ncalls, "burst": burst, "refresh_ns": refresh_ns, "first_calls": sorted.iter().take(3).map(|c| json!({"id": c.id, "k": c.k, "step": c.at_step, "hold": c.hold_ns, "cancel_after": c.cancel_after_ns})).collect::<Vec<_>>()}));
    log.write(&a[0]);
    rep.write(&a[1]);
}

//! C18 at node level (T1): a scripted gossip peer pushes announcement batches (valid, stale, forged, duplicated keys, non-members, extreme
//! versions / timestamps) through the REAL push_validator_addrs RPC of a running validator node. Recorded for TraceAddrDial.tla: every batch
//! (before it is sent), the RPC outcome and the node's address book after it, every connection attempt of the node's consensus layer (one
//! loopback listener per committee validator and address id stands for "the address a node will dial"), every announcement the node forwards.
//!   node_addrs <trace prefix> <report.json> <seed> <runs> <batches per run>
use std::{
    collections::HashMap,
    sync::{Arc, Mutex},
};

use rand::{Rng, SeedableRng};
use serde_json::{json, Value};
use vcore::*;
use zksync_concurrency::{ctx, limiter, scope, time};
use zksync_consensus_engine::testonly::TestEngine;
use zksync_consensus_network::{gossip::verif as gv, testonly};
use zksync_consensus_roles::validator::{self, NetAddress};

const NADDR: usize = 5;
const VERS: [u64; 6] = [0, 1, 2, 3, u64::MAX - 1, u64::MAX];
const TSS: [i64; 4] = [0, 1, 2, 4_000_000_000];

#[derive(Default)]
struct Log(Mutex<Vec<Value>>);
impl Log {
    fn emit(&self, v: Value) {
        self.0.lock().unwrap().push(v);
    }
}

fn main() {
    quiet_panics();
    let a = args();
    let prefix = a[0].clone();
    let seed: u64 = a[2].parse().unwrap();
    let runs: usize = a[3].parse().unwrap();
    let nbatches: usize = a[4].parse().unwrap();
    let rep = Arc::new(Mutex::new(Report::default()));
    let rt = tokio::runtime::Builder::new_multi_thread().worker_threads(6).enable_all().build().unwrap();
    let rep2 = rep.clone();
    let r = catch(move || {
        rt.block_on(async move {
            let rep = rep2;
            let root = ctx::test_root(&ctx::RealClock);
            let ctx = &root.with_timeout(time::Duration::seconds(1200));
            for run in 0..runs {
                let mut rng = rand::rngs::StdRng::seed_from_u64(seed * 1000 + run as u64);
                let setup = validator::testonly::Setup::new(&mut rng, 4);
                let mut cfg = testonly::new_configs(&mut rng, &setup, 0).remove(0);
                cfg.rpc.push_validator_addrs_rate = limiter::Rate::INF;
                cfg.gossip.dynamic_inbound_limit = 10;
                let members: Vec<validator::SecretKey> = setup.validator_keys[1..4].to_vec();
                let outsider: validator::SecretKey = rng.gen();
                let names = ["v1", "v2", "v3"];
                let log = Arc::new(Log::default());
                log.emit(json!({"e": "hdr", "members": names, "outsiders": ["x"], "seed": seed, "run": run}));
                // one listener per (member, address id)
                let mut ports: HashMap<u16, (usize, usize)> = HashMap::new();
                let mut addr_of: HashMap<(usize, usize), std::net::SocketAddr> = HashMap::new();
                let mut listeners = vec![];
                for m in 0..3 {
                    for aid in 1..=NADDR {
                        let l = tokio::net::TcpListener::bind("127.0.0.1:0").await.unwrap();
                        let ad = l.local_addr().unwrap();
                        ports.insert(ad.port(), (m, aid));
                        addr_of.insert((m, aid), ad);
                        listeners.push((m, aid, l));
                    }
                }
                // an address for the outsider (nobody listens: it must never matter)
                let outsider_addr: std::net::SocketAddr = "127.0.0.1:9".parse().unwrap();
                // pre-generate the script
                let mut script: Vec<(Value, gv::AddrBatch)> = vec![];
                for _ in 0..nbatches {
                    let n = *[1usize, 1, 2, 2, 3].get(rng.gen_range(0..5)).unwrap();
                    let mut entries = vec![];
                    let mut batch: gv::AddrBatch = vec![];
                    for i in 0..n {
                        // duplicated key on purpose now and then
                        let k: usize = if i > 0 && rng.gen_bool(0.08) { entries.last().map(|e: &Value| e["ki"].as_u64().unwrap() as usize).unwrap() } else { rng.gen_range(0..4) };
                        let ver = if rng.gen_bool(0.8) { rng.gen_range(0..4) } else { rng.gen_range(4..6) };
                        let ts = rng.gen_range(0..TSS.len());
                        let aid = rng.gen_range(1..=NADDR);
                        let forged = rng.gen_bool(0.08);
                        let addr = if k < 3 { addr_of[&(k, aid)] } else { outsider_addr };
                        let msg = NetAddress { addr, version: VERS[ver], timestamp: time::UNIX_EPOCH + time::Duration::seconds(TSS[ts]) };
                        let key = if k < 3 { &members[k] } else { &outsider };
                        let mut signed = key.sign_msg(msg.clone());
                        if forged {
                            // signature by another key, attributed to `key`
                            let other: validator::SecretKey = rng.gen();
                            signed.sig = other.sign_msg(msg).sig;
                        }
                        entries.push(json!({"k": if k < 3 { names[k] } else { "x" }, "ki": k, "ver": ver, "ts": ts, "a": aid, "forged": forged}));
                        batch.push(Arc::new(signed));
                    }
                    script.push((json!(entries), batch));
                }
                let (cfg2, setup2, rep3, log2) = (cfg.clone(), setup.clone(), rep.clone(), log.clone());
                let res: anyhow::Result<()> = scope::run!(ctx, |ctx, s| async move {
                    let (cfg, setup, rep, log) = (cfg2, setup2, rep3, log2);
                    let engine = TestEngine::new(ctx, &setup).await;
                    s.spawn_bg(engine.runner.run(ctx));
                    let (node, runner) = testonly::Instance::new(cfg.clone(), engine.manager.clone());
                    s.spawn_bg(async {
                        let _ = runner.run(ctx).await;
                        Ok(())
                    });
                    // listeners: a connection attempt is the observation; nothing is spoken
                    let lastdial: Arc<Mutex<[usize; 3]>> = Arc::new(Mutex::new([0; 3]));
                    for (m, aid, l) in listeners {
                        let (log, lastdial) = (log.clone(), lastdial.clone());
                        s.spawn_bg::<()>(async move {
                            loop {
                                tokio::select! {
                                    r = l.accept() => {
                                        if let Ok((sock, _)) = r {
                                            {
                                                // sequence number = position in the log, taken under the log's lock together with the bookkeeping
                                                let mut g = log.0.lock().unwrap();
                                                lastdial.lock().unwrap()[m] = aid;
                                                let name = ["v1", "v2", "v3"][m];
                                                // a busy-looping dialler must not blow up the trace: identical repeats beyond the 20th in a row are not logged
                                                let ev = json!({"e": "dial", "m": name, "a": aid});
                                                let repeats = g.iter().rev().take(20).take_while(|x| **x == ev).count();
                                                if repeats < 20 {
                                                    g.push(ev);
                                                }
                                            }
                                            drop(sock);
                                        }
                                    }
                                    _ = ctx.canceled() => return Ok(()),
                                }
                            }
                        });
                    }
                    let net = node.net.clone();
                    let member_pk: Vec<validator::PublicKey> = members.iter().map(|k| k.public()).collect();
                    let own_pk = setup.validator_keys[0].public();
                    let abs_entry = {
                        let ports = ports.clone();
                        move |m: Option<usize>, e: &validator::Signed<NetAddress>| -> Value {
                            let ver = VERS.iter().position(|v| *v == e.msg.version).map(|x| x as i64).unwrap_or(99);
                            let ts = TSS.iter().position(|t| time::UNIX_EPOCH + time::Duration::seconds(*t) == e.msg.timestamp).map(|x| x as i64).unwrap_or(99);
                            let a = match (m, ports.get(&e.msg.addr.port())) {
                                (Some(m), Some((pm, aid))) if *pm == m => *aid as i64,
                                _ => 99,
                            };
                            json!({"ver": ver, "ts": ts, "a": a})
                        }
                    };
                    let received: Arc<Mutex<Vec<gv::AddrBatch>>> = Arc::new(Mutex::new(vec![]));
                    let stalled = Arc::new(std::sync::atomic::AtomicBool::new(false));
                    let idx = Arc::new(Mutex::new(0usize));
                    let script = Arc::new(script);
                    let next: Arc<dyn Fn(Option<bool>) -> Option<gv::AddrBatch> + Send + Sync> = {
                        let (log, net, member_pk, own_pk, received, idx, script, lastdial, abs_entry) =
                            (log.clone(), net.clone(), member_pk.clone(), own_pk.clone(), received.clone(), idx.clone(), script.clone(), lastdial.clone(), abs_entry.clone());
                        let stalled = stalled.clone();
                        Arc::new(move |prev: Option<bool>| {
                            if let Some(ok) = prev {
                                let book = gv::addr_book(&net);
                                let mut bj = serde_json::Map::new();
                                let mut others = 0;
                                for (m, pk) in member_pk.iter().enumerate() {
                                    let v = book.iter().find(|(k, _)| k == pk).map(|(_, e)| abs_entry(Some(m), e)).unwrap_or(json!({"ver": 0, "ts": 0, "a": 0}));
                                    bj.insert(names[m].to_string(), v);
                                }
                                for (k, _) in &book {
                                    if !member_pk.contains(k) && *k != own_pk {
                                        others += 1;
                                    }
                                }
                                log.emit(json!({"e": "ack", "ok": ok, "book": bj, "others": others}));
                                // let the connection loops catch up: until, for every member, the last dial went to the address the REAL book holds
                                let limit = if stalled.load(std::sync::atomic::Ordering::SeqCst) { 25 } else { 5000 };
                                let mut caught_up = false;
                                for _ in 0..limit {
                                    let book = gv::addr_book(&net);
                                    let ld = *lastdial.lock().unwrap();
                                    let pending = member_pk.iter().enumerate().any(|(m, pk)| match book.iter().find(|(k, _)| k == pk) {
                                        Some((_, e)) => abs_entry(Some(m), e)["a"].as_i64().unwrap() != ld[m] as i64,
                                        None => false,
                                    });
                                    if !pending {
                                        caught_up = true;
                                        break;
                                    }
                                    std::thread::sleep(std::time::Duration::from_millis(2));
                                }
                                if !caught_up {
                                    // 10 s without the expected connection attempt: the next `batch` event lets the specification judge; do not wait that long again
                                    stalled.store(true, std::sync::atomic::Ordering::SeqCst);
                                }
                                std::thread::sleep(std::time::Duration::from_millis(3));
                                // what the node forwarded to this peer so far
                                for b in received.lock().unwrap().drain(..) {
                                    for e in b {
                                        let m = member_pk.iter().position(|k| *k == e.key);
                                        if e.key == own_pk {
                                            continue; // the node's own announcement (not scripted)
                                        }
                                        let mut v = abs_entry(m, &e);
                                        v["e"] = json!("fwd");
                                        v["k"] = json!(m.map(|m| names[m]).unwrap_or("x"));
                                        v["genuine"] = json!(e.verify().is_ok());
                                        log.emit(v);
                                    }
                                }
                                if !ok {
                                    return None; // the node hung up on us; the script continues on a fresh connection
                                }
                            }
                            let mut i = idx.lock().unwrap();
                            if *i >= script.len() {
                                return None;
                            }
                            let (ev, batch) = script[*i].clone();
                            *i += 1;
                            log.emit(json!({"e": "batch", "entries": ev}));
                            Some(batch)
                        })
                    };
                    let peer_cfg = gv::test_config(rand::rngs::StdRng::seed_from_u64(seed ^ 0x55).gen());
                    let mut conns = 0;
                    while *idx.lock().unwrap() < script.len() && conns < script.len() + 5 {
                        conns += 1;
                        let mut conn = None;
                        for _ in 0..500 {
                            match gv::dial(ctx, *cfg.server_addr, &peer_cfg, setup.genesis_hash(), &cfg.gossip.key.public()).await {
                                Ok(d) => {
                                    conn = Some(d);
                                    break;
                                }
                                Err(_) => ctx.sleep(time::Duration::milliseconds(10)).await?,
                            }
                        }
                        let Some(conn) = conn else {
                            rep.lock().unwrap().fail("node_not_up", "the node never accepted a connection (harness problem)", json!({"seed": seed, "run": run}));
                            return Ok(());
                        };
                        let _ = gv::push_addrs(ctx, conn, next.clone(), received.clone()).await;
                    }
                    let mut g = rep.lock().unwrap();
                    g.distinct += 1;
                    g.evaluations += log.0.lock().unwrap().len() as u64;
                    Ok(())
                })
                .await;
                let _ = res;
                let path = format!("{prefix}_{run}.ndjson");
                let lines: Vec<String> = log.0.lock().unwrap().iter().map(|v| v.to_string()).collect();
                std::fs::write(&path, lines.join("\n") + "\n").unwrap();
                let mut g = rep.lock().unwrap();
                let nd = lines.iter().filter(|l| l.contains("\"dial\"")).count();
                let nf = lines.iter().filter(|l| l.contains("\"fwd\"")).count();
                let nr = lines.iter().filter(|l| l.contains("\"ok\":false")).count();
                *g.counters.entry("dials_observed".into()).or_insert(0) += nd as u64;
                *g.counters.entry("forwards_observed".into()).or_insert(0) += nf as u64;
                *g.counters.entry("batches_rejected".into()).or_insert(0) += nr as u64;
                if run == 0 {
                    g.sample(json!({"trace": path, "events": lines.len(), "dials": nd, "forwards": nf, "rejected": nr}));
                }
            }
        })
    });
    let mut rep = std::mem::take(&mut *rep.lock().unwrap());
    if let Err(p) = r {
        rep.fail("node_panic", format!("a task of the node panicked: {}", p.lines().next().unwrap_or("")), json!({"seed": seed}));
    }
    rep.write(&a[1]);
}

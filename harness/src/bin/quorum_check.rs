//! C07 (T3): the real threshold functions against (a) the TLC-generated table n |-> (f,q,s) and
//! (b) the characterisation 5f+1 <= n < 5f+6 (proved in Quorum.tla to pin f) evaluated in u128 on
//! boundary and seeded points of the 64-bit range; plus Schedule construction at the u64 boundary.
use rand::Rng;
use serde_json::json;
use vcore::*;
use zksync_consensus_roles::validator::{self, LeaderSelection, Schedule, ValidatorInfo};

fn check_char(rep: &mut Report, n: u64, origin: &str) {
    let r = catch(|| {
        (
            validator::max_faulty_weight(n),
            validator::quorum_threshold(n),
            validator::subquorum_threshold(n),
        )
    });
    rep.evaluations += 1;
    match r {
        Err(p) => rep.fail("threshold_panic", format!("panic for n={n}: {p}"), json!({"n": n.to_string(), "origin": origin})),
        Ok((f, q, s)) => {
            let (n1, f1, q1, s1) = (n as u128, f as u128, q as u128, s as u128);
            let ok = 5 * f1 + 1 <= n1
                && n1 < 5 * f1 + 6
                && q1 == n1 - f1
                && s1 + 3 * f1 == n1
                && 2 * q1 > n1 + f1
                && 2 * q1 - n1 - f1 >= s1
                && 2 * f1 < s1;
            if !ok {
                rep.fail(
                    "threshold_mismatch",
                    format!("n={n}: f={f} q={q} s={s} violate the C07 characterisation"),
                    json!({"n": n.to_string(), "f": f.to_string(), "q": q.to_string(), "s": s.to_string(), "origin": origin}),
                );
            }
        }
    }
}

fn main() {
    quiet_panics();
    let a = args();
    let (cases, out, seed, extra) = (&a[0], &a[1], a[2].parse::<u64>().unwrap(), a[3].parse::<u64>().unwrap());
    let mut rep = Report::default();
    // (a) spec table
    for c in read_cases(cases) {
        if c["kind"] == "committee" {
            // committee construction: accepted iff the total weight of ALL members is representable; then n = that total
            rep.evaluations += 1;
            rep.distinct += 1;
            let cap = u64_of(&c["cap"]);
            let unit = u64::MAX / cap;
            let members = c["members"].as_array().unwrap();
            let keys = validator_keys(members.len(), 77);
            let infos: Vec<validator::ValidatorInfo> = members
                .iter()
                .zip(&keys)
                .map(|(m, k)| validator::ValidatorInfo { key: k.public(), weight: u64_of(&m["w"]) * unit, leader: m["leader"].as_bool().unwrap() })
                .collect();
            let want_ok = c["ok"].as_bool().unwrap();
            let got = catch(|| validator::Schedule::new(infos.clone(), validator::LeaderSelection { frequency: 1, mode: validator::LeaderSelectionMode::RoundRobin }).ok().map(|s| (s.total_weight(), s.max_faulty_weight(), s.quorum_threshold(), s.subquorum_threshold())));
            match got {
                Err(p) => rep.fail("committee_panic", format!("Schedule::new panicked: {p}"), c.clone()),
                Ok(None) if want_ok => rep.fail("committee_refused", "a committee whose total weight is representable was refused", c.clone()),
                Ok(Some(_)) if !want_ok => rep.fail("committee_overflow_accepted", "a committee whose total weight is not representable in 64 bits was accepted", c.clone()),
                Ok(Some((n, f, q, sq))) => {
                    let total = u64_of(&c["units"]) * unit;
                    if n != total {
                        rep.fail("committee_total_mismatch", format!("total weight {n}, members sum to {total}"), c.clone());
                    } else if (f, q, sq) != (validator::max_faulty_weight(total), validator::quorum_threshold(total), validator::subquorum_threshold(total)) {
                        rep.fail("committee_threshold_mismatch", format!("thresholds of the committee ({f}, {q}, {sq}) are not those of its total weight"), c.clone());
                    }
                }
                Ok(None) => {}
            }
            continue;
        }
        let n = u64_of(&c["n"]);
        let want = (u64_of(&c["f"]), u64_of(&c["q"]), u64_of(&c["s"]));
        rep.evaluations += 1;
        rep.distinct += 1;
        let got = catch(|| (validator::max_faulty_weight(n), validator::quorum_threshold(n), validator::subquorum_threshold(n)));
        match got {
            Err(p) => rep.fail("threshold_panic", format!("panic for n={n}: {p}"), c.clone()),
            Ok(g) if g != want => rep.fail("threshold_mismatch", format!("n={n}: code {:?} spec {:?}", g, want), c.clone()),
            Ok(_) => {}
        }
        if n % 997 == 0 {
            rep.sample(json!({"n": n, "spec": [want.0, want.1, want.2]}));
        }
    }
    // (b) characterisation on boundary points
    let mut pts: Vec<u64> = vec![];
    for base in [1u64 << 16, 1 << 31, 1 << 32, 1 << 33, 1 << 53, 1 << 62, 1 << 63, u64::MAX - 16] {
        for d in 0..32u64 {
            pts.push(base.saturating_sub(16).saturating_add(d).max(1));
        }
    }
    for d in 0..16u64 {
        pts.push(u64::MAX - d);
    }
    // multiples of 5 +- 1 near u64::MAX/3, /5 (where 3*f or 5*f would be closest to overflowing)
    for base in [u64::MAX / 3, u64::MAX / 5, u64::MAX / 5 * 3] {
        for d in 0..12u64 {
            pts.push(base - 6 + d);
        }
    }
    pts.sort();
    pts.dedup();
    for n in &pts {
        check_char(&mut rep, *n, "boundary");
        rep.distinct += 1;
    }
    rep.sample(json!({"boundary_points": pts.len(), "last": pts.last().unwrap().to_string()}));
    let mut r = rng(seed);
    for _ in 0..extra {
        // log-uniform over the 64-bit range
        let bits = r.gen_range(1..=64u32);
        let n: u64 = if bits == 64 { r.gen::<u64>() | (1 << 63) } else { (r.gen::<u64>() & ((1u64 << bits) - 1)) | (1u64 << (bits - 1)) };
        check_char(&mut rep, n.max(1), "random");
        rep.distinct += 1;
    }
    // (c) Schedule at the u64 boundary: total exactly u64::MAX is accepted and thresholds work;
    // total u64::MAX+1 is refused by the constructor (schedule.rs:41-43).
    let ks = validator_keys(3, 7);
    let mk = |ws: [u64; 3]| {
        Schedule::new(
            ks.iter().zip(ws).map(|(k, w)| ValidatorInfo { key: k.public(), weight: w, leader: true }),
            LeaderSelection::default(),
        )
    };
    rep.evaluations += 2;
    match catch(|| mk([u64::MAX - 2, 1, 1])) {
        Ok(Ok(s)) => {
            if s.total_weight() != u64::MAX {
                rep.fail("schedule_total", "total weight wrong at u64::MAX", json!({"weights": "MAX-2,1,1"}));
            }
            let r = catch(|| (s.max_faulty_weight(), s.quorum_threshold(), s.subquorum_threshold()));
            match r {
                Ok((f, q, sq)) => {
                    let n = u64::MAX as u128;
                    if !(5 * (f as u128) + 1 <= n && n < 5 * (f as u128) + 6 && q as u128 == n - f as u128 && sq as u128 + 3 * f as u128 == n) {
                        rep.fail("threshold_mismatch", "Schedule thresholds wrong at total u64::MAX", json!({"f": f.to_string()}));
                    }
                }
                Err(p) => rep.fail("threshold_panic", format!("Schedule thresholds panic at u64::MAX: {p}"), json!({"weights": "MAX-2,1,1"})),
            }
        }
        Ok(Err(e)) => rep.fail("schedule_total", format!("Schedule with total u64::MAX refused: {e}"), json!({"weights": "MAX-2,1,1"})),
        Err(p) => rep.fail("schedule_panic", format!("Schedule::new panicked: {p}"), json!({"weights": "MAX-2,1,1"})),
    }
    match catch(|| mk([u64::MAX - 1, 1, 1])) {
        Ok(Ok(_)) => rep.fail("schedule_overflow_accepted", "Schedule with total weight 2^64 accepted", json!({"weights": "MAX-1,1,1"})),
        Ok(Err(_)) => {}
        Err(p) => rep.fail("schedule_panic", format!("Schedule::new panicked on overflow: {p}"), json!({"weights": "MAX-1,1,1"})),
    }
    rep.write(out);
}

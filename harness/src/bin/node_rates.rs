//! C15 at node level (T1, TraceNodeRate.tla): a REAL running node is configured with a different rate for every RPC it serves to a gossip peer;
//! a peer without any client-side rate then issues a burst of calls of one kind. The times at which the node answered are recorded per kind;
//! TLC checks them against the window bound of the rate configured for THAT kind.
//!   node_rates <trace-out> <report.json> <seed>
use std::sync::{Arc, Mutex};

use rand::SeedableRng;
use serde_json::json;
use vcore::{log::EventLog, *};
use zksync_concurrency::{ctx, limiter, scope, time};
use zksync_consensus_engine::{testonly::TestEngine, BlockStoreState};
use zksync_consensus_network::{gossip::verif as gv, testonly};
use zksync_consensus_roles::{node, validator};

fn main() {
    quiet_panics();
    let a = args();
    let seed: u64 = a[2].parse().unwrap();
    let rep = Arc::new(Mutex::new(Report::default()));
    let log = Arc::new(EventLog::new());
    let rt = tokio::runtime::Builder::new_multi_thread().worker_threads(4).enable_all().build().unwrap();
    let (rep2, log2) = (rep.clone(), log.clone());
    let r = catch(move || {
        rt.block_on(async move {
            let (rep, log) = (rep2, log2);
            let root = ctx::test_root(&ctx::RealClock);
            let ctx = &root.with_timeout(time::Duration::seconds(120));
            let mut rng = rand::rngs::StdRng::seed_from_u64(seed);
            let mut setup = validator::testonly::Setup::new_without_pregenesis(&mut rng, 1);
            setup.push_blocks_v2(&mut rng, 2);
            let mut cfg = testonly::new_configs(&mut rng, &setup, 0).remove(0);
            cfg.gossip.dynamic_inbound_limit = 10;
            // one rate per kind, all different; refresh far beyond the observation window: only the burst (+1) can be served in it
            let refresh = time::Duration::seconds(20);
            let bursts = [("push_block_store_state", 2usize), ("get_block", 9), ("push_validator_addrs", 5)];
            cfg.rpc.push_block_store_state_rate = limiter::Rate { burst: bursts[0].1, refresh };
            cfg.rpc.get_block_rate = limiter::Rate { burst: bursts[1].1, refresh };
            cfg.rpc.push_validator_addrs_rate = limiter::Rate { burst: bursts[2].1, refresh };
            let (i_state, i_block, i_addrs) = gv::rpc_inflight();
            log.emit(json!({"e": "header", "seed": seed, "rates": {
                "push_block_store_state": {"burst": bursts[0].1, "refresh": 20000, "inflight": i_state},
                "get_block": {"burst": bursts[1].1, "refresh": 20000, "inflight": i_block},
                "push_validator_addrs": {"burst": bursts[2].1, "refresh": 20000, "inflight": i_addrs}}}));
            let res: anyhow::Result<()> = scope::run!(ctx, |ctx, s| async {
                let engine = TestEngine::new(ctx, &setup).await;
                s.spawn_bg(engine.runner.run(ctx));
                let (_node, runner) = testonly::Instance::new(cfg.clone(), engine.manager.clone());
                s.spawn_bg(async {
                    let _ = runner.run(ctx).await;
                    Ok(())
                });
                let addr = *cfg.server_addr;
                let node_key = cfg.gossip.key.public();
                let genesis = setup.genesis_hash();
                let state = BlockStoreState { first: setup.first_block(), last: None };
                for (kind, _) in bursts {
                    // a fresh peer identity (= a fresh connection, fresh limiters) per kind
                    let me = gv::test_config(node::SecretKey::generate());
                    let mut conn = None;
                    for _ in 0..500 {
                        match gv::dial(ctx, addr, &me, genesis, &node_key).await {
                            Ok(d) => {
                                conn = Some(d);
                                break;
                            }
                            Err(_) => ctx.sleep(time::Duration::milliseconds(10)).await?,
                        }
                    }
                    let Some(conn) = conn else {
                        rep.lock().unwrap().fail("node_not_up", "the node never accepted a connection (harness problem)", json!({"seed": seed}));
                        return Ok(());
                    };
                    // 16 calls at once, 2.5 s to answer them
                    let times = gv::hammer(&ctx.with_timeout(time::Duration::milliseconds(2500)), conn, kind, 16, state.clone()).await;
                    let mut g = rep.lock().unwrap();
                    g.evaluations += 16;
                    g.distinct += 1;
                    g.add(&format!("answered_{kind}"), times.len() as u64);
                    for t in times {
                        log.emit(json!({"e": "done", "rpc": kind, "t": t}));
                    }
                }
                Ok(())
            })
            .await;
            if let Err(e) = res {
                rep.lock().unwrap().notes.push(format!("scope ended with {e:?}").lines().next().unwrap_or("").to_string());
            }
        })
    });
    let mut rep = std::mem::take(&mut *rep.lock().unwrap());
    if let Err(p) = r {
        rep.fail("node_panic", format!("a task of the node panicked: {}", p.lines().next().unwrap_or("")), json!({"seed": seed}));
    }
    log.write(&a[0]);
    rep.write(&a[1]);
}

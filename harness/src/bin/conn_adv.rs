//! C10: adversarial inputs against real components, every call under catch_unwind (harness builds with panic=unwind).
//!   conn_adv mux <cases.ndjson> <report.json>        header paths enumerated by ConnAdv.tla against a real Mux
//!   conn_adv data <report.json> <seed> <n>           decoder extremes / mutations, extreme signed consensus messages, noise and frame garbage
use std::sync::{Arc, Mutex};

use rand::{Rng, SeedableRng};
use serde_json::{json, Value};
use tokio::io::AsyncReadExt;
use vcore::{bft::*, pipe, *};
use zksync_concurrency::{ctx, limiter, time};
use zksync_consensus_network::verif::{Mux, MuxConfig, NoiseStream, StreamQueue};
use zksync_consensus_roles::validator;
use zksync_protobuf::ProtoFmt;

const FRAME: u64 = 256;

fn header(kind: &str, side: &str, id: u16) -> [u8; 2] {
    let k: u16 = match kind { "OPEN" => 0, "DATA" => 0b0100_0000_0000_0000, "CLOSE" => 0b1000_0000_0000_0000, _ => 0b1100_0000_0000_0000 };
    let s: u16 = if side == "CONNECT" { 0b0010_0000_0000_0000 } else { 0 };
    (k | s | id).to_le_bytes()
}

fn mk_mux(ctx: &ctx::Ctx) -> Mux {
    let q1 = StreamQueue::new(ctx, 2, limiter::Rate::INF);
    let q2 = StreamQueue::new(ctx, 2, limiter::Rate::INF);
    Mux {
        cfg: MuxConfig { read_frame_size: FRAME, read_buffer_size: FRAME * 4, read_frame_count: 8, write_frame_size: FRAME },
        accept: [(0, q1)].into_iter().collect(),
        connect: [(0, q2)].into_iter().collect(),
    }
}

/// Bytes of a correct mux handshake frame, as a real peer Mux with the same capabilities sends it.
async fn peer_handshake_bytes(ctx: &ctx::Ctx) -> Vec<u8> {
    let (ea, _eb, ab, _ba) = pipe::pair();
    ab.lock().unwrap().auto = false;
    let m = mk_mux(ctx);
    let cctx = ctx.with_timeout(time::Duration::milliseconds(200));
    let _ = m.run(&cctx, ea).await;
    let v = ab.lock().unwrap().staging.clone();
    v
}

async fn mux_case(case: &Value, hs: &[u8]) -> Result<(bool, String), String> {
    let clock = ctx::RealClock;
    let root = ctx::test_root(&clock);
    let ctx = &root.with_timeout(time::Duration::seconds(10));
    let (ea, eb, _ab, ba) = pipe::pair();
    drop(eb);
    // the adversary writes into direction B->A directly
    let m = mk_mux(ctx);
    let done = Arc::new(Mutex::new(None::<String>));
    let d2 = done.clone();
    let rctx = root.with_timeout(time::Duration::seconds(10));
    let h = tokio::spawn(async move {
        let r = m.run(&rctx, ea).await;
        *d2.lock().unwrap() = Some(format!("{r:?}"));
    });
    pipe::release(&ba, hs);
    let mut cut = false;
    for s in case["path"].as_array().unwrap() {
        let id: u16 = match s["id"].as_str().unwrap() { "in" => 1, "out" => 2, _ => 8191 };
        let mut bytes = header(s["kind"].as_str().unwrap(), s["side"].as_str().unwrap(), id).to_vec();
        if s["kind"] == "DATA" {
            let (len, send): (u16, usize) = match s["len"].as_str().unwrap() {
                "0" => (0, 0),
                "1" => (1, 1),
                "frame" => (FRAME as u16, FRAME as usize),
                "frame+1" => (FRAME as u16 + 1, FRAME as usize + 1),
                "65535" => (65535, 65535),
                _ => {
                    cut = true;
                    (1000, 10)
                }
            };
            bytes.extend(len.to_le_bytes());
            bytes.extend(std::iter::repeat(0xabu8).take(send));
        }
        pipe::release(&ba, &bytes);
        if cut {
            break;
        }
    }
    if cut {
        pipe::close(&ba);
    }
    for _ in 0..200 {
        tokio::task::yield_now().await;
        if done.lock().unwrap().is_some() {
            break;
        }
    }
    tokio::time::sleep(std::time::Duration::from_millis(3)).await;
    let closed = done.lock().unwrap().is_some();
    pipe::close(&ba);
    match h.await {
        Ok(()) => Ok((closed, done.lock().unwrap().clone().unwrap_or_default())),
        Err(e) if e.is_panic() => Err(format!("panic: {:?}", e.into_panic().downcast_ref::<&str>().map(|s| s.to_string()).or(None))),
        Err(e) => Err(format!("join error: {e}")),
    }
}

fn try_decode<T: ProtoFmt>(name: &str, bytes: &[u8], rep: &mut Report, origin: &str) {
    rep.evaluations += 1;
    if let Err(p) = catch(|| {
        let _ = zksync_protobuf::decode::<T>(bytes);
    }) {
        let key = if p.contains("overflow constructing") || p.contains("overflow") && name.contains("time") { "decode_panic_time_overflow" } else if name == "Genesis" && p.contains("unreachable") { "decode_panic_genesis_version" } else { "decode_panic" };
        rep.fail(key, format!("decoding a {name} panicked: {p}"), json!({"type": name, "origin": origin, "bytes_hex": bytes.iter().take(200).map(|b| format!("{b:02x}")).collect::<String>()}));
    }
}

fn mutate<T: ProtoFmt>(name: &str, valid: &[u8], rng: &mut rand::rngs::StdRng, n: usize, rep: &mut Report) {
    rep.distinct += 1;
    try_decode::<T>(name, valid, rep, "valid");
    try_decode::<T>(name, &[], rep, "empty");
    let step = (valid.len() / 40).max(1);
    for k in (0..valid.len()).step_by(step) {
        try_decode::<T>(name, &valid[..k], rep, "truncated");
    }
    for _ in 0..n {
        let mut b = valid.to_vec();
        if b.is_empty() {
            break;
        }
        match rng.gen_range(0..5) {
            0 => {
                let i = rng.gen_range(0..b.len());
                b[i] ^= 1 << rng.gen_range(0..8);
            }
            1 => {
                let i = rng.gen_range(0..b.len());
                b[i] = 0xff;
            }
            2 => {
                // varint extremes: replace a byte by a maximal 10-byte varint
                let i = rng.gen_range(0..b.len());
                b.splice(i..i + 1, [0xffu8, 0xff, 0xff, 0xff, 0xff, 0xff, 0xff, 0xff, 0xff, 0x01]);
            }
            3 => {
                let i = rng.gen_range(0..b.len());
                let j = rng.gen_range(i..b.len());
                b.drain(i..j);
            }
            _ => {
                let i = rng.gen_range(0..b.len());
                let extra: Vec<u8> = (0..rng.gen_range(1..20)).map(|_| rng.gen()).collect();
                b.splice(i..i, extra);
            }
        }
        try_decode::<T>(name, &b, rep, "mutated");
    }
    for _ in 0..n / 4 {
        let b: Vec<u8> = (0..rng.gen_range(1..64)).map(|_| rng.gen()).collect();
        try_decode::<T>(name, &b, rep, "random");
    }
}

fn data_cases(rep: &mut Report, seed: u64, n: usize) {
    use prost::Message as _;
    use zksync_protobuf::proto::std as pstd;
    let mut rng = rand::rngs::StdRng::seed_from_u64(seed);
    // ---- directed extremes of the std conversions (timestamps/durations arrive inside NetAddress from any gossip peer)
    for secs in [0i64, 1, -1, i64::MAX, i64::MIN + 1, i64::MAX - 1] {
        for nanos in [0i32, 1, -1, 999_999_999, 1_000_000_000, i32::MAX, i32::MIN, -999_999_999, -1_000_000_000] {
            let t = pstd::Timestamp { seconds: Some(secs), nanos: Some(nanos) }.encode_to_vec();
            try_decode::<time::Utc>("time::Utc", &t, rep, &format!("seconds={secs} nanos={nanos}"));
            let d = pstd::Duration { seconds: Some(secs), nanos: Some(nanos) }.encode_to_vec();
            try_decode::<time::Duration>("time::Duration", &d, rep, &format!("seconds={secs} nanos={nanos}"));
            rep.distinct += 2;
        }
    }
    for port in [0u32, 65535, 65536, u32::MAX] {
        for ip in [vec![], vec![1, 2, 3, 4], vec![0; 16], vec![0; 5], vec![0; 17]] {
            let a = pstd::SocketAddr { ip: Some(ip.clone()), port: Some(port) }.encode_to_vec();
            try_decode::<std::net::SocketAddr>("SocketAddr", &a, rep, "extreme");
        }
    }
    for size in [0u64, 1, 7, 8, 9, u64::MAX, 1 << 40] {
        for bytes in [vec![], vec![0xff], vec![0xff; 2]] {
            let b = pstd::BitVector { size: Some(size), bytes: Some(bytes.clone()) }.encode_to_vec();
            try_decode::<bit_vec::BitVec>("BitVec", &b, rep, "extreme");
        }
    }
    for burst in [0u64, 1, u64::MAX] {
        for refresh in [(0i64, 0i32), (i64::MAX, i32::MAX), (-1, -1)] {
            let r = pstd::RateLimit { burst: Some(burst), refresh: Some(pstd::Duration { seconds: Some(refresh.0), nanos: Some(refresh.1) }) }.encode_to_vec();
            try_decode::<limiter::Rate>("limiter::Rate", &r, rep, "extreme");
        }
    }
    // genesis with every protocol version
    {
        use zksync_consensus_roles::proto::validator as pv;
        let g: validator::Genesis = rng.gen();
        let mut p = g.build();
        for ver in [0u32, 1, 2, 3, u32::MAX] {
            p.protocol_version = Some(ver);
            try_decode::<validator::Genesis>("Genesis", &p.encode_to_vec(), rep, &format!("protocol_version={ver}"));
            rep.distinct += 1;
        }
        let _ = pv::Genesis::default();
    }
    // ---- mutations of valid encodings of every public wire / storage type
    macro_rules! m {
        ($t:ty, $name:expr) => {{
            let v: $t = rng.gen();
            let enc = zksync_protobuf::encode(&v);
            mutate::<$t>($name, &enc, &mut rng, n, rep);
        }};
    }
    for _ in 0..3 {
        m!(validator::Msg, "validator::Msg");
        m!(validator::Signed<validator::ConsensusMsg>, "Signed<ConsensusMsg>");
        m!(validator::Genesis, "Genesis");
        m!(validator::ReplicaState, "ReplicaState");
        m!(validator::Block, "Block");
        m!(validator::v2::FinalBlock, "FinalBlock");
        m!(validator::v2::TimeoutQC, "TimeoutQC");
        m!(validator::v2::CommitQC, "CommitQC");
        m!(validator::Schedule, "Schedule");
        m!(validator::Signed<validator::NetAddress>, "Signed<NetAddress>");
    }
}

/// validly signed consensus messages with extreme field values against the real handler and the real inbound queue
async fn consensus_extremes(rep: &mut Report) {
    use validator::v2::*;
    let c = Committee::new(&[3, 1, 1, 1], 1);
    let f = Forge { c: &c };
    let mut labels = Labels::default();
    let p = labels.payload("p");
    let b = 2usize; // the faulty committee member
    let big = [u64::MAX, u64::MAX - 1, 1 << 63];
    let mut msgs: Vec<(String, SMsg)> = vec![];
    for v in big {
        let vote = f.vote(v, v, &p);
        msgs.push((format!("commit view={v} number={v}"), f.commit(b, vote.clone())));
        msgs.push((format!("timeout view={v}"), f.sign(b, ChonkyMsg::ReplicaTimeout(ReplicaTimeout { view: c.view(v), high_vote: Some(vote.clone()), high_qc: None }))));
        let qc = f.commit_qc(&[f.commit(b, vote.clone()).cast().unwrap()]).unwrap();
        msgs.push((format!("newview with commit certificate view={v}"), f.sign(b, ChonkyMsg::ReplicaNewView(ReplicaNewView { justification: ProposalJustification::Commit(qc.clone()) }))));
        msgs.push((format!("proposal with commit certificate view={v}"), f.sign(b, ChonkyMsg::LeaderProposal(LeaderProposal { proposal_payload: Some(p.clone()), justification: ProposalJustification::Commit(qc.clone()) }))));
        let tq = f.timeout_qc(v, &[f.sign(b, ChonkyMsg::ReplicaTimeout(ReplicaTimeout { view: c.view(v), high_vote: None, high_qc: Some(qc.clone()) })).cast().unwrap()]);
        msgs.push((format!("newview with timeout certificate view={v}"), f.sign(b, ChonkyMsg::ReplicaNewView(ReplicaNewView { justification: ProposalJustification::Timeout(tq.clone()) }))));
        msgs.push((format!("proposal with timeout certificate view={v}"), f.sign(b, ChonkyMsg::LeaderProposal(LeaderProposal { proposal_payload: None, justification: ProposalJustification::Timeout(tq) }))));
    }
    // empty / oversized collections
    let empty_tq = TimeoutQC::new(c.view(3));
    msgs.push(("newview with an empty timeout certificate".into(), f.sign(b, ChonkyMsg::ReplicaNewView(ReplicaNewView { justification: ProposalJustification::Timeout(empty_tq) }))));
    let mut wide = f.commit_qc(&[f.commit(b, f.vote(3, 0, &p)).cast().unwrap()]).unwrap();
    wide.signers = Signers(bit_vec::BitVec::from_elem(100_000, true));
    msgs.push(("newview with a 100000-bit signer bitmap".into(), f.sign(b, ChonkyMsg::ReplicaNewView(ReplicaNewView { justification: ProposalJustification::Commit(wide) }))));
    let mut empty_signers = f.commit_qc(&[f.commit(b, f.vote(3, 0, &p)).cast().unwrap()]).unwrap();
    empty_signers.signers = Signers(bit_vec::BitVec::new());
    msgs.push(("newview with an empty signer bitmap".into(), f.sign(b, ChonkyMsg::ReplicaNewView(ReplicaNewView { justification: ProposalJustification::Commit(empty_signers) }))));
    msgs.push(("proposal with a 2 MB payload".into(), f.sign(b, ChonkyMsg::LeaderProposal(LeaderProposal { proposal_payload: Some(validator::Payload(vec![1; 2_000_000])), justification: ProposalJustification::Timeout(TimeoutQC::new(c.view(0))) }))));
    for (what, m) in msgs {
        rep.evaluations += 2;
        rep.distinct += 1;
        // (a) the handler of a real replica
        let m2 = m.clone();
        let r = tokio::task::spawn(async move {
            let mut w = World::new(&[3, 1, 1, 1], &[2], 1).await;
            w.step(1, StepKind::Boot).await;
            let res = w.step(1, StepKind::Recv(m2)).await;
            w.shutdown().await;
            res.accepted
        })
        .await;
        if let Err(e) = r {
            let key = if what.contains("view=18446744073709551615") { "handler_panic_view_max" } else { "handler_panic" };
            rep.fail(key, format!("replica handler panicked on a validly signed message ({what}): {e}"), json!({"message": what}));
        }
        // (b) the real inbound queue (filter + selection function) with another message of the same sender and kind pending
        let m3 = m.clone();
        let r = catch(|| {
            let (tx, _rx) = zksync_consensus_bft::create_input_channel();
            for _ in 0..2 {
                let (ack, _a) = zksync_concurrency::oneshot::channel();
                tx.send(zksync_consensus_bft::FromNetworkMessage { msg: m3.clone(), ack });
            }
        });
        if let Err(pm) = r {
            let key = if what.contains("view=18446744073709551615") { "queue_panic_view_max" } else { "queue_panic" };
            rep.fail(key, format!("inbound queue panicked on a validly signed message ({what}): {pm}"), json!({"message": what}));
        }
    }
}

async fn noise_garbage(rep: &mut Report, seed: u64) {
    let clock = ctx::RealClock;
    let root = ctx::test_root(&clock);
    let mut rng = rand::rngs::StdRng::seed_from_u64(seed);
    let inputs: Vec<(String, Vec<u8>)> = vec![
        ("empty".into(), vec![]),
        ("zero-length frame".into(), vec![0, 0]),
        ("oversized length, no data".into(), vec![0xff, 0xff]),
        ("one byte".into(), vec![7]),
        ("random 64 bytes".into(), (0..64).map(|_| rng.gen()).collect()),
        ("random 70000 bytes".into(), (0..70000).map(|_| rng.gen()).collect()),
    ];
    for (what, bytes) in &inputs {
        // (a) during the handshake
        rep.evaluations += 1;
        rep.distinct += 1;
        let (a, _b, _ab, ba) = pipe::pair();
        pipe::release(&ba, bytes);
        pipe::close(&ba);
        let cctx = root.with_timeout(time::Duration::seconds(5));
        let r = tokio::task::spawn(async move { NoiseStream::server(&cctx, a).await.is_ok() }).await;
        if let Err(e) = r {
            rep.fail("noise_panic", format!("noise handshake panicked on {what}: {e}"), json!({"stage": "handshake", "input": what}));
        }
        // (b) after the handshake
        rep.evaluations += 1;
        let (a, b, ab, _ba) = pipe::pair();
        let cctx = root.with_timeout(time::Duration::seconds(5));
        let (w, r) = tokio::join!(NoiseStream::client(&cctx, a), NoiseStream::server(&cctx, b));
        if let (Ok(_w), Ok(mut r)) = (w, r) {
            pipe::release(&ab, bytes);
            pipe::close(&ab);
            let what2 = what.clone();
            let res = tokio::task::spawn(async move {
                let mut buf = vec![0u8; 1000];
                let mut total = 0usize;
                loop {
                    match r.read(&mut buf).await {
                        Ok(0) | Err(_) => break,
                        Ok(n) => total += n,
                    }
                }
                total
            })
            .await;
            match res {
                Err(e) => rep.fail("noise_panic", format!("noise read panicked on {what2}: {e}"), json!({"stage": "transport", "input": what2})),
                Ok(n) if n > 0 => rep.fail("noise_garbage_delivered", format!("{n} plaintext bytes delivered from garbage ciphertext ({what2})"), json!({"stage": "transport", "input": what2})),
                _ => {}
            }
        }
    }
}

fn main() {
    let a = args();
    let mut rep = Report::default();
    let rt = tokio::runtime::Builder::new_multi_thread().worker_threads(2).enable_all().build().unwrap();
    // panics inside spawned tasks must be observable as JoinError, not abort the run: keep the default hook quiet
    quiet_panics();
    match a[0].as_str() {
        "mux" => {
            let hs = rt.block_on(async {
                let clock = ctx::RealClock;
                let root = ctx::test_root(&clock);
                peer_handshake_bytes(&root).await
            });
            if hs.len() < 4 {
                rep.fail("harness", "could not capture mux handshake bytes", json!({}));
            }
            for case in read_cases(&a[1]) {
                rep.evaluations += 1;
                rep.distinct += 1;
                let r = catch(|| rt.block_on(mux_case(&case, &hs)));
                let tag = json!({"mode": "mux", "case": case});
                let has_bad = case["path"].as_array().unwrap().iter().any(|s| s["kind"] == "BAD" && s["id"] == "in");
                match r {
                    Err(p) | Ok(Err(p)) => {
                        let key = if has_bad { "mux_panic_bad_frame_kind" } else { "mux_panic" };
                        rep.fail(key, format!("Mux::run panicked on an adversarial header sequence: {p}"), tag);
                    }
                    Ok(Ok((closed, how))) => {
                        let want_closed = case["final"] == "closed";
                        if want_closed != closed {
                            rep.count("reaction_drift");
                            if rep.notes.len() < 5 {
                                rep.notes.push(format!("path {} : connection {} (spec: {}) [{}]", case["path"], if closed { "closed" } else { "still open" }, case["final"], how.chars().take(60).collect::<String>()).chars().take(300).collect::<String>());
                            }
                        }
                    }
                }
                if rep.evaluations % 199 == 1 {
                    rep.sample(case.clone());
                }
            }
            rep.write(&a[2]);
        }
        "data" => {
            let seed: u64 = a[2].parse().unwrap();
            let n: usize = a[3].parse().unwrap();
            data_cases(&mut rep, seed, n);
            rt.block_on(consensus_extremes(&mut rep));
            rt.block_on(noise_garbage(&mut rep, seed));
            rep.sample(json!({"seed": seed, "mutations_per_type": n}));
            rep.write(&a[1]);
        }
        _ => panic!("mode"),
    }
}

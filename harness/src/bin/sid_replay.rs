//! C12 (T2), SessionId.tla: where the identifier that the identity handshakes sign comes from. Every case of MC_SessionId.tla is a
//! list of sessions; the honest ends are the real `noise::Stream` (through the hook, over an in-memory pipe), the adversary's ends
//! are a raw noise peer built here with an ephemeral key that is FIXED per adversary key number (i.e. reused across sessions).
//! Checked: both ends of one session compute the same identifier, and two sessions with an honest end share an identifier exactly
//! when the specification says so (never). The identifier a raw peer derives from the completed handshake (the handshake hash of the
//! noise specification) is compared too, as drift.
//!   sid_replay <cases.ndjson> <report.json>
use serde_json::json;
use tokio::io::{AsyncReadExt, AsyncWriteExt};
use vcore::*;
use zksync_concurrency::ctx;
use zksync_consensus_network::verif::NoiseStream;

fn params() -> snow::params::NoiseParams {
    // the node's fixed configuration (noise/stream.rs:19-36); the protocol name is part of the handshake hash
    let mut p: snow::params::NoiseParams = "Noise_NN_25519_ChaChaPoly_SHA256".parse().unwrap();
    p.name = "zksync-bft".to_string();
    p
}

fn eph(k: u64) -> [u8; 32] {
    let mut e = [0u8; 32];
    for (i, b) in e.iter_mut().enumerate() {
        *b = (k as u8).wrapping_mul(37).wrapping_add(i as u8).wrapping_mul(11) | 1;
    }
    e
}

/// The adversary's end: plays the handshake by hand with a fixed ephemeral key; returns the handshake hash.
async fn raw_peer(mut s: tokio::io::DuplexStream, initiator: bool, k: u64) -> Result<Vec<u8>, String> {
    let e = eph(k);
    let b = snow::Builder::new(params()).fixed_ephemeral_key_for_testing_only(&e);
    let mut hs = if initiator { b.build_initiator() } else { b.build_responder() }.map_err(|e| e.to_string())?;
    let mut buf = vec![0u8; 65536];
    let mut payload = vec![0u8; 65536];
    while !hs.is_handshake_finished() {
        if hs.is_my_turn() {
            let n = hs.write_message(&[], &mut buf).map_err(|e| e.to_string())?;
            s.write_all(&(n as u16).to_le_bytes()).await.map_err(|e| e.to_string())?;
            s.write_all(&buf[..n]).await.map_err(|e| e.to_string())?;
            s.flush().await.map_err(|e| e.to_string())?;
        } else {
            let mut l = [0u8; 2];
            s.read_exact(&mut l).await.map_err(|e| e.to_string())?;
            let n = u16::from_le_bytes(l) as usize;
            s.read_exact(&mut buf[..n]).await.map_err(|e| e.to_string())?;
            hs.read_message(&buf[..n], &mut payload).map_err(|e| e.to_string())?;
        }
    }
    Ok(hs.get_handshake_hash().to_vec())
}

/// One session; returns (identifier at the honest end(s), raw handshake hash if an adversary end exists).
async fn session(root: &ctx::Ctx, role: &str, k: u64) -> Result<(Vec<u8>, Option<Vec<u8>>), (String, String)> {
    let (a, b) = tokio::io::duplex(1 << 17);
    let hs = |e: String| ("noise_handshake".to_string(), e);
    match role {
        "honest_both" => {
            let (c, s) = tokio::join!(NoiseStream::client(root, a), NoiseStream::server(root, b));
            let (c, s) = (c.map_err(|e| hs(format!("{e:?}")))?, s.map_err(|e| hs(format!("{e:?}")))?);
            if c.id() != s.id() {
                return Err(("session_id_disagree".into(), "the two ends of one session computed different identifiers".into()));
            }
            Ok((c.id(), None))
        }
        "adv_initiates" => {
            let (r, s) = tokio::join!(raw_peer(a, true, k), NoiseStream::server(root, b));
            Ok((s.map_err(|e| hs(format!("{e:?}")))?.id(), Some(r.map_err(hs)?)))
        }
        "adv_responds" => {
            let (r, c) = tokio::join!(raw_peer(a, false, k), NoiseStream::client(root, b));
            Ok((c.map_err(|e| hs(format!("{e:?}")))?.id(), Some(r.map_err(hs)?)))
        }
        _ => Err(("bad_case".into(), role.to_string())),
    }
}

fn main() {
    quiet_panics();
    let a = args();
    let mut rep = Report::default();
    let rt = tokio::runtime::Builder::new_current_thread().enable_all().build().unwrap();
    let clock = ctx::ManualClock::new();
    let root = ctx::test_root(&clock);
    let mut drift = 0u64;
    for case in read_cases(&a[0]) {
        rep.evaluations += 1;
        rep.distinct += 1;
        let roles: Vec<String> = case["roles"].as_array().unwrap().iter().map(|r| r.as_str().unwrap().to_string()).collect();
        let ks: Vec<u64> = case["adv_eph"].as_array().unwrap().iter().map(u64_of).collect();
        let want_distinct = case["distinct"].as_bool().unwrap();
        let res = catch(|| {
            rt.block_on(async {
                let mut ids = vec![];
                for (r, k) in roles.iter().zip(&ks) {
                    ids.push(session(&root, r, *k).await?);
                }
                Ok::<_, (String, String)>(ids)
            })
        });
        match res {
            Err(p) => rep.fail("noise_panic", format!("panic: {p}"), json!({"mode": "sid", "case": case})),
            Ok(Err((k, w))) => rep.fail(k, w, json!({"mode": "sid", "case": case})),
            Ok(Ok(ids)) => {
                let mut distinct = true;
                for i in 0..ids.len() {
                    for j in i + 1..ids.len() {
                        if ids[i].0 == ids[j].0 {
                            distinct = false;
                        }
                    }
                }
                if distinct != want_distinct {
                    rep.fail(
                        "session_id_shared",
                        format!("two different encrypted sessions with an honest end have the same session identifier (roles {roles:?}, adversary ephemerals {ks:?}): a proof of identity made on one is valid on the other"),
                        json!({"mode": "sid", "case": case}),
                    );
                }
                for (id, raw) in &ids {
                    if let Some(h) = raw {
                        use zksync_consensus_crypto::{keccak256::Keccak256, ByteFmt};
                        // the code wraps the 32-byte handshake hash as is
                        let same = Keccak256::decode(h).map(|x| x.encode() == *id).unwrap_or(false);
                        if !same {
                            drift += 1;
                        }
                    }
                }
                if rep.evaluations % 5 == 1 {
                    rep.sample(json!({"roles": roles, "adv_eph": ks, "ids": ids.iter().map(|x| x.0.iter().take(6).map(|b| format!("{b:02x}")).collect::<String>()).collect::<Vec<_>>()}));
                }
            }
        }
    }
    rep.add("sid_differs_from_noise_handshake_hash", drift);
    rep.write(&a[1]);
}

//! C08 / C04 (T1): block ADMISSION and the dynamic validator schedule of a real `EngineManager` (manager.rs queue_block, schedule loop),
//! validated against Epochs.tla. Execution layer: genesis.first_block = G, no static schedule, epoch k = [G + k*L, G + (k+1)*L),
//! committee A for even epochs, B for odd ones (one validator each, so that certificates are cheap). ManualClock: one `tick` = one
//! fetch interval = one iteration of the schedule loop. Seeded operations: offer a block (externally justified or certified; number =
//! next or lower; claimed epoch 0..4; signed by A or B; valid / wrong aggregate / payload mismatch / refused external justification),
//! tick, restart. After every operation the observable state is recorded: known schedule (epoch, activation, expiration), next block.
//!   epoch_drv <trace-out> <report-out> <seed> <steps> <G> <L>
use std::{
    collections::BTreeMap,
    sync::{Arc, Mutex},
};

use anyhow::Context as _;
use rand::Rng;
use serde_json::{json, Value};
use vcore::{bft::Committee, log::EventLog, *};
use zksync_concurrency::{ctx, scope, sync, time};
use zksync_consensus_engine::{BlockStoreState, EngineInterface, EngineManager, Last, Transaction};
use zksync_consensus_roles::validator::{self, Block, BlockNumber, Justification, Payload, PreGenesisBlock};

#[derive(Debug)]
struct Inner {
    genesis: validator::Genesis,
    g: u64,
    l: u64,
    schedules: [validator::Schedule; 2],
    persisted: sync::watch::Sender<BlockStoreState>,
    blocks: Mutex<BTreeMap<u64, Block>>,
}

#[derive(Debug, Clone)]
struct EpochEngine(Arc<Inner>);

impl EpochEngine {
    fn epoch_of(&self, n: u64) -> u64 {
        n.saturating_sub(self.0.g) / self.0.l
    }
}

#[async_trait::async_trait]
impl EngineInterface for EpochEngine {
    async fn genesis(&self, _ctx: &ctx::Ctx) -> ctx::Result<validator::Genesis> {
        Ok(self.0.genesis.clone())
    }
    async fn get_validator_schedule(&self, _ctx: &ctx::Ctx, n: BlockNumber) -> ctx::Result<(validator::Schedule, BlockNumber)> {
        let e = self.epoch_of(n.0);
        Ok((self.0.schedules[(e % 2) as usize].clone(), BlockNumber(self.0.g + e * self.0.l)))
    }
    async fn get_pending_validator_schedule(&self, _ctx: &ctx::Ctx, n: BlockNumber) -> ctx::Result<Option<(validator::Schedule, BlockNumber)>> {
        let e = self.epoch_of(n.0) + 1;
        Ok(Some((self.0.schedules[(e % 2) as usize].clone(), BlockNumber(self.0.g + e * self.0.l))))
    }
    fn persisted(&self) -> sync::watch::Receiver<BlockStoreState> {
        self.0.persisted.subscribe()
    }
    async fn get_block(&self, _ctx: &ctx::Ctx, number: BlockNumber) -> ctx::Result<Block> {
        Ok(self.0.blocks.lock().unwrap().get(&number.0).context("not found")?.clone())
    }
    async fn queue_next_block(&self, _ctx: &ctx::Ctx, block: Block) -> ctx::Result<()> {
        let last = match &block {
            Block::PreGenesis(b) => Last::PreGenesis(b.number),
            Block::FinalV2(b) => Last::FinalV2(b.justification.clone()),
        };
        self.0.blocks.lock().unwrap().insert(block.number().0, block);
        self.0.persisted.send_modify(|s| s.last = Some(last));
        Ok(())
    }
    async fn verify_pregenesis_block(&self, _ctx: &ctx::Ctx, b: &PreGenesisBlock) -> ctx::Result<()> {
        if b.justification.0.first().copied().unwrap_or(9) >= 9 {
            return Err(anyhow::format_err!("invalid pre-genesis block").into());
        }
        Ok(())
    }
    async fn verify_payload(&self, _ctx: &ctx::Ctx, _n: BlockNumber, _p: &Payload) -> ctx::Result<()> {
        Ok(())
    }
    async fn propose_payload(&self, _ctx: &ctx::Ctx, _n: BlockNumber) -> ctx::Result<Payload> {
        Ok(Payload(vec![]))
    }
    async fn get_state(&self, _ctx: &ctx::Ctx) -> ctx::Result<validator::ReplicaState> {
        Ok(validator::ReplicaState::default())
    }
    async fn set_state(&self, _ctx: &ctx::Ctx, _s: &validator::ReplicaState) -> ctx::Result<()> {
        Ok(())
    }
    async fn push_tx(&self, _ctx: &ctx::Ctx, _tx: Transaction) -> ctx::Result<bool> {
        Ok(false)
    }
}

async fn settle() {
    for _ in 0..120 {
        tokio::task::yield_now().await;
    }
}

struct Incarnation {
    manager: Arc<EngineManager>,
    stop: Option<tokio::sync::oneshot::Sender<()>>,
    runner: tokio::task::JoinHandle<()>,
}

const INTERVAL_S: i64 = 1;

async fn start(root: &ctx::Ctx, engine: &EpochEngine) -> Incarnation {
    let (manager, runner) = EngineManager::new(root, Box::new(engine.clone()), time::Duration::seconds(INTERVAL_S)).await.unwrap();
    let rc = root.with_deadline(time::Deadline::Infinite);
    let (stop_tx, stop_rx) = tokio::sync::oneshot::channel::<()>();
    let handle = tokio::spawn(async move {
        let _: Result<(), ctx::Error> = scope::run!(&rc, |ctx, s| async move {
            s.spawn_bg(async move {
                let _ = runner.run(ctx).await;
                Ok(())
            });
            let _ = stop_rx.await;
            Ok(())
        })
        .await;
    });
    Incarnation { manager, stop: Some(stop_tx), runner: handle }
}

fn snapshot(m: &EngineManager) -> Value {
    let mut sched = vec![];
    for e in 0..2000u64 {
        if let Some(s) = m.validator_schedule(validator::EpochNumber(e)) {
            sched.push(json!({"e": e, "act": s.activation_block.0, "exp": s.expiration_block.map(|b| b.0 as i64).unwrap_or(-1)}));
        }
    }
    json!({"sched": sched, "next": m.queued().next().0, "pnext": m.persisted().next().0})
}

async fn run(trace: &str, report: &str, seed: u64, steps: u64, g: u64, l: u64) {
    let clock = ctx::ManualClock::new();
    let root = ctx::test_root(&clock);
    let (ca, cb) = (Committee::new(&[1], seed * 2 + 11), Committee::new(&[1], seed * 2 + 12));
    let genesis = validator::GenesisRaw {
        chain_id: validator::ChainId(1),
        fork_number: validator::ForkNumber(0),
        protocol_version: validator::ProtocolVersion::CURRENT,
        first_block: BlockNumber(g),
        validators_schedule: None,
    }
    .with_hash();
    let engine = EpochEngine(Arc::new(Inner {
        genesis: genesis.clone(),
        g,
        l,
        schedules: [ca.schedule.clone(), cb.schedule.clone()],
        persisted: sync::watch::channel(BlockStoreState { first: BlockNumber(0), last: None }).0,
        blocks: Mutex::default(),
    }));
    let log = Arc::new(EventLog::new());
    let mut rep = Report::default();
    let mut rng = vcore::rng(seed);
    log.emit(json!({"e": "header", "G": g, "L": l, "seed": seed}));
    let mut inc = start(&root, &engine).await;
    settle().await;
    log.emit(json!({"e": "start", "snap": snapshot(&inc.manager)}));
    let mut view = 1u64;
    for _ in 0..steps {
        let next = inc.manager.queued().next().0;
        let x = rng.gen_range(0..100);
        if x < 70 {
            // offer a block: mostly the next number, sometimes an earlier one
            let n = if next > 0 && rng.gen_range(0..5) == 0 { rng.gen_range(0..next) } else { next };
            // kind: around the genesis boundary both kinds are tried for every number
            let pre = if n < g { rng.gen_range(0..10) < 7 } else { rng.gen_range(0..10) < 2 };
            let right_epoch = n.saturating_sub(g) / l;
            let (block, desc) = if pre {
                let ok = rng.gen_range(0..6) != 0;
                (
                    Block::PreGenesis(PreGenesisBlock { number: BlockNumber(n), payload: Payload(format!("p{n}").into_bytes()), justification: Justification(vec![if ok { 1 } else { 9 }]) }),
                    json!({"kind": "pre", "n": n, "epoch": 0, "com": "-", "ok": ok}),
                )
            } else {
                let epoch = match rng.gen_range(0..10) { 0 => right_epoch + 1, 1 => right_epoch.saturating_sub(1), 2 => rng.gen_range(0..5), _ => right_epoch };
                let com_right = rng.gen_range(0..5) != 0;
                // committee of the CLAIMED epoch, or the other one
                let use_a = (epoch % 2 == 0) == com_right;
                let c = if use_a { &ca } else { &cb };
                let flavour = match rng.gen_range(0..8) { 0 => "badsig", 1 => "paymismatch", _ => "ok" };
                let payload = Payload(format!("f{n}-{view}").into_bytes());
                let hdr_payload = if flavour == "paymismatch" { Payload(b"other".to_vec()).hash() } else { payload.hash() };
                view += 1;
                let vote = validator::v2::ReplicaCommit {
                    view: validator::v2::View { genesis: genesis.hash(), epoch: validator::EpochNumber(epoch), number: validator::ViewNumber(view) },
                    proposal: validator::v2::BlockHeader { number: BlockNumber(n), payload: hdr_payload },
                };
                let signer = if flavour == "badsig" { &c.outsider } else { &c.keys[0] };
                let mut qc = validator::v2::CommitQC::new(vote.clone(), &c.schedule);
                let sig = signer.sign_msg(vote.clone());
                // the bitmap claims the committee member; with "badsig" the aggregate is somebody else's
                qc.signers.0.set(0, true);
                qc.signature = validator::AggregateSignature::aggregate([&sig.sig]);
                (
                    Block::FinalV2(validator::v2::FinalBlock { payload, justification: qc }),
                    json!({"kind": "final", "n": n, "epoch": epoch, "com": if use_a { "A" } else { "B" }, "ok": flavour == "ok", "flavour": flavour}),
                )
            };
            let before = snapshot(&inc.manager);
            let octx = root.with_timeout(time::Duration::seconds(0));
            let _ = octx; // queue_block for n <= next never waits
            let res = inc.manager.queue_block(&root, block).await;
            settle().await;
            let mut ev = desc;
            let o = ev.as_object_mut().unwrap();
            o.insert("e".into(), json!("offer"));
            o.insert("res".into(), json!(if res.is_ok() { "ok" } else { "err" }));
            o.insert("before".into(), before);
            o.insert("snap".into(), snapshot(&inc.manager));
            log.emit(ev);
            rep.evaluations += 1;
        } else if x < 93 {
            clock.advance(time::Duration::seconds(INTERVAL_S));
            settle().await;
            log.emit(json!({"e": "tick", "snap": snapshot(&inc.manager)}));
        } else {
            if let Some(s) = inc.stop.take() {
                let _ = s.send(());
            }
            let _ = (&mut inc.runner).await;
            drop(inc);
            settle().await;
            inc = start(&root, &engine).await;
            settle().await;
            let last_epoch = match engine.0.persisted.borrow().last.clone() {
                Some(Last::FinalV2(qc)) => qc.message.view.epoch.0 as i64,
                _ => 0,
            };
            log.emit(json!({"e": "restart", "last_epoch": last_epoch, "snap": snapshot(&inc.manager)}));
        }
    }
    if let Some(s) = inc.stop.take() {
        let _ = s.send(());
    }
    let _ = (&mut inc.runner).await;
    let evs = log.snapshot();
    rep.distinct = evs.iter().filter(|e| e["e"] == "offer" && e["res"] == "ok").count() as u64;
    rep.add("offers", evs.iter().filter(|e| e["e"] == "offer").count() as u64);
    rep.add("admitted", rep.distinct);
    rep.add("ticks", evs.iter().filter(|e| e["e"] == "tick").count() as u64);
    rep.add("restarts", evs.iter().filter(|e| e["e"] == "restart").count() as u64);
    rep.add("max_next", evs.iter().filter_map(|e| e["snap"]["next"].as_u64()).max().unwrap_or(0));
    rep.add("max_epochs_known", evs.iter().filter_map(|e| e["snap"]["sched"].as_array().map(|a| a.len() as u64)).max().unwrap_or(0));
    rep.sample(json!({"seed": seed, "steps": steps, "G": g, "L": l}));
    log.write(trace);
    rep.write(report);
}

fn main() {
    quiet_panics();
    let a = args();
    let (seed, steps, g, l): (u64, u64, u64, u64) = (a[2].parse().unwrap(), a[3].parse().unwrap(), a[4].parse().unwrap(), a[5].parse().unwrap());
    let rt = tokio::runtime::Builder::new_current_thread().enable_all().build().unwrap();
    let (t, r) = (a[0].clone(), a[1].clone());
    if let Err(p) = catch(|| rt.block_on(run(&t, &r, seed, steps, g, l))) {
        let mut rep = Report::default();
        rep.fail("panic", format!("panic: {}", p.lines().next().unwrap_or("")), json!({"seed": seed}));
        rep.write(&a[1]);
    }
}

//! C15b (T1): the real `rpc::Service` (ping server, INFLIGHT 1; consensus server, INFLIGHT 3; both limited by one `Rate`) over the
//! scripted in-memory transport on a `ManualClock`, single-threaded runtime; the remote side is either
//!   hammer : real RPC clients with an infinite client-side rate, several concurrent callers per RPC, or
//!   raw    : a peer speaking the mux framing by hand that answers every OPEN in advance: it pre-sends hundreds of
//!            OPEN + request + CLOSE triplets per stream without waiting for anything.
//! The handlers (hook) record invocation / return times in clock time. The clock is advanced in seeded fractions /
//! multiples of the refresh period, each time after the system is quiescent.
//!   greedy : like raw, but its mux handshake claims 1000 streams per capability and it also uses stream ids beyond the node's own limits.
//!   rpc_drv <trace-out> <report-out> <seed> <burst> <refresh_ns> <hammer|raw|greedy> <steps>
use std::sync::{Arc, Mutex};

use rand::Rng;
use serde_json::json;
use vcore::{bft::*, log::EventLog, pipe, *};
use zksync_concurrency::{ctx, limiter, scope, time};
use zksync_consensus_network::verif;
use zksync_consensus_roles::validator;

fn header(kind: &str, connect_side: bool, id: u16) -> [u8; 2] {
    let k: u16 = match kind { "OPEN" => 0, "DATA" => 0b0100_0000_0000_0000, _ => 0b1000_0000_0000_0000 };
    let s: u16 = if connect_side { 0b0010_0000_0000_0000 } else { 0 };
    (k | s | id).to_le_bytes()
}

fn written(dirs: &[&Arc<Mutex<pipe::Dir>>]) -> u64 {
    dirs.iter().map(|d| {
        let g = d.lock().unwrap();
        g.written + g.pulled
    }).sum()
}

/// Yields until neither direction of the transport has moved for a while.
async fn settle(dirs: &[&Arc<Mutex<pipe::Dir>>], log: &verif::RpcLog) {
    let mut last = (written(dirs), log.lock().unwrap().len());
    let mut calm = 0;
    for _ in 0..200_000 {
        tokio::task::yield_now().await;
        let now = (written(dirs), log.lock().unwrap().len());
        if now == last {
            calm += 1;
            if calm >= 300 {
                return;
            }
        } else {
            calm = 0;
            last = now;
        }
    }
}

/// Bytes of the mux handshake a real RPC client side sends.
async fn client_handshake(msg: &validator::Signed<validator::ConsensusMsg>) -> Vec<u8> {
    let clock = ctx::RealClock;
    let root = ctx::test_root(&clock);
    let (ea, _eb, ab, _ba) = pipe::pair();
    ab.lock().unwrap().auto = false;
    let cctx = root.with_timeout(time::Duration::milliseconds(200));
    let _ = verif::rpc_hammer(&cctx, ea, 1, msg.clone()).await;
    let v = ab.lock().unwrap().staging.clone();
    v
}

fn lp(payload: &[u8]) -> Vec<u8> {
    let mut v = (payload.len() as u32).to_le_bytes().to_vec();
    v.extend_from_slice(payload);
    v
}

fn main() {
    quiet_panics();
    let a = args();
    let (seed, burst, refresh_ns): (u64, usize, i64) = (a[2].parse().unwrap(), a[3].parse().unwrap(), a[4].parse().unwrap());
    let mode = a[5].clone();
    let steps: u64 = a[6].parse().unwrap();
    let mut rng = vcore::rng(seed);
    let hold_ns: i64 = match rng.gen_range(0..4) { 0 => 0, 1 => refresh_ns / 2, 2 => refresh_ns * 3, _ => refresh_ns };
    let step_ns: Vec<i64> = (0..steps).map(|_| match rng.gen_range(0..6) { 0 => refresh_ns / 3, 1 => refresh_ns / 2, 2 => refresh_ns, 3 => refresh_ns + refresh_ns / 4, 4 => 0, _ => 2 * refresh_ns }).collect();
    let (inf_ping, inf_cons) = verif::rpc_inflight();
    let log = Arc::new(EventLog::new());
    log.emit(json!({"e": "header", "burst": burst, "refresh": refresh_ns, "hold": hold_ns, "mode": mode, "tight": mode == "raw" || mode == "rawlate", "inflight": {"ping": inf_ping, "consensus": inf_cons}}));
    let mut rep = Report::default();
    let rt = tokio::runtime::Builder::new_current_thread().enable_all().build().unwrap();
    let c = Committee::new(&[1, 1, 1, 1], seed);
    let f = Forge { c: &c };
    let msg = f.sign(1, validator::v2::ChonkyMsg::ReplicaTimeout(validator::v2::ReplicaTimeout { view: c.view(1), high_vote: None, high_qc: None }));
    let rlog: verif::RpcLog = Arc::new(Mutex::new(vec![]));
    let rlog2 = rlog.clone();
    let mode2 = mode.clone();
    let ends = Arc::new(Mutex::new(String::new()));
    let ends2 = ends.clone();
    let completed = Arc::new(Mutex::new((0u64, 0u64)));
    let completed2 = completed.clone();
    let t0cell = Arc::new(Mutex::new(None));
    let t0c2 = t0cell.clone();
    let step_ns2 = step_ns.clone();
    let r = catch(move || {
        let step_ns = step_ns2;
        rt.block_on(async move {
            let hs = if mode2 == "raw" || mode2 == "rawlate" { client_handshake(&msg).await } else { vec![] };
            let _ = &hs;
            let clock = ctx::ManualClock::new();
            let root = ctx::test_root(&clock);
            *t0c2.lock().unwrap() = Some(clock.now());
            let rate = limiter::Rate { burst, refresh: time::Duration::nanoseconds(refresh_ns) };
            let (ea, eb, ab, ba) = pipe::pair();
            let seed_k = seed;
            *ea.knobs.lock().unwrap() = pipe::Knobs { max_read: [usize::MAX, 7, 900][(seed_k % 3) as usize], max_write: [usize::MAX, 13, 3000][((seed_k / 3) % 3) as usize], pending_1_in: [0, 5][(seed_k % 2) as usize], lcg: seed_k | 1 };
            let _: Result<(), ctx::Error> = scope::run!(&root, |ctx, s| async move {
                let rl = rlog2.clone();
                let ends3 = ends2.clone();
                s.spawn_bg(async move {
                    let r = verif::rpc_serve(ctx, ea, rate, time::Duration::nanoseconds(hold_ns), rl).await;
                    *ends3.lock().unwrap() = format!("{r:?}").lines().next().unwrap_or("").chars().take(120).collect();
                    Ok(())
                });
                let mut _keep = None;
                let mut late: Option<Vec<u8>> = None;
                if mode2 == "hammer" {
                    let m = msg.clone();
                    let done = completed2.clone();
                    s.spawn_bg(async move {
                        let r = verif::rpc_hammer(ctx, eb, 4, m).await;
                        *done.lock().unwrap() = r;
                        Ok(())
                    });
                } else {
                    // raw peer: handshake, then everything it will ever say, up front, round-robin over the server's 4 streams
                    // (ids 0..2 = consensus, 3 = ping: capabilities in ascending order, INFLIGHT streams each)
                    let greedy = mode2 == "greedy";
                    // greedy: the handshake claims 1000 accept streams per capability (the node must still use min(own INFLIGHT, claim))
                    let greedy_hs: Vec<u8> = {
                        let body = [0x2au8, 5, 0x08, 0, 0x10, 0xe8, 0x07, 0x2a, 5, 0x08, 2, 0x10, 0xe8, 0x07];
                        lp(&body)
                    };
                    pipe::release(&ba, if greedy { &greedy_hs } else { &hs });
                    let ping_req = {
                        let mut p = vec![0x0a, 32];
                        p.extend([7u8; 32]);
                        lp(&p)
                    };
                    let cons_req = {
                        let inner = zksync_protobuf::encode(&msg);
                        let mut p = vec![0x0a];
                        // varint length
                        let mut n = inner.len();
                        loop {
                            let b = (n & 0x7f) as u8;
                            n >>= 7;
                            if n == 0 {
                                p.push(b);
                                break;
                            }
                            p.push(b | 0x80);
                        }
                        p.extend(inner);
                        lp(&p)
                    };
                    let mut bytes = vec![];
                    for round in 0..400 {
                        if greedy && round == 1 {
                            // streams beyond the node's own in-flight limits: a protocol error on the faithful node
                            for id in (inf_cons + inf_ping) as u16..(inf_cons + inf_ping) as u16 + 6 {
                                bytes.extend(header("OPEN", false, id));
                                bytes.extend(header("DATA", false, id));
                                bytes.extend((cons_req.len() as u16).to_le_bytes());
                                bytes.extend(&cons_req);
                                bytes.extend(header("CLOSE", false, id));
                            }
                        }
                        for id in 0..(inf_cons + inf_ping) as u16 {
                            let req = if (id as u32) < inf_cons { &cons_req } else { &ping_req };
                            bytes.extend(header("OPEN", false, id));
                            bytes.extend(header("DATA", false, id));
                            bytes.extend((req.len() as u16).to_le_bytes());
                            bytes.extend(req);
                            bytes.extend(header("CLOSE", false, id));
                        }
                    }
                    if mode2 != "rawlate" {
                        pipe::release(&ba, &bytes);
                    } else {
                        late = Some(bytes);
                    }
                    _keep = Some(eb); // never reads, never closes
                }
                for st in 0..steps {
                    settle(&[&ab, &ba], &rlog2).await;
                    // rawlate: the peer stays silent for the first third of the run (the node's streams wait for its OPENs), then says everything at once
                    if st == steps / 3 {
                        if let Some(b) = late.take() {
                            pipe::release(&ba, &b);
                            settle(&[&ab, &ba], &rlog2).await;
                        }
                    }
                    clock.advance(time::Duration::nanoseconds(step_ns[st as usize]));
                }
                settle(&[&ab, &ba], &rlog2).await;
                Ok(())
            })
            .await;
        })
    });
    if let Err(p) = r {
        rep.fail("panic", format!("panic: {p}"), json!({"seed": seed}));
    }
    let t0 = t0cell.lock().unwrap().unwrap_or_else(|| ctx::ManualClock::new().now());
    let evs = rlog.lock().unwrap().clone();
    for e in &evs {
        log.emit(json!({"e": e.kind, "rpc": e.rpc, "call": e.call, "t": (e.at - t0).whole_nanoseconds() as i64}));
    }
    let starts = evs.iter().filter(|e| e.kind == "start").count() as u64;
    rep.evaluations = starts;
    rep.distinct = starts;
    rep.add("handler_starts_ping", evs.iter().filter(|e| e.kind == "start" && e.rpc == "ping").count() as u64);
    rep.add("handler_starts_consensus", evs.iter().filter(|e| e.kind == "start" && e.rpc == "consensus").count() as u64);
    let (np, nc) = *completed.lock().unwrap();
    rep.add("client_completed_ping", np);
    rep.add("client_completed_consensus", nc);
    let total_ns: i64 = step_ns.iter().sum();
    rep.sample(json!({"seed": seed, "mode": mode, "burst": burst, "refresh_ns": refresh_ns, "hold_ns": hold_ns, "clock_ns": total_ns, "server_end": ends.lock().unwrap().clone()}));
    if starts == 0 && mode != "greedy" {
        rep.fail("rpc_no_calls", "no RPC handler was ever invoked: the driver exercises nothing", json!({"seed": seed, "mode": mode}));
    }
    log.write(&a[0]);
    rep.write(&a[1]);
}

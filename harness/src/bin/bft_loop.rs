//! C06 / C01 end to end on the REAL replica loop (T5 without the step hook): `bft::Config::run` - i.e. `StateMachine::run` with its own view
//! timer, view-0 bootstrap, inbound queue and proposer task - for every correct validator, connected by a harness router (messages also loop
//! back to their sender, as over the validator network) and a block syncer, on the real clock with a short view timeout.
//! Phases: a bad period (seeded message loss, one replica cut off, optionally a replica stopped and restarted from its durable state), then the
//! network heals. Verdicts: every correct node must store a new block within the bound after healing; the stores must agree.
//!   bft_loop <report.json> <seed> <config> <fresh|lossy|restart>
use std::{
    collections::BTreeMap,
    sync::{
        atomic::{AtomicBool, AtomicU64, Ordering},
        Arc, Mutex,
    },
};

use rand::{Rng, SeedableRng};
use serde_json::json;
use vcore::{bft::*, *};
use zksync_concurrency::{ctx, scope, time};
use zksync_consensus_bft::{create_input_channel, Config, FromNetworkMessage};
use zksync_consensus_engine::EngineManager;

const TIMEOUT_MS: i64 = 150;

fn config(name: &str) -> (Vec<u64>, Vec<usize>) {
    match name {
        "W4a" => (vec![3, 1, 1, 1], vec![2]),
        "W4c" => (vec![3, 1, 1, 1], vec![4]),
        "U6" => (vec![1; 6], vec![6]),
        "H4" => (vec![1, 1, 1, 1], vec![]),
        _ => panic!("unknown config {name}"),
    }
}

/// `catch_unwind` for a future: a panic raised while polling it becomes `Err(())`.
struct CatchUnwind<F>(std::pin::Pin<Box<F>>);
impl<F: std::future::Future> std::future::Future for CatchUnwind<F> {
    type Output = Result<F::Output, ()>;
    fn poll(mut self: std::pin::Pin<&mut Self>, cx: &mut std::task::Context<'_>) -> std::task::Poll<Self::Output> {
        let f = self.0.as_mut();
        match std::panic::catch_unwind(std::panic::AssertUnwindSafe(|| f.poll(cx))) {
            Ok(std::task::Poll::Ready(v)) => std::task::Poll::Ready(Ok(v)),
            Ok(std::task::Poll::Pending) => std::task::Poll::Pending,
            Err(_) => std::task::Poll::Ready(Err(())),
        }
    }
}

fn main() {
    quiet_panics();
    let a = args();
    let seed: u64 = a[1].parse().unwrap();
    let (weights, faulty) = config(&a[2]);
    let scenario = a[3].clone();
    let rep = Arc::new(Mutex::new(Report::default()));
    let rt = tokio::runtime::Builder::new_multi_thread().worker_threads(4).enable_all().build().unwrap();
    let rep2 = rep.clone();
    let cfgname = a[2].clone();
    let r = catch(move || {
        rt.block_on(async move {
            let rep = rep2;
            let root = ctx::test_root(&ctx::RealClock);
            let ctx = &root.with_timeout(time::Duration::seconds(170));
            let c = Committee::new(&weights, seed);
            let correct: Vec<usize> = (1..=c.n()).filter(|p| !faulty.contains(p)).collect();
            let engines: BTreeMap<usize, VerifEngine> = correct
                .iter()
                .map(|p| {
                    let e = VerifEngine::new(c.genesis.clone());
                    e.inner().ctl.lock().unwrap().payload_tag = Some(format!("n{p}"));
                    (*p, e)
                })
                .collect();
            let healed = Arc::new(AtomicBool::new(scenario == "fresh"));
            let delivered = Arc::new(AtomicU64::new(0));
            let dropped = Arc::new(AtomicU64::new(0));
            let panics_while_stopping = Arc::new(AtomicU64::new(0));
            let isolated = correct[(seed as usize) % correct.len()];
            let tag = json!({"config": cfgname, "seed": seed, "scenario": scenario});
            let (rep_o, delivered_o, dropped_o, pws_o) = (rep.clone(), delivered.clone(), dropped.clone(), panics_while_stopping.clone());
            let res: anyhow::Result<()> = scope::run!(ctx, |ctx, s| async move {
                // inbound queues (the real prunable queue of the bft crate), replaced when a node restarts
                let inboxes: Arc<Mutex<BTreeMap<usize, Arc<zksync_concurrency::sync::prunable_mpsc::Sender<FromNetworkMessage>>>>> = Arc::default();
                let managers: Arc<Mutex<BTreeMap<usize, Arc<EngineManager>>>> = Arc::default();
                // one "process" per correct validator: engine manager + runner + bft::Config::run, inside its own cancellable scope
                let stop_flags: BTreeMap<usize, Arc<AtomicBool>> = correct.iter().map(|p| (*p, Arc::new(AtomicBool::new(false)))).collect();
                for p in correct.clone() {
                    let (engine, inboxes, managers, c2, healed, delivered, dropped, stop) = (engines[&p].clone(), inboxes.clone(), managers.clone(), c.clone(), healed.clone(), delivered.clone(), dropped.clone(), stop_flags[&p].clone());
                    let panics_while_stopping = panics_while_stopping.clone();
                    let correct2 = correct.clone();
                    s.spawn_bg::<()>(async move {
                        let mut incarnation = 0u64;
                        loop {
                            incarnation += 1;
                            let (manager, runner) = EngineManager::new(ctx, Box::new(engine.clone()), time::Duration::seconds(3600)).await?;
                            managers.lock().unwrap().insert(p, manager.clone());
                            let (in_tx, in_rx) = create_input_channel();
                            inboxes.lock().unwrap().insert(p, Arc::new(in_tx));
                            let (out_tx, mut out_rx) = ctx::channel::unbounded();
                            let cfg = Config::new(c2.keys[p - 1].clone(), MAX_PAYLOAD, time::Duration::milliseconds(TIMEOUT_MS), manager.clone(), EPOCH)?;
                            let mut rng = rand::rngs::StdRng::seed_from_u64(seed * 131 + p as u64 * 7 + incarnation);
                            let stop_seen = stop.clone();
                            let r: Result<Result<(), ctx::Error>, ()> = CatchUnwind(Box::pin(scope::run!(ctx, |ctx, s2| async {
                                s2.spawn_bg(async {
                                    let _ = runner.run(ctx).await;
                                    Ok(())
                                });
                                s2.spawn_bg(async {
                                    cfg.run(ctx, out_tx, in_rx).await.map_err(|e| ctx::Error::Internal(e))
                                });
                                // router: what this node sends goes to everybody (itself included), subject to the bad period
                                s2.spawn_bg::<()>(async {
                                    loop {
                                        let m = out_rx.recv(ctx).await?;
                                        for q in &correct2 {
                                            let bad = !healed.load(Ordering::SeqCst);
                                            let cut = bad && (*q == isolated || p == isolated) && *q != p;
                                            if cut || (bad && *q != p && rng.gen_bool(0.4)) {
                                                dropped.fetch_add(1, Ordering::SeqCst);
                                                continue;
                                            }
                                            let tx = inboxes.lock().unwrap().get(q).cloned();
                                            if let Some(tx) = tx {
                                                let (ack, _ack_rx) = zksync_concurrency::oneshot::channel();
                                                tx.send(FromNetworkMessage { msg: m.message.clone(), ack });
                                                delivered.fetch_add(1, Ordering::SeqCst);
                                            }
                                        }
                                    }
                                });
                                // this incarnation lives until it is told to stop
                                while !stop.load(Ordering::SeqCst) {
                                    ctx.sleep(time::Duration::milliseconds(5)).await?;
                                }
                                Ok(())
                            })))
                            .await;
                            // A panic inside an incarnation that is being STOPPED (its context was cancelled by the harness) is the death of a process that
                            // was going to die anyway: counted, not a verdict of this check (DESIGN §9, observation on the proposer watch). Any other panic is.
                            let r: Result<(), ctx::Error> = match r {
                                Ok(r) => r,
                                Err(()) if stop_seen.load(Ordering::SeqCst) || !ctx.is_active() => {
                                    panics_while_stopping.fetch_add(1, Ordering::SeqCst);
                                    Ok(())
                                }
                                Err(()) => panic!("a replica task panicked while it was NOT being stopped"),
                            };
                            // tasks of the stopped incarnation end with `Canceled`: that is the stop, not a failure
                            if let Err(ctx::Error::Internal(e)) = r {
                                return Err(e);
                            }
                            if !ctx.is_active() {
                                return Ok(());
                            }
                            stop.store(false, Ordering::SeqCst);
                            ctx.sleep(time::Duration::milliseconds(30)).await?; // down for a moment
                        }
                    });
                }
                // block syncer (what the gossip fetcher does): copy missing blocks between the nodes' stores through queue_block
                {
                    let (engines, managers, correct) = (engines.clone(), managers.clone(), correct.clone());
                    s.spawn_bg::<()>(async move {
                        loop {
                            ctx.sleep(time::Duration::milliseconds(20)).await?;
                            for p in &correct {
                                let have = engines[p].store_len();
                                let mut blk = None;
                                for q in &correct {
                                    let b = engines[q].inner().blocks.lock().unwrap();
                                    if b.len() > have {
                                        blk = Some(b[have].clone());
                                        break;
                                    }
                                }
                                let m = managers.lock().unwrap().get(p).cloned();
                                if let (Some(b), Some(m)) = (blk, m) {
                                    let _ = m.queue_block(&ctx.with_timeout(time::Duration::milliseconds(200)), b).await;
                                }
                            }
                        }
                    });
                }
                // ---- bad period
                if scenario != "fresh" {
                    ctx.sleep(time::Duration::milliseconds(TIMEOUT_MS * 6)).await?;
                    if scenario == "restart" {
                        let victim = correct[(seed as usize + 1) % correct.len()];
                        stop_flags[&victim].store(true, Ordering::SeqCst);
                        ctx.sleep(time::Duration::milliseconds(TIMEOUT_MS * 2)).await?;
                    }
                    ctx.sleep(time::Duration::milliseconds(TIMEOUT_MS * 4)).await?;
                }
                // ---- the network heals
                healed.store(true, Ordering::SeqCst);
                let h0 = correct.iter().map(|p| engines[p].store_len()).max().unwrap_or(0);
                let target = h0 + 1;
                let mut ok = false;
                let t0 = std::time::Instant::now();
                for _ in 0..12000 {
                    if correct.iter().all(|p| engines[p].store_len() >= target) {
                        ok = true;
                        break;
                    }
                    ctx.sleep(time::Duration::milliseconds(5)).await?;
                }
                let took = t0.elapsed().as_millis() as u64;
                let heights: Vec<usize> = correct.iter().map(|p| engines[p].store_len()).collect();
                {
                    let mut g = rep.lock().unwrap();
                    g.evaluations += 1;
                    g.add("ms_to_progress", took);
                    g.add("timeouts_to_progress", took / TIMEOUT_MS as u64);
                    g.sample(json!({"run": tag, "height_when_healed": h0, "heights": heights, "ms": took}));
                    if !ok {
                        g.fail("no_progress", format!("real replica loops: no new block at every correct node within 60 s ({} view timeouts) after the network healed; heights {heights:?}, was {h0}", 60_000 / TIMEOUT_MS), tag.clone());
                    }
                }
                // ---- agreement of what is stored
                let stores: Vec<Vec<Vec<u8>>> = correct
                    .iter()
                    .map(|p| engines[p].inner().blocks.lock().unwrap().iter().map(|b| match b { zksync_consensus_roles::validator::Block::FinalV2(b) => b.payload.0.clone(), _ => vec![] }).collect())
                    .collect();
                for i in 0..stores.len() {
                    for j in 0..i {
                        let n = stores[i].len().min(stores[j].len());
                        if stores[i][..n] != stores[j][..n] {
                            rep.lock().unwrap().fail("disagreement", format!("real replica loops: nodes {} and {} store different payloads for a block number", correct[i], correct[j]), tag.clone());
                        }
                    }
                }
                Ok(())
            })
            .await;
            if let Err(e) = res {
                let msg: String = format!("{e:?}").lines().next().unwrap_or("").chars().take(200).collect();
                if !msg.contains("anceled") {
                    rep_o.lock().unwrap().notes.push(format!("scope ended with {msg}"));
                }
            }
            let mut g = rep_o.lock().unwrap();
            g.add("delivered", delivered_o.load(Ordering::SeqCst));
            g.add("dropped", dropped_o.load(Ordering::SeqCst));
            g.add("replica_panicked_while_being_stopped", pws_o.load(Ordering::SeqCst));
            g.distinct += 1;
        })
    });
    let mut rep = std::mem::take(&mut *rep.lock().unwrap());
    if let Err(p) = r {
        rep.fail("panic", format!("a replica task panicked: {}", p.lines().next().unwrap_or("")), json!({"seed": seed}));
    }
    rep.write(&a[0]);
}

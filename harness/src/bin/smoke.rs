fn main() { println!("ok"); }

//! C09 (T3 + round trips).
//!   wire_replay canon <cases.ndjson> <report.json>   every abstract serialisation enumerated by WireCanon.tla is encoded to real protobuf
//!        bytes and given to the real `canonical_raw` with a descriptor of the test schema built at run time; result compared with the spec's.
//!   wire_replay std <cases.ndjson> <report.json>      boundary classes of the std-type conversions (StdValues.tla), all specified lossless
//!   wire_replay roundtrip <report.json> <seed> <n>    decode(encode(v)) == v, encode is canonical (canonical_raw is the identity on it),
//!        shuffled / re-split serialisations of v normalise to the same bytes, for seeded values of every public wire / storage type.
use prost::Message as _;
use prost_reflect::{DescriptorPool, MessageDescriptor, ReflectMessage};
use prost_types::{field_descriptor_proto::{Label, Type}, DescriptorProto, FieldDescriptorProto, FileDescriptorProto, FileDescriptorSet, OneofDescriptorProto};
use rand::{seq::SliceRandom, Rng, SeedableRng};
use serde_json::{json, Value};
use vcore::*;
use zksync_consensus_roles::validator;
use zksync_protobuf::ProtoFmt;

fn test_descriptor() -> MessageDescriptor {
    let opt = |name: &str, num: i32, ty: Type, tn: Option<&str>, oneof: i32| FieldDescriptorProto {
        name: Some(name.into()), number: Some(num), label: Some(Label::Optional as i32), r#type: Some(ty as i32),
        type_name: tn.map(|s| s.into()), proto3_optional: Some(true), oneof_index: Some(oneof), ..Default::default()
    };
    let rep = |name: &str, num: i32, ty: Type, tn: Option<&str>| FieldDescriptorProto {
        name: Some(name.into()), number: Some(num), label: Some(Label::Repeated as i32), r#type: Some(ty as i32),
        type_name: tn.map(|s| s.into()), ..Default::default()
    };
    let msg = DescriptorProto {
        name: Some("T".into()),
        field: vec![
            opt("a", 1, Type::Uint64, None, 0),
            opt("b", 2, Type::Fixed32, None, 1),
            opt("d", 4, Type::Bytes, None, 2),
            opt("n", 5, Type::Message, Some(".vt.T"), 3),
            rep("r", 6, Type::Uint64, None),
            rep("rm", 7, Type::Message, Some(".vt.T")),
        ],
        oneof_decl: ["_a", "_b", "_d", "_n"].iter().map(|n| OneofDescriptorProto { name: Some(n.to_string()), ..Default::default() }).collect(),
        ..Default::default()
    };
    let file = FileDescriptorProto { name: Some("vt.proto".into()), package: Some("vt".into()), syntax: Some("proto3".into()), message_type: vec![msg], ..Default::default() };
    let pool = DescriptorPool::from_file_descriptor_set(FileDescriptorSet { file: vec![file] }).expect("descriptor pool");
    pool.get_message_by_name("vt.T").unwrap()
}

fn varint(mut v: u64, out: &mut Vec<u8>) {
    loop {
        let b = (v & 0x7f) as u8;
        v >>= 7;
        if v == 0 {
            out.push(b);
            return;
        }
        out.push(b | 0x80);
    }
}

fn scalar(kind: &str, v: u64, out: &mut Vec<u8>) {
    if kind == "I32" { out.extend((v as u32).to_le_bytes()) } else { varint(v, out) }
}

/// kind of field f in the test schema (for packed chunks)
fn field_kind(f: u64) -> &'static str {
    if f == 2 { "I32" } else { "V" }
}

/// a varint with one redundant continuation byte when `pad` (still a valid spelling of the same number)
fn varint_p(v: u64, pad: bool, out: &mut Vec<u8>) {
    varint(v, out);
    if pad {
        let l = out.len();
        out[l - 1] |= 0x80;
        out.push(0);
    }
}

fn encode_ser(m: &Value) -> Vec<u8> {
    encode_ser_sp(m, "min")
}

/// writes the abstract serialisation in the given spelling of WireCanon.tla (which varints carry redundant continuation bytes)
fn encode_ser_sp(m: &Value, sp: &str) -> Vec<u8> {
    let (pv, pt, pl) = (sp == "padvalues" || sp == "padall", sp == "padtags" || sp == "padall", sp == "padlens" || sp == "padall");
    let mut out = vec![];
    for e in m.as_array().unwrap() {
        let f = e["f"].as_u64().unwrap();
        match e["w"].as_str().unwrap() {
            "V" => {
                varint_p(f << 3, pt, &mut out);
                varint_p(e["v"].as_u64().unwrap(), pv, &mut out);
            }
            "I32" => {
                varint_p((f << 3) | 5, pt, &mut out);
                out.extend((e["v"].as_u64().unwrap() as u32).to_le_bytes());
            }
            _ => {
                varint_p((f << 3) | 2, pt, &mut out);
                let v = &e["v"];
                let body: Vec<u8> = match v["t"].as_str().unwrap() {
                    "bytes" => v["b"].as_str().unwrap().as_bytes().to_vec(),
                    "msg" => encode_ser_sp(&v["m"], sp),
                    _ => {
                        let mut b = vec![];
                        for x in v["s"].as_array().unwrap() {
                            if field_kind(f) == "I32" { scalar("I32", x.as_u64().unwrap(), &mut b) } else { varint_p(x.as_u64().unwrap(), pv, &mut b) }
                        }
                        b
                    }
                };
                varint_p(body.len() as u64, pl, &mut out);
                out.extend(body);
            }
        }
    }
    out
}

/// re-serialises a real message with redundant continuation bytes on randomly chosen varints (tags, length prefixes, varint values,
/// also inside packed chunks and nested messages): a different but valid serialisation of the same value
fn respell(bytes: &[u8], desc: &MessageDescriptor, rng: &mut rand::rngs::StdRng) -> Option<Vec<u8>> {
    use prost_reflect::Kind;
    let mut i = 0;
    let mut out = vec![];
    fn rd(bytes: &[u8], i: &mut usize) -> Option<(u64, usize)> {
        let (mut v, mut s, start) = (0u64, 0, *i);
        loop {
            let b = *bytes.get(*i)?;
            *i += 1;
            v |= ((b & 0x7f) as u64) << s;
            if b & 0x80 == 0 {
                return Some((v, *i - start));
            }
            s += 7;
            if s > 63 {
                return None;
            }
        }
    }
    let mut put = |v: u64, len: usize, out: &mut Vec<u8>, rng: &mut rand::rngs::StdRng| {
        // at most 10 bytes are a varint: pad only short ones
        varint_p(v, len <= 8 && rng.gen_bool(0.5), out);
    };
    while i < bytes.len() {
        let (tag, tl) = rd(bytes, &mut i)?;
        put(tag, if tl <= 4 { tl } else { 9 }, &mut out, rng); // tags are read as 32-bit varints (<= 5 bytes): pad only 1..4-byte tags
        let fd = desc.get_field((tag >> 3) as u32)?;
        let varint_kind = matches!(fd.kind(), Kind::Int32 | Kind::Int64 | Kind::Uint32 | Kind::Uint64 | Kind::Sint32 | Kind::Sint64 | Kind::Bool | Kind::Enum(_));
        match tag & 7 {
            0 => {
                let (v, l) = rd(bytes, &mut i)?;
                put(v, l, &mut out, rng);
            }
            1 => {
                out.extend(bytes.get(i..i + 8)?);
                i += 8;
            }
            5 => {
                out.extend(bytes.get(i..i + 4)?);
                i += 4;
            }
            2 => {
                let (l, ll) = rd(bytes, &mut i)?;
                let body = bytes.get(i..i + l as usize)?;
                i += l as usize;
                let body2: Vec<u8> = match fd.kind() {
                    Kind::Message(d) => respell(body, &d, rng)?,
                    _ if varint_kind => {
                        let (mut j, mut b) = (0, vec![]);
                        while j < body.len() {
                            let (v, l) = rd(body, &mut j)?;
                            put(v, l, &mut b, rng);
                        }
                        b
                    }
                    _ => body.to_vec(),
                };
                let _ = ll;
                varint_p(body2.len() as u64, rng.gen_bool(0.5), &mut out);
                out.extend(body2);
            }
            _ => return None,
        }
    }
    Some(out)
}

/// re-serialises a real message in a different but valid way: fields in a shuffled order (repeated entries keep their relative order)
fn shuffle_fields(bytes: &[u8], rng: &mut rand::rngs::StdRng) -> Option<Vec<u8>> {
    // top level only: split into (field, raw entry bytes)
    let mut entries: Vec<(u64, Vec<u8>)> = vec![];
    let mut i = 0;
    let rd = |i: &mut usize| -> Option<u64> {
        let mut v = 0u64;
        let mut s = 0;
        loop {
            let b = *bytes.get(*i)?;
            *i += 1;
            v |= ((b & 0x7f) as u64) << s;
            if b & 0x80 == 0 {
                return Some(v);
            }
            s += 7;
            if s > 63 {
                return None;
            }
        }
    };
    while i < bytes.len() {
        let start = i;
        let tag = rd(&mut i)?;
        match tag & 7 {
            0 => {
                rd(&mut i)?;
            }
            1 => i += 8,
            5 => i += 4,
            2 => {
                let l = rd(&mut i)? as usize;
                i += l;
            }
            _ => return None,
        }
        if i > bytes.len() {
            return None;
        }
        entries.push((tag >> 3, bytes[start..i].to_vec()));
    }
    // stable partition by a random permutation of the distinct field numbers
    let mut fields: Vec<u64> = entries.iter().map(|e| e.0).collect();
    fields.sort();
    fields.dedup();
    fields.shuffle(rng);
    let mut out = vec![];
    for f in fields {
        for e in entries.iter().filter(|e| e.0 == f) {
            out.extend(&e.1);
        }
    }
    Some(out)
}

fn roundtrip<T: ProtoFmt + PartialEq + std::fmt::Debug>(name: &str, v: &T, rng: &mut rand::rngs::StdRng, rep: &mut Report) {
    rep.evaluations += 1;
    let r = catch(|| {
        let enc = zksync_protobuf::encode(v);
        let dec: T = zksync_protobuf::decode(&enc).map_err(|e| format!("decode(encode(v)) failed: {e:#}"))?;
        if &dec != v {
            return Err("decode(encode(v)) != v".to_string());
        }
        let desc = v.build().descriptor();
        let canon = zksync_protobuf::canonical_raw(&enc, &desc).map_err(|e| format!("canonical_raw(encode(v)) failed: {e:#}"))?;
        if canon != enc {
            return Err("encode(v) is not in canonical form".to_string());
        }
        if zksync_protobuf::encode(&dec) != enc {
            return Err("equal values encode to different bytes".to_string());
        }
        // prost's own (non-canonical) encoding and a field-shuffled serialisation must normalise to the same bytes
        let alt = v.build().encode_to_vec();
        for other in [Some(alt), shuffle_fields(&enc, rng), respell(&enc, &desc, rng)].into_iter().flatten() {
            let c2 = zksync_protobuf::canonical_raw(&other, &desc).map_err(|e| format!("canonical_raw of an alternative valid serialisation failed: {e:#}"))?;
            if c2 != enc {
                return Err("an alternative valid serialisation normalises to different bytes".to_string());
            }
            let d2: T = zksync_protobuf::decode(&other).map_err(|e| format!("decoding an alternative valid serialisation failed: {e:#}"))?;
            if &d2 != v {
                return Err("an alternative valid serialisation decodes to a different value".to_string());
            }
        }
        Ok(())
    });
    match r {
        Err(p) => rep.fail("roundtrip_panic", format!("{name}: panic: {p}"), json!({"type": name})),
        Ok(Err(e)) => rep.fail("roundtrip_mismatch", format!("{name}: {e}"), json!({"type": name, "value": catch(|| format!("{v:?}")).unwrap_or_else(|_| "<unprintable>".into()).chars().take(300).collect::<String>()})),
        Ok(Ok(())) => {}
    }
}

fn main() {
    quiet_panics();
    let a = args();
    let mut rep = Report::default();
    match a[0].as_str() {
        "canon" => {
            let desc = test_descriptor();
            for case in read_cases(&a[1]) {
                rep.evaluations += 1;
                rep.distinct += 1;
                let bytes = encode_ser_sp(&case["ser"], case["spell"].as_str().unwrap_or("min"));
                let want_valid = case["valid"].as_bool().unwrap();
                let tag = json!({"mode": "canon", "case": case});
                match catch(|| zksync_protobuf::canonical_raw(&bytes, &desc)) {
                    Err(p) => {
                        let only_empty_packed = case["ser"].to_string().contains("\"s\":[]");
                        rep.fail(if only_empty_packed { "canonical_panic_empty_packed" } else { "canonical_panic" }, format!("canonical_raw panicked: {p}"), tag);
                    }
                    Ok(Ok(got)) => {
                        if !want_valid {
                            rep.fail("canonical_accepts_invalid", "canonical_raw accepted a serialisation the specification rejects (unknown field / wrong wire type / repeated singular field)", tag);
                        } else {
                            let want = encode_ser(&case["canon"]);
                            if got != want {
                                rep.fail("canonical_mismatch", format!("canonical bytes {:02x?} differ from the specification's {:02x?}", got, want), tag);
                            }
                        }
                    }
                    Ok(Err(e)) => {
                        if want_valid {
                            rep.fail("canonical_rejects_valid", format!("canonical_raw rejected a valid serialisation: {e:#}"), tag);
                        }
                    }
                }
                if rep.evaluations % 97 == 1 {
                    rep.sample(case.clone());
                }
            }
            rep.write(&a[2]);
        }
        "roundtrip" => {
            let seed: u64 = a[2].parse().unwrap();
            let n: usize = a[3].parse().unwrap();
            let mut rng = rand::rngs::StdRng::seed_from_u64(seed);
            macro_rules! rt {
                ($t:ty, $name:expr) => {{
                    rep.distinct += 1;
                    for _ in 0..n {
                        let v: $t = rng.gen();
                        roundtrip::<$t>($name, &v, &mut rng, &mut rep);
                    }
                }};
            }
            rt!(validator::Msg, "validator::Msg");
            rt!(validator::Signed<validator::ConsensusMsg>, "Signed<ConsensusMsg>");
            rt!(validator::v2::TimeoutQC, "TimeoutQC");
            rt!(validator::v2::CommitQC, "CommitQC");
            rt!(validator::v2::FinalBlock, "FinalBlock");
            rt!(validator::v2::ReplicaTimeout, "ReplicaTimeout");
            rt!(validator::v2::LeaderProposal, "LeaderProposal");
            rt!(validator::v2::ChonkyV2State, "ChonkyV2State");
            rt!(validator::Block, "Block");
            rt!(validator::Genesis, "Genesis");
            rt!(validator::Schedule, "Schedule");
            rt!(validator::Signed<validator::NetAddress>, "Signed<NetAddress>");
            rep.sample(json!({"seed": seed, "values_per_type": n}));
            rep.write(&a[1]);
        }
        "std" => {
            // boundary classes of the standard-type conversions, enumerated by StdValues.tla (all specified lossless)
            use std::net::{IpAddr, Ipv4Addr, Ipv6Addr, SocketAddr};
            use zksync_concurrency::{limiter, time};
            let mut rng = rand::rngs::StdRng::seed_from_u64(7);
            let secs_of = |s: &str| -> i64 {
                match s { "0" => 0, "1" => 1, "-1" => -1, "max" => i64::MAX, "min" => i64::MIN + 1, _ => 1_000_000_000 }
            };
            for case in read_cases(&a[1]) {
                rep.distinct += 1;
                match case["kind"].as_str().unwrap() {
                    "sockaddr" => {
                        let v4 = Ipv4Addr::new(74, 223, 12, 1);
                        let ip: IpAddr = match case["family"].as_str().unwrap() {
                            "v4_zero" => Ipv4Addr::UNSPECIFIED.into(),
                            "v4_loop" => Ipv4Addr::LOCALHOST.into(),
                            "v4_bcast" => Ipv4Addr::BROADCAST.into(),
                            "v4_plain" => v4.into(),
                            "v6_unspec" => Ipv6Addr::UNSPECIFIED.into(),
                            "v6_loop" => Ipv6Addr::LOCALHOST.into(),
                            "v6_plain" => Ipv6Addr::new(0x2001, 0xdb8, 0, 0, 0, 0, 0, 1).into(),
                            "v6_mapped_v4" => v4.to_ipv6_mapped().into(),
                            "v6_compat_v4" => Ipv6Addr::new(0, 0, 0, 0, 0, 0, 0x4adf, 0x0c01).into(),
                            "v6_mapped_zero" => Ipv4Addr::UNSPECIFIED.to_ipv6_mapped().into(),
                            "v6_linklocal" => Ipv6Addr::new(0xfe80, 0, 0, 0, 0, 0, 0, 1).into(),
                            _ => Ipv6Addr::new(0xffff, 0xffff, 0xffff, 0xffff, 0xffff, 0xffff, 0xffff, 0xffff).into(),
                        };
                        let v = SocketAddr::new(ip, case["port"].as_u64().unwrap() as u16);
                        roundtrip::<SocketAddr>("std::net::SocketAddr", &v, &mut rng, &mut rep);
                        // ... and inside the signed message that carries it on the wire
                        let key: validator::SecretKey = rng.gen();
                        let na = validator::NetAddress { addr: v, version: 1, timestamp: time::UNIX_EPOCH };
                        let signed = key.sign_msg(na);
                        roundtrip::<validator::Signed<validator::NetAddress>>("Signed<NetAddress>", &signed, &mut rng, &mut rep);
                        let dec: Result<validator::Signed<validator::NetAddress>, _> = zksync_protobuf::decode(&zksync_protobuf::encode(&signed));
                        rep.evaluations += 1;
                        if let Ok(d) = dec {
                            if d.verify().is_err() {
                                rep.fail("roundtrip_signature_breaks", "an honestly signed NetAddress no longer verifies after encode + decode (hash of the decoded value differs)", json!({"mode": "std", "case": case}));
                            }
                        }
                    }
                    "duration" | "utc" => {
                        let nanos = case["nanos"].as_i64().unwrap();
                        let neg = case["neg"].as_bool().unwrap_or(false);
                        let d = time::Duration::seconds(secs_of(case["secs"].as_str().unwrap())).checked_add(time::Duration::nanoseconds(if neg { -nanos } else { nanos }));
                        let Some(d) = d else {
                            rep.count("std_case_not_representable");
                            continue;
                        };
                        if d.whole_seconds() == i64::MIN || (d.whole_seconds() == i64::MIN + 1 && d.subsec_nanoseconds() < 0) {
                            rep.count("std_case_outside_the_property_domain");
                            continue;
                        }
                        if case["kind"] == "duration" {
                            roundtrip::<time::Duration>("time::Duration", &d, &mut rng, &mut rep);
                        } else {
                            let u = time::UNIX_EPOCH + d;
                            roundtrip::<time::Utc>("time::Utc", &u, &mut rng, &mut rep);
                        }
                    }
                    "bitvec" => {
                        let len = case["len"].as_u64().unwrap() as usize;
                        let pat = case["pattern"].as_str().unwrap().to_string();
                        let v = bit_vec::BitVec::from_fn(len, |i| match pat.as_str() { "zeros" => false, "ones" => true, "alt" => i % 2 == 0, _ => i + 1 == len });
                        roundtrip::<bit_vec::BitVec>("BitVec", &v, &mut rng, &mut rep);
                        // the same bit patterns as a signer set, alone and inside a commit certificate (a certificate under construction has no signer yet)
                        let sg = validator::v2::Signers(v.clone());
                        roundtrip::<validator::v2::Signers>("Signers", &sg, &mut rng, &mut rep);
                        let mut qc: validator::v2::CommitQC = rng.gen();
                        qc.signers = sg;
                        roundtrip::<validator::v2::CommitQC>("CommitQC", &qc, &mut rng, &mut rep);
                    }
                    "rate" => {
                        let refresh = match case["refresh"].as_str().unwrap() { "0" => time::Duration::ZERO, "1" => time::Duration::nanoseconds(1), _ => time::Duration::MAX };
                        let v = limiter::Rate { burst: case["burst"].as_u64().unwrap() as usize, refresh };
                        roundtrip::<limiter::Rate>("limiter::Rate", &v, &mut rng, &mut rep);
                    }
                    "proposal" => {
                        let mut v: validator::v2::LeaderProposal = rng.gen();
                        v.proposal_payload = match case["payload"].as_str().unwrap() {
                            "absent" => None,
                            "empty" => Some(validator::Payload(vec![])),
                            "one_byte" => Some(validator::Payload(vec![0])),
                            _ => Some(validator::Payload(vec![0xab; 70_000])),
                        };
                        v.justification = if case["just"] == "commit" { validator::v2::ProposalJustification::Commit(rng.gen()) } else { validator::v2::ProposalJustification::Timeout(rng.gen()) };
                        roundtrip::<validator::v2::LeaderProposal>("LeaderProposal", &v, &mut rng, &mut rep);
                        let key: validator::SecretKey = rng.gen();
                        let signed = key.sign_msg(validator::ConsensusMsg::V2(validator::v2::ChonkyMsg::LeaderProposal(v)));
                        roundtrip::<validator::Signed<validator::ConsensusMsg>>("Signed<ConsensusMsg>", &signed, &mut rng, &mut rep);
                        rep.evaluations += 1;
                        if let Ok(d) = zksync_protobuf::decode::<validator::Signed<validator::ConsensusMsg>>(&zksync_protobuf::encode(&signed)) {
                            if d.verify().is_err() {
                                rep.fail("roundtrip_signature_breaks", "an honestly signed LeaderProposal no longer verifies after encode + decode (hash of the decoded value differs)", json!({"mode": "std", "case": case}));
                            }
                        }
                    }
                    "timeout" => {
                        let mut v: validator::v2::ReplicaTimeout = rng.gen();
                        v.high_vote = if case["hv"].as_bool().unwrap() { Some(rng.gen()) } else { None };
                        v.high_qc = if case["hq"].as_bool().unwrap() { Some(rng.gen()) } else { None };
                        v.view.number = validator::ViewNumber(if case["view"] == "max" { u64::MAX } else { 0 });
                        roundtrip::<validator::v2::ReplicaTimeout>("ReplicaTimeout", &v, &mut rng, &mut rep);
                    }
                    "commit" => {
                        let mut v: validator::v2::ReplicaCommit = rng.gen();
                        let x = |k: &str| if case[k] == "max" { u64::MAX } else { 0 };
                        v.view.number = validator::ViewNumber(x("view"));
                        v.view.epoch = validator::EpochNumber(x("epoch"));
                        v.proposal.number = validator::BlockNumber(x("number"));
                        roundtrip::<validator::v2::ReplicaCommit>("ReplicaCommit", &v, &mut rng, &mut rep);
                    }
                    "block" => {
                        let mut v: validator::v2::FinalBlock = rng.gen();
                        v.payload = match case["payload"].as_str().unwrap() {
                            "empty" => validator::Payload(vec![]),
                            "one_byte" => validator::Payload(vec![0]),
                            _ => validator::Payload(vec![0xcd; 70_000]),
                        };
                        roundtrip::<validator::v2::FinalBlock>("FinalBlock", &v, &mut rng, &mut rep);
                        roundtrip::<validator::Block>("Block", &validator::Block::FinalV2(v), &mut rng, &mut rep);
                    }
                    "tqc" => {
                        let mut v: validator::v2::TimeoutQC = rng.gen();
                        let want = case["groups"].as_u64().unwrap() as usize;
                        while v.map.len() > want {
                            let k = v.map.keys().next().unwrap().clone();
                            v.map.remove(&k);
                        }
                        while v.map.len() < want {
                            let mut t: validator::v2::ReplicaTimeout = rng.gen();
                            t.view = v.view.clone();
                            v.map.insert(t, rng.gen());
                        }
                        roundtrip::<validator::v2::TimeoutQC>("TimeoutQC", &v, &mut rng, &mut rep);
                    }
                    "tqc_near" => {
                        let mut v: validator::v2::TimeoutQC = rng.gen();
                        v.map.clear();
                        let mut t1: validator::v2::ReplicaTimeout = rng.gen();
                        t1.view = v.view.clone();
                        t1.high_vote = Some(rng.gen());
                        t1.high_qc = Some(rng.gen());
                        let mut t2 = t1.clone();
                        match case["leaf"].as_str().unwrap() {
                            "hv_presence" => t2.high_vote = None,
                            "hv_view" => t2.high_vote.as_mut().unwrap().view.number = validator::ViewNumber(t1.high_vote.as_ref().unwrap().view.number.0 ^ 1),
                            "hv_number" => t2.high_vote.as_mut().unwrap().proposal.number = validator::BlockNumber(t1.high_vote.as_ref().unwrap().proposal.number.0 ^ 1),
                            "hv_payload" => t2.high_vote.as_mut().unwrap().proposal.payload = rng.gen(),
                            "hq_presence" => t2.high_qc = None,
                            "hq_view" => t2.high_qc.as_mut().unwrap().message.view.number = validator::ViewNumber(t1.high_qc.as_ref().unwrap().message.view.number.0 ^ 1),
                            "hq_number" => t2.high_qc.as_mut().unwrap().message.proposal.number = validator::BlockNumber(t1.high_qc.as_ref().unwrap().message.proposal.number.0 ^ 1),
                            "hq_signers" => {
                                let b = &mut t2.high_qc.as_mut().unwrap().signers.0;
                                if b.is_empty() {
                                    b.push(true);
                                } else {
                                    let x = b.get(0).unwrap();
                                    b.set(0, !x);
                                }
                            }
                            _ => t2.high_qc.as_mut().unwrap().signature = rng.gen(),
                        }
                        rep.evaluations += 1;
                        let (s1, s2): (validator::v2::Signers, validator::v2::Signers) = (rng.gen(), rng.gen());
                        let mut a = v.clone();
                        a.map.insert(t1.clone(), s1.clone());
                        a.map.insert(t2.clone(), s2.clone());
                        let mut b = v.clone();
                        b.map.insert(t2.clone(), s2.clone());
                        b.map.insert(t1.clone(), s1.clone());
                        let tag = json!({"type": "TimeoutQC", "case": case});
                        if t1 == t2 {
                            rep.notes.push(format!("tqc_near {}: the two reports came out equal (harness)", case["leaf"]));
                        } else if a.map.len() != 2 || b.map.len() != 2 {
                            rep.fail("roundtrip_mismatch", format!("TimeoutQC: two reports that differ in {} are ONE key of the vote map ({} / {} entries after inserting both): the order of the keys disagrees with their equality, a vote is lost", case["leaf"], a.map.len(), b.map.len()), tag);
                        } else if a.map.get(&t1) != Some(&s1) || a.map.get(&t2) != Some(&s2) {
                            rep.fail("roundtrip_mismatch", format!("TimeoutQC: the signer set stored under a report that differs from another in {} cannot be found again", case["leaf"]), tag);
                        } else if zksync_protobuf::encode(&a) != zksync_protobuf::encode(&b) {
                            rep.fail("roundtrip_mismatch", format!("TimeoutQC: equal certificates built in different insertion orders encode to different bytes (reports differing in {})", case["leaf"]), tag);
                        } else {
                            roundtrip::<validator::v2::TimeoutQC>("TimeoutQC", &a, &mut rng, &mut rep);
                        }
                    }
                    "netaddr" => {
                        let key: validator::SecretKey = rng.gen();
                        let ts = if case["ts"] == "max" { time::UNIX_EPOCH + time::Duration::seconds(i64::MAX / 4) } else { time::UNIX_EPOCH };
                        let na = validator::NetAddress { addr: "127.0.0.1:0".parse().unwrap(), version: if case["version"] == "max" { u64::MAX } else { 0 }, timestamp: ts };
                        roundtrip::<validator::Signed<validator::NetAddress>>("Signed<NetAddress>", &key.sign_msg(na), &mut rng, &mut rep);
                    }
                    "genesis" => {
                        let mut g: validator::Genesis = rng.gen();
                        let raw = validator::GenesisRaw {
                            chain_id: g.chain_id,
                            fork_number: g.fork_number,
                            protocol_version: g.protocol_version,
                            first_block: validator::BlockNumber(if case["first"] == "max" { u64::MAX } else { 0 }),
                            validators_schedule: if case["schedule"].as_bool().unwrap() { Some(rng.gen()) } else { None },
                        };
                        g = raw.with_hash();
                        roundtrip::<validator::Genesis>("Genesis", &g, &mut rng, &mut rep);
                    }
                    "schedule" => {
                        let infos: Vec<validator::ValidatorInfo> = (0..3u64)
                            .map(|i| validator::ValidatorInfo { key: rng.gen::<validator::SecretKey>().public(), weight: 1 + i, leader: !(i == 1 && case["nonleader"].as_bool().unwrap()) })
                            .collect();
                        let sel = validator::LeaderSelection {
                            frequency: match case["freq"].as_str().unwrap() { "0" => 0, "1" => 1, _ => u64::MAX },
                            mode: if case["mode"] == "rr" { validator::LeaderSelectionMode::RoundRobin } else { validator::LeaderSelectionMode::Weighted },
                        };
                        match validator::Schedule::new(infos, sel) {
                            Ok(sch) => roundtrip::<validator::Schedule>("Schedule", &sch, &mut rng, &mut rep),
                            Err(_) => rep.count("std_case_not_representable"),
                        }
                    }
                    "replica_state" => {
                        let mut v: validator::v2::ChonkyV2State = rng.gen();
                        let pay = if case["payload"] == "empty" { vec![] } else { vec![7u8] };
                        v.proposals = (0..case["proposals"].as_u64().unwrap()).map(|i| validator::Proposal { number: validator::BlockNumber(i), payload: validator::Payload(pay.clone()) }).collect();
                        if !case["certs"].as_bool().unwrap() {
                            v.high_vote = None;
                            v.high_commit_qc = None;
                            v.high_timeout_qc = None;
                        }
                        v.phase = match case["phase"].as_str().unwrap_or("prepare") {
                            "commit" => validator::v2::Phase::Commit,
                            "timeout" => validator::v2::Phase::Timeout,
                            _ => validator::v2::Phase::Prepare,
                        };
                        roundtrip::<validator::v2::ChonkyV2State>("ChonkyV2State", &v, &mut rng, &mut rep);
                        roundtrip::<validator::ReplicaState>("ReplicaState", &validator::ReplicaState::V2(v), &mut rng, &mut rep);
                    }
                    _ => rep.count("std_case_unknown_kind"),
                }
            }
            rep.write(&a[2]);
        }
        _ => panic!("mode"),
    }
}

#!/usr/bin/env python3
"""usage: seed_prompt.py <Cxx> <round> — writes /tmp/seedprompts/<Cxx>_r<round>.txt (property text + diversity list; nothing else from /verif)
and creates the scratch worktree /tmp/seed<round>_<Cxx>."""
import json, sys, os, glob, subprocess
pid, rnd = sys.argv[1], sys.argv[2]
HINT = {"C01": "zksync_consensus_bft (and/or zksync_consensus_roles)", "C02": "zksync_consensus_bft (and/or zksync_consensus_roles)", "C03": "zksync_consensus_bft",
        "C05": "zksync_consensus_bft", "C06": "zksync_consensus_bft", "C04": "zksync_consensus_roles", "C07": "zksync_consensus_roles", "C08": "zksync_consensus_engine (and/or zksync_consensus_network)",
        "C09": "zksync_protobuf (and/or zksync_consensus_roles)", "C10": "zksync_consensus_network (or roles/protobuf/engine, whichever you touch)", "C11": "zksync_consensus_roles",
        "C12": "zksync_consensus_network", "C13": "zksync_consensus_network", "C14": "zksync_consensus_network", "C15": "zksync_concurrency (and/or zksync_consensus_network)",
        "C16": "zksync_consensus_bft (and/or zksync_concurrency)", "C17": "zksync_concurrency", "C18": "zksync_consensus_network (and/or zksync_consensus_roles)", "C19": "zksync_consensus_network"}
p = next(json.loads(l) for l in open('/verif/properties.jsonl') if json.loads(l)['id'] == pid)
text = f"{pid} — {p['title']}\n{p['statement']}\nQuantified: {p['quantifier']['text']}\nCode anchors: {json.dumps(p['anchors'])}"
wt = f"/tmp/seed{rnd}_{pid}"
t = open('/tmp/agent_prompt_template.txt').read() if os.path.exists('/tmp/agent_prompt_template.txt') else open('/verif/tools/agent_prompt_template.txt').read()
t = t.replace('WORKTREE', wt).replace('PROPERTY_TEXT', text).replace('CRATE_HINT', HINT[pid]).replace('PROP_ID', pid)
prev = []
for m in sorted(glob.glob(f'/verif/seeded/{pid}*/meta.json')):
    prev.append(json.load(open(m)).get('summary', '')[:260])
if prev:
    t += "\n\nDIVERSITY REQUIREMENT: earlier exercises already produced the following changes for this property. Choose a DIFFERENT mechanism / code site:\n" + "\n".join(" - " + x for x in prev) + "\n"
os.makedirs('/tmp/seedprompts', exist_ok=True)
open(f'/tmp/seedprompts/{pid}_r{rnd}.txt', 'w').write(t)
if not os.path.exists(wt):
    subprocess.run(['git', '-C', '/repo', 'worktree', 'add', '--detach', wt, 'HEAD'], check=True, stdout=subprocess.DEVNULL, stderr=subprocess.DEVNULL)
print(f'/tmp/seedprompts/{pid}_r{rnd}.txt', wt)

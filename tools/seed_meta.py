#!/usr/bin/env python3
"""usage: seed_meta.py <seeded-dir> <demo-confirmation> <detected-by>   — records my own confirmation in meta.json"""
import json, sys
p = sys.argv[1].rstrip('/') + '/meta.json'
m = json.load(open(p))
m['confirmed'] = {"applies_to": "/repo HEAD (git apply)", "demo": sys.argv[2], "detected_by": sys.argv[3], "date": "2026-09-25"}
json.dump(m, open(p, 'w'), indent=1)

#!/bin/bash
# Runs every quick check on the clean tree, sequentially, and records exit codes (evidence files are rewritten by these runs).
cd /verif
test -z "$(git -C /repo status --short)" || { echo "/repo not clean"; exit 2; }
./check setup | tail -1
mkdir -p out/final_logs; : > out/final_logs/summary.txt
for c in C01 C02 C03 C04 C05 C06 C07 C08 C09 C10 C11 C12 C13 C14 C15 C16 C17 C18 C19; do
  s=$(date +%s); ./check $c --tier quick > out/final_logs/$c.log 2>&1; rc=$?
  echo "$c rc=$rc $(( $(date +%s) - s ))s viol=$(grep -c '^VIOLATION' out/final_logs/$c.log)" >> out/final_logs/summary.txt
done
cat out/final_logs/summary.txt

#!/bin/bash
# applies each mutations/*.diff to /repo, runs the checks named in the .checks file, undoes it; prints one line per (mutation, check)
cd /verif
[ -z "$(git -C /repo status --short)" ] || { echo "/repo not clean"; exit 2; }
for d in mutations/*.diff; do
  n=$(basename $d .diff); [ -n "$1" ] && [[ "$n" != *$1* ]] && continue
  git -C /repo apply /verif/$d || { echo "$n: does not apply"; continue; }
  for c in $(cat mutations/$n.checks); do
    out=$(./check $c --tier quick 2>&1)
    v=$(echo "$out" | grep -A1 "^VIOLATION" | tail -1 | cut -c1-160)
    t=$(echo "$out" | grep "TOOL-ERROR" | head -1 | cut -c1-120)
    echo "$n | $c | ${v:-${t:-no alarm}}"
  done
  git -C /repo checkout -- .
done
./check setup | tail -1

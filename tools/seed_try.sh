#!/bin/bash
# usage: seed_try.sh <worktree> <crate> <demo-filter> <seeded-name> <check-id> [more check ids]
# confirms the demo in both directions in the agent's worktree, stores the deliverables, runs the checks with the patch applied to /repo, undoes it.
WT=$1; CRATE=$2; DEMO=$3; NAME=$4; shift 4
cd $WT/node || exit 2
echo "== crate tests WITH the change"; (timeout 1800 cargo test --offline -j 8 -p $CRATE 2>&1 | grep -E "^test result|FAILED" | head -6)
git -C $WT apply -R $WT/seeded_out/patch.diff || exit 2
echo "== demo WITHOUT the change"; (timeout 1800 cargo test --offline -j 8 -p $CRATE $DEMO 2>&1 | grep -E "^test result|FAILED" | head -4)
mkdir -p /verif/seeded/$NAME && cp $WT/seeded_out/patch.diff $WT/seeded_out/demo.diff $WT/seeded_out/meta.json /verif/seeded/$NAME/
cd /verif
git -C /repo worktree remove --force $WT
git -C /repo apply /verif/seeded/$NAME/patch.diff || exit 2
for c in "$@"; do echo "== ./check $c"; (./check $c --tier quick 2>&1 | grep -v "^\s*[0-9]*:\|^\s*at \|^NOTE" | cut -c1-400 | tail -3); done
git -C /repo checkout -- . ; git -C /repo status --short
./check setup | tail -1

CONSTANTS G = 2 L = 3 MaxBlock = 13 Honest = TRUE Lag = TRUE
CONSTANT Committee <- ComOf
SPECIFICATION Spec
INVARIANTS TypeOK AtMostThree Contiguous OnlyLastOpen RightCommittee
CHECK_DEADLOCK FALSE

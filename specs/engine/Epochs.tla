------------------------------- MODULE Epochs -------------------------------
(***************************************************************************)
(* Block admission and dynamic validator schedules                          *)
(* (engine/src/manager.rs:183-215 queue_block, 425-435 epoch_for_block,     *)
(*  520-610 schedule loop; bft/src/lib.rs:50-75 instance lifetime).         *)
(*                                                                         *)
(* The execution layer defines which committee is in charge of which block: *)
(* epoch k covers the numbers [G + k*L, G + (k+1)*L), G = first block of    *)
(* the genesis, and its committee is Committee(k). The node learns the      *)
(* schedule of the epoch of its durable head at start-up and the PENDING    *)
(* schedule (next epoch) by polling, only once its head is past the         *)
(* activation block of the last epoch it knows; learning epoch e+1 fixes    *)
(* the expiration block of epoch e; the oldest entry is dropped when, after *)
(* an insertion, a third entry exists whose activation is below the head.   *)
(*                                                                         *)
(* A block is [kind, n, e, c, ok]:                                          *)
(*   kind "pre"  : externally justified; admitted iff n < G and the         *)
(*                 execution layer vouches for it (ok)                      *)
(*   kind "final": certified; e = epoch claimed by the certificate, c = the *)
(*                 committee that signed it, ok = everything else checks    *)
(*                 out (quorum, aggregate, payload hash). Admitted iff the  *)
(*                 schedule of epoch e is KNOWN and c is its committee.     *)
(* Deviations of the implementation that are modelled as they are: a final  *)
(* block is not checked against the lifetime of the epoch it claims, nor    *)
(* against n >= G; what keeps such blocks from existing is the replicas'    *)
(* own check before voting (verify_payload: epoch_for_block(n) = e).        *)
(***************************************************************************)
EXTENDS Integers, FiniteSets, Sequences

CONSTANTS G,            \* genesis.first_block
          L,            \* epoch length in blocks
          Committee(_)  \* epoch -> committee id

EpochOf(n) == (n - G) \div L
Act(k) == G + k * L
NoExp == -1

Min(S) == CHOOSE e \in S : \A x \in S : e <= x
Max(S) == CHOOSE e \in S : \A x \in S : x <= e

(* sched : function from known epoch numbers to [act, exp]; exp = NoExp when not known yet *)
EpochForBlock(sched, n) ==
    LET m == {e \in DOMAIN sched : sched[e].act <= n /\ (sched[e].exp = NoExp \/ sched[e].exp >= n)}
    IN IF m = {} THEN -1 ELSE Min(m)

Admit(b, sched) ==
    IF b.kind = "pre" THEN b.n < G /\ b.ok
    ELSE b.e \in DOMAIN sched /\ b.c = Committee(EpochOf(sched[b.e].act)) /\ b.ok    \* the schedule STORED under the claimed epoch number

(* One iteration of the schedule loop. `last` = manager.head() = number of the last durable block. *)
(* `pend` = activation block of the pending schedule reported by the execution layer at `last`.    *)
PendingAct(last) == Act(EpochOf(last) + 1)
FetchCond(sched, last) == last > sched[Max(DOMAIN sched)].act
Fetch(sched, cur, last) ==
    IF ~FetchCond(sched, last) THEN [sched |-> sched, cur |-> cur]
    ELSE LET pa == PendingAct(last)
             dom == (DOMAIN sched) \cup {cur + 1}
             ins == [e \in dom |->
                        IF e = cur + 1 THEN [act |-> pa, exp |-> NoExp]
                        ELSE IF e = cur THEN [sched[e] EXCEPT !.exp = pa - 1]
                        ELSE sched[e]]
             o == Min(dom)
             prune == Cardinality(dom) >= 3 /\ ins[Min({e \in dom : Cardinality({x \in dom : x < e}) = 2})].act < last
         IN [sched |-> IF prune THEN [e \in dom \ {o} |-> ins[e]] ELSE ins, cur |-> cur + 1]

(* start-up from a durable state whose last block is `last` with claimed epoch `e` (none: last = G - 1... see Boot0) *)
Boot(last, e) == [sched |-> [x \in {e} |-> [act |-> Act(EpochOf(last)), exp |-> NoExp]], cur |-> e]
Boot0 == [sched |-> [x \in {0} |-> [act |-> G, exp |-> NoExp]], cur |-> 0]

(***************************************************************************)
(* The node as a transition system (model checking).                        *)
(***************************************************************************)
CONSTANTS MaxBlock, Honest, Lag
VARIABLES last, sched, cur, chain, running
vars == <<last, sched, cur, chain, running>>

Init == /\ last = G - 1 /\ sched = Boot0.sched /\ cur = 0
        /\ chain = [n \in {} |-> 0] /\ running = {}

Tick == LET f == Fetch(sched, cur, last) IN
        /\ sched' = f.sched /\ cur' = f.cur
        /\ UNCHANGED <<last, chain, running>>

(* what committees sign: an honest committee of epoch e signs number n only if its replicas' epoch_for_block(n) = e; *)
(* with Lag they may not know the expiration of e yet                                                                *)
Signable(n, e) == IF ~Honest THEN TRUE ELSE n >= Act(e) /\ (Lag \/ n < Act(e + 1))
Accept(e, c) ==
    LET n == last + 1
        b == [kind |-> "final", n |-> n, e |-> e, c |-> c, ok |-> TRUE]
    IN /\ n <= MaxBlock /\ n >= G
       /\ Admit(b, sched) /\ Signable(n, e)
       /\ chain' = [x \in (DOMAIN chain) \cup {n} |-> IF x = n THEN [e |-> e, c |-> c] ELSE chain[x]]
       /\ last' = n
       /\ UNCHANGED <<sched, cur, running>>

Restart ==
    /\ last >= G
    /\ LET b == Boot(last, chain[last].e) IN sched' = b.sched /\ cur' = b.cur
    /\ running' = {}
    /\ UNCHANGED <<last, chain>>

StartBft(e) ==
    /\ e \in DOMAIN sched /\ e \notin running
    /\ last >= sched[e].act - 1                      \* all blocks before its activation are durable
    /\ ~(sched[e].exp # NoExp /\ last >= sched[e].exp)
    /\ running' = running \cup {e}
    /\ UNCHANGED <<last, sched, cur, chain>>
StopBft(e) ==
    /\ e \in running /\ e \in DOMAIN sched /\ sched[e].exp # NoExp /\ last >= sched[e].exp
    /\ running' = running \ {e}
    /\ UNCHANGED <<last, sched, cur, chain>>

Epochs == 0..((MaxBlock - G) \div L + 2)
Next == Tick \/ Restart
        \/ (\E e \in Epochs, c \in {Committee(k) : k \in Epochs} : Accept(e, c))
        \/ (\E e \in DOMAIN sched : StartBft(e) \/ StopBft(e))
Spec == Init /\ [][Next]_vars /\ WF_vars(Tick)

(* ---- properties ---- *)
Known == DOMAIN sched
TypeOK == cur \in Known /\ cur = Max(Known) /\ last >= G - 1
AtMostThree == Cardinality(Known) <= 3
Contiguous == \A e \in Known : (e + 1) \in Known => sched[e].exp + 1 = sched[e + 1].act
OnlyLastOpen == \A e \in Known : (sched[e].exp = NoExp) <=> (e = Max(Known))
(* with honest, informed committees every accepted block was certified by the committee in charge of its number *)
RightCommittee == \A n \in DOMAIN chain : chain[n].c = Committee(EpochOf(n)) /\ chain[n].e = EpochOf(n)
(* the numbering of the manager loop agrees with the execution layer's *)
NumberingOK == \A e \in Known : sched[e].act = Act(e)
(* an epoch is dropped from the node's knowledge only when it is over: its expiration block is durable, so its BFT instance *)
(* has terminated (bft/src/lib.rs:57-69) and no block of it remains to be verified - except by a restart, which rebuilds     *)
(* everything from the durable head                                                                                          *)
PrunedOnlyFinished ==
    [][running' = {} \/ \A e \in (DOMAIN sched) \ (DOMAIN sched') : sched[e].exp # NoExp /\ last >= sched[e].exp]_vars
(* progress of knowledge: the epoch of the next block eventually becomes known (it may lag behind a fast sync) *)
NextKnown == (last + 1 <= MaxBlock) ~> (EpochOf(last + 1) \in Known \/ last + 1 > MaxBlock)
=============================================================================

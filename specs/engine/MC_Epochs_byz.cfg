CONSTANTS G = 2 L = 3 MaxBlock = 11 Honest = FALSE Lag = TRUE
CONSTANT Committee <- ComOf
SPECIFICATION Spec
INVARIANTS TypeOK AtMostThree Contiguous OnlyLastOpen
CHECK_DEADLOCK FALSE
PROPERTIES PrunedOnlyFinished

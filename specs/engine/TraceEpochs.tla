----------------------------- MODULE TraceEpochs -----------------------------
(***************************************************************************)
(* Trace validation (T1) of a real EngineManager against Epochs.tla:       *)
(* every recorded operation is explained from the state OBSERVED before it  *)
(* (the state then follows the observation):                                *)
(*   offer   : accepted iff Admit(block, known schedule); the next number   *)
(*             advances iff it was admitted and is exactly the next one;    *)
(*             the schedule changes only by the start-up of the schedule    *)
(*             loop once everything before genesis is durable               *)
(*   tick    : one iteration of the schedule loop (Fetch)                   *)
(*   restart : the schedule is rebuilt from the durable head (Boot) and one *)
(*             iteration of the loop runs at once                           *)
(* plus the state properties AtMostThree, Contiguous, OnlyLastOpen on every *)
(* observed state.                                                          *)
(***************************************************************************)
EXTENDS Integers, Sequences, FiniteSets, Json, IOUtils, TLC
Rec == ndJsonDeserialize(IOEnv.TRACE)
Hd == Rec[1]
GG == Hd.G
LL == Hd.L
ComOf(e) == IF e % 2 = 0 THEN "A" ELSE "B"
VARIABLE x
INSTANCE Epochs WITH G <- GG, L <- LL, Committee <- ComOf, MaxBlock <- 0, Honest <- FALSE, Lag <- TRUE,
                     last <- x, sched <- x, cur <- x, chain <- x, running <- x

SchedOf(arr) == [e \in {arr[k].e : k \in 1..Len(arr)} |->
                    LET r == arr[CHOOSE k \in 1..Len(arr) : arr[k].e = e] IN [act |-> r.act, exp |-> r.exp]]
Snap(i) == Rec[i].snap
S(i) == SchedOf(Snap(i).sched)
LastOf(i) == Snap(i).pnext - 1              \* number of the last durable block (-1: none)
(* start-up of the schedule loop from durable head `lst` whose block claims epoch `e`, followed by one iteration *)
BootIter(lst, e) == LET b == Boot(IF lst < GG THEN GG ELSE lst, e) IN Fetch(b.sched, b.cur, lst).sched
Empty == [e \in {} |-> 0]

BlockOf(ev) == [kind |-> ev.kind, n |-> ev.n, e |-> ev.epoch, c |-> ev.com, ok |-> ev.ok]
StepProblem(i) ==
    LET ev == Rec[i]
        pre == IF ev.e = "offer" THEN SchedOf(ev.before.sched) ELSE S(i - 1)
        preNext == IF ev.e = "offer" THEN ev.before.next ELSE Snap(i - 1).next
        post == S(i)
        lst == LastOf(i)
    IN CASE ev.e = "offer" ->
              LET adm == Admit(BlockOf(ev), pre)
                  expNext == IF adm /\ ev.n = preNext THEN preNext + 1 ELSE preNext
                  expSched == IF DOMAIN pre = {} /\ lst >= GG - 1 THEN BootIter(lst, IF ev.kind = "final" /\ adm /\ ev.n = preNext THEN ev.epoch ELSE 0) ELSE pre
              IN IF (ev.res = "ok") # adm
                 THEN IF adm THEN "a block the specification admits was refused" ELSE
                      IF ev.kind = "pre" THEN "an externally justified block was admitted at or after genesis.first_block, or without the execution layer vouching for it"
                      ELSE "a certified block was admitted although the schedule of its epoch is unknown, its signers are not that epoch's committee, or it does not verify"
                 ELSE IF Snap(i).next # expNext THEN "the next block number does not follow from the admission"
                 ELSE IF post # expSched THEN "the known schedule changed on a block offer other than by the start-up of the schedule loop"
                 ELSE "none"
         [] ev.e = "tick" ->
              IF DOMAIN pre = {} THEN (IF post = (IF lst >= GG - 1 THEN BootIter(lst, 0) ELSE Empty) \/ post = Empty THEN "none" ELSE "schedule appeared from nothing on a tick")
              ELSE IF post # Fetch(pre, Max(DOMAIN pre), lst).sched THEN "one iteration of the schedule loop does not produce the specified schedule" ELSE "none"
         [] ev.e = "restart" ->
              IF post # (IF lst >= GG - 1 THEN BootIter(lst, ev.last_epoch) ELSE Empty) THEN "the schedule after a restart is not the one rebuilt from the durable head" ELSE "none"
         [] OTHER -> "none"
StateProblem(i) ==
    LET s == S(i) K == DOMAIN s IN
    IF Cardinality(K) > 3 THEN "more than three epochs kept"
    ELSE IF \E e \in K : (e + 1) \in K /\ s[e].exp + 1 # s[e + 1].act THEN "lifetimes of consecutive epochs are not contiguous"
    ELSE IF K # {} /\ \E e \in K : (s[e].exp = NoExp) # (e = Max(K)) THEN "an epoch other than the last one has no expiration (or the last one has)"
    ELSE "none"
Idx == 3..Len(Rec)
Bad == {i \in Idx : StepProblem(i) # "none" \/ StateProblem(i) # "none"}
First == IF Bad = {} THEN 0 ELSE CHOOSE i \in Bad : \A j \in Bad : i <= j
Verdict == IF Bad = {} THEN "ok" ELSE IF StepProblem(First) # "none" THEN StepProblem(First) ELSE StateProblem(First)
ASSUME PrintT(<<"VERDICT", Verdict, First, Len(Rec)>>)
TInit == x = 0
TNext == UNCHANGED x
=============================================================================

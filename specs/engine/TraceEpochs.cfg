INIT TInit
NEXT TNext

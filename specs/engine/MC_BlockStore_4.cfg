CONSTANTS Numbers = {0,1,2,3} Ids = {1,2,9} BadIds = {9}
SPECIFICATION Spec
INVARIANTS OnlyVerified Contiguous HandedInOrder
PROPERTIES PersistedMonotone NoSubstitution
CHECK_DEADLOCK FALSE

CONSTANTS G = 2 L = 3 MaxBlock = 13 Honest = TRUE Lag = FALSE
CONSTANT Committee <- ComOf
SPECIFICATION Spec
INVARIANTS TypeOK AtMostThree Contiguous OnlyLastOpen RightCommittee NumberingOK
PROPERTIES NextKnown PrunedOnlyFinished
CHECK_DEADLOCK FALSE

INIT TInit
NEXT TNext
INVARIANTS NoBad
ALIAS Brief
POSTCONDITION Accepted
CHECK_DEADLOCK FALSE

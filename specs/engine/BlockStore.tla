------------------------------ MODULE BlockStore ------------------------------
(***************************************************************************)
(* The block store (property C08): EngineManager + BlockStore              *)
(* (engine/src/manager.rs:150-225, 480-502; block_store.rs).                *)
(* API-level specification: blocks are OFFERED by concurrent callers        *)
(* (queue_block: consensus, peers), become QUEUED when verified and exactly *)
(* next, are HANDED to durable storage in order by one task, and the durable*)
(* range may grow on its own (side channel), be pruned, and the node may    *)
(* restart from it. A block is [n: number, id: content id, ok: verifies].   *)
(***************************************************************************)
EXTENDS Naturals, Sequences, FiniteSets

CONSTANTS Numbers, Ids, BadIds          \* BadIds \subseteq Ids: blocks that fail verification

VARIABLES
    pfirst, pnext,     \* persisted (durable) range [pfirst, pnext)
    qfirst, qnext,     \* queued (available) range  [qfirst, qnext)
    content,           \* [number -> id] of every block accepted so far (queued or persisted), 0 = none
    offered,           \* blocks offered by in-flight queue_block calls
    handed,            \* sequence of numbers handed to queue_next_block in this incarnation
    pending            \* numbers handed but whose durable write has not completed
vars == <<pfirst, pnext, qfirst, qnext, content, offered, handed, pending>>

Blk == [n : Numbers, id : Ids]
First == CHOOSE x \in Numbers : \A y \in Numbers : x <= y

Init ==
    /\ pfirst = First /\ pnext = First /\ qfirst = First /\ qnext = First
    /\ content = [n \in Numbers |-> 0]
    /\ offered = {} /\ handed = <<>> /\ pending = {}

Offer(b) == offered' = offered \cup {b} /\ UNCHANGED <<pfirst, pnext, qfirst, qnext, content, handed, pending>>

(* a verified offered block that is exactly the next one is appended; anything else waits or is a no-op *)
Push(b) ==
    /\ b \in offered /\ b.id \notin BadIds /\ b.n = qnext
    /\ content' = [content EXCEPT ![b.n] = b.id]
    /\ qnext' = qnext + 1
    /\ offered' = offered \ {b}
    /\ UNCHANGED <<pfirst, pnext, qfirst, handed, pending>>
(* the call returns without effect: invalid block (error) or a number already queued (no-op) *)
Return(b) ==
    /\ b \in offered /\ (b.id \in BadIds \/ b.n < qnext)
    /\ offered' = offered \ {b}
    /\ UNCHANGED <<pfirst, pnext, qfirst, qnext, content, handed, pending>>

(* the single feeder task: next block to hand = max(last handed + 1, persisted.next), if queued *)
NextToHand == IF handed = <<>> THEN pnext ELSE IF handed[Len(handed)] + 1 > pnext THEN handed[Len(handed)] + 1 ELSE pnext
Hand ==
    /\ NextToHand < qnext /\ NextToHand >= qfirst
    /\ handed' = Append(handed, NextToHand)
    /\ pending' = pending \cup {NextToHand}
    /\ UNCHANGED <<pfirst, pnext, qfirst, qnext, content, offered>>

PersistDone(n) ==
    /\ n \in pending /\ n = pnext
    /\ pnext' = pnext + 1 /\ pending' = pending \ {n}
    /\ UNCHANGED <<pfirst, qfirst, qnext, content, offered, handed>>

(* durable storage receives blocks through a side channel up to (excluding) m *)
SideJump(m, ids) ==
    /\ m \in Numbers /\ m > pnext
    /\ content' = [n \in Numbers |-> IF n >= pnext /\ n < m /\ content[n] = 0 THEN ids[n] ELSE content[n]]
    /\ pnext' = m
    /\ qnext' = IF qnext < m THEN m ELSE qnext
    /\ qfirst' = IF qnext < m THEN pfirst ELSE qfirst
    /\ pending' = {n \in pending : n >= m}
    /\ UNCHANGED <<pfirst, offered, handed>>

Prune(k) ==
    /\ k \in Numbers /\ k > pfirst /\ k <= pnext
    /\ pfirst' = k /\ qfirst' = IF qfirst < k THEN k ELSE qfirst
    /\ UNCHANGED <<pnext, qnext, content, offered, handed, pending>>

Restart ==
    /\ qfirst' = pfirst /\ qnext' = pnext
    /\ content' = [n \in Numbers |-> IF n < pnext THEN content[n] ELSE 0]
    /\ offered' = {} /\ handed' = <<>> /\ pending' = {}
    /\ UNCHANGED <<pfirst, pnext>>

Next ==
    \/ \E b \in Blk : Offer(b) \/ Push(b) \/ Return(b)
    \/ Hand
    \/ \E n \in Numbers : PersistDone(n) \/ Prune(n)
    \/ \E m \in Numbers : SideJump(m, [n \in Numbers |-> CHOOSE i \in Ids \ BadIds : TRUE])
    \/ Restart
Spec == Init /\ [][Next]_vars

(* Properties *)
OnlyVerified == \A n \in Numbers : content[n] \notin BadIds
Contiguous == qfirst <= qnext /\ pfirst <= pnext /\ pnext <= qnext /\ pfirst <= qfirst
               /\ \A n \in Numbers : (n >= qfirst /\ n < qnext) => content[n] # 0
HandedInOrder == \A i \in 1..Len(handed) : i > 1 => handed[i] > handed[i-1]
(* an accepted block is never replaced by a different one; an unpersisted one may only be forgotten (restart) *)
NoSubstitution == [][\A n \in Numbers : content[n] # 0 => (content'[n] = content[n] \/ (content'[n] = 0 /\ n >= pnext))]_vars
PersistedMonotone == [][pnext' >= pnext /\ pfirst' >= pfirst]_vars
=============================================================================

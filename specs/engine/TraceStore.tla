------------------------------ MODULE TraceStore ------------------------------
(***************************************************************************)
(* Trace validation (T1) of the real EngineManager against the API-level    *)
(* properties of BlockStore.tla. The state follows the observation; each    *)
(* `quiet` event (everything observable at quiescence) is checked:          *)
(*   OnlyVerified, Contiguous + ReadBack, NoSubstitution, HandedInOrder,    *)
(*   PersistedMonotone, call results, and the closure "no verified offered  *)
(*   block that is exactly next is left waiting".                           *)
(***************************************************************************)
EXTENDS Naturals, Sequences, FiniteSets, Json, IOUtils, TLC
Rec == ndJsonDeserialize(IOEnv.TRACE)
Hd == Rec[1]
Numbers == 0..Hd.maxn
ToSet(s) == {s[i] : i \in 1..Len(s)}
BadIds == ToSet(Hd.bad)

VARIABLES l, content, qnext, pnext, pfirst, offers, sidejumped, bad, sawRestart
tvars == <<l, content, qnext, pnext, pfirst, offers, sidejumped, bad, sawRestart>>
Ev == Rec[l]

TInit == /\ l = 2 /\ content = [n \in Numbers |-> 0] /\ qnext = 0 /\ pnext = 0 /\ pfirst = 0
         /\ offers = {} /\ sidejumped = {} /\ bad = "none" /\ sawRestart = FALSE

Flag(cond, what) == IF bad = "none" /\ ~cond THEN what ELSE bad
Check(seq) ==   \* first failing check of a sequence of <<cond, what>>
    LET idx == {i \in 1..Len(seq) : ~seq[i][1]} IN
    IF bad # "none" \/ idx = {} THEN bad ELSE seq[CHOOSE i \in idx : \A j \in idx : i <= j][2]

BlockIds(ev) == [n \in Numbers |-> LET m == {i \in 1..Len(ev.blocks) : ev.blocks[i].n = n} IN
                                    IF m = {} THEN 0 ELSE ev.blocks[CHOOSE i \in m : TRUE].id]
Increasing(s) == \A i \in 1..Len(s) : i > 1 => s[i] > s[i-1]

TQuiet ==
    /\ Ev.e = "quiet"
    /\ LET ev == Ev
           ids == BlockIds(ev)
           inq(n) == n >= ev.qfirst /\ n < ev.qnext
           pend == {[n |-> ev.pending[i].n, id |-> ev.pending[i].id] : i \in 1..Len(ev.pending)}
           rets == ToSet(ev.returns)
           okOffer(n, id) == [n |-> n, id |-> id] \in offers \/ [n |-> n, id |-> id] \in sidejumped
       IN /\ bad' = Check(<<
                <<ev.qfirst <= ev.qnext /\ ev.pfirst <= ev.pnext /\ ev.pnext <= ev.qnext /\ ev.pfirst <= ev.qfirst, "ranges not contiguous / queued behind persisted">>,
                <<ev.pnext >= pnext /\ ev.pfirst >= pfirst, "persisted range went backwards">>,
                <<sawRestart \/ ev.qnext >= qnext, "queued range shrank without a restart">>,
                <<\A n \in Numbers : inq(n) => ids[n] # 0, "a block reported as available cannot be read back">>,
                <<\A n \in Numbers : inq(n) => ids[n] \notin BadIds, "an unverified block is in the store">>,
                <<\A n \in Numbers : (inq(n) /\ content[n] # 0 /\ ~sawRestart) => ids[n] = content[n], "a different block was substituted for a number already accepted">>,
                <<\A n \in Numbers : (inq(n) /\ n < pnext /\ content[n] # 0) => ids[n] = content[n], "a persisted block changed">>,
                <<\A n \in Numbers : (inq(n) /\ content[n] = 0) => okOffer(n, ids[n]), "a block nobody offered is in the store">>,
                <<Increasing(ev.handed), "blocks handed to storage out of order">>,
                <<\A i \in 1..Len(ev.handed) : i > 1 => (ev.handed[i] = ev.handed[i-1] + 1 \/ \E k \in 1..l : Rec[k].e = "side_jump" /\ Rec[k].m = ev.handed[i]),
                  "gap in the blocks handed to storage">>,
                <<\A r \in rets : r.ok => (r.id \notin BadIds /\ r.n < ev.qnext), "queue_block succeeded for an invalid or unqueued block">>,
                <<\A r \in rets : ~r.ok => r.id \in BadIds, "queue_block failed for a valid block">>,
                <<~\E b \in pend : b.id \notin BadIds /\ b.n <= ev.qnext, "a verified block that is next stays unqueued at quiescence">>
             >>)
          /\ content' = [n \in Numbers |-> IF inq(n) THEN ids[n] ELSE IF n < ev.pnext THEN content[n] ELSE IF sawRestart THEN 0 ELSE content[n]]
          /\ qnext' = ev.qnext /\ pnext' = ev.pnext /\ pfirst' = ev.pfirst
          /\ sawRestart' = FALSE
          /\ offers' = {o \in offers : o \in pend \/ TRUE}
          /\ UNCHANGED sidejumped

TOffer == /\ Ev.e = "offer" /\ offers' = offers \cup {[n |-> Ev.n, id |-> Ev.id]}
          /\ UNCHANGED <<content, qnext, pnext, pfirst, sidejumped, bad, sawRestart>>
TSide == /\ Ev.e = "side_jump"
         /\ sidejumped' = sidejumped \cup {[n |-> Ev.from + i - 1, id |-> Ev.ids[i]] : i \in 1..Len(Ev.ids)}
         /\ UNCHANGED <<content, qnext, pnext, pfirst, offers, bad, sawRestart>>
TRestart == /\ Ev.e = "restart" /\ sawRestart' = TRUE /\ offers' = {}
            /\ UNCHANGED <<content, qnext, pnext, pfirst, sidejumped, bad>>
TOther == /\ Ev.e \in {"persist_done", "prune"}
          /\ UNCHANGED <<content, qnext, pnext, pfirst, offers, sidejumped, bad, sawRestart>>

TNext == l <= Len(Rec) /\ l' = l + 1 /\ (TQuiet \/ TOffer \/ TSide \/ TRestart \/ TOther)
NoBad == bad = "none"
Brief == [l |-> l, bad |-> bad]
Accepted == IF TLCGet("stats").diameter = Len(Rec) THEN TRUE ELSE PrintT(<<"TRACE-NOT-CONSUMED", TLCGet("stats").diameter, Len(Rec)>>) /\ FALSE
=============================================================================

------------------------------- MODULE Limiter -------------------------------
(***************************************************************************)
(* The rate limiter (property C15a): concurrency/src/limiter/mod.rs.        *)
(* Time is counted in refresh periods ("ticks"). Implementation-shaped      *)
(* model of the lazy token bucket with delayed consumption:                 *)
(*   permits  : tokens in the bucket as of tick `ticks` (<= Burst)          *)
(*   reserved : tokens granted to live Permits (consumed only on drop)      *)
(* acquire(k): callers are served one at a time in arrival order; the head   *)
(* waits until Burst - reserved >= k, then until tick                        *)
(* need = ticks + max(0, reserved + k - permits), then reserves.            *)
(* drop(Permit k): permits -= k, reserved -= k (the tokens start refilling). *)
(* A cancelled wait changes nothing.                                        *)
(***************************************************************************)
EXTENDS Integers, Sequences, FiniteSets

CONSTANTS Burst, Calls, MaxK, Horizon      \* Calls: call identifiers, in arrival order 1..N

VARIABLES
    now,        \* current tick
    ticks, permits, reserved,                 \* bucket state (mod.rs:52-76)
    queue,      \* arrival-ordered pending acquire calls <<id, k>>
    nextCall,   \* next call id to arrive
    held,       \* [id -> k] granted, not yet dropped
    grants      \* history: sequence of [id, k, t]
vars == <<now, ticks, permits, reserved, queue, nextCall, held, grants>>

Advance(t, p) == IF t < ticks THEN p ELSE IF p + (t - ticks) > Burst THEN Burst ELSE p + (t - ticks)
Max(a, b) == IF a >= b THEN a ELSE b

Init == /\ now = 0 /\ ticks = 0 /\ permits = Burst /\ reserved = 0
        /\ queue = <<>> /\ nextCall = 1 /\ held = [c \in {} |-> 0] /\ grants = <<>>

Call(k) ==
    /\ nextCall \in Calls /\ k \in 1..MaxK /\ k <= Burst
    /\ queue' = Append(queue, <<nextCall, k>>) /\ nextCall' = nextCall + 1
    /\ UNCHANGED <<now, ticks, permits, reserved, held, grants>>

(* the head of the queue is granted as soon as the bucket allows *)
Need(k) == ticks + Max(0, reserved + k - permits)
Grant ==
    /\ queue # <<>>
    /\ LET id == queue[1][1]  k == queue[1][2] IN
       /\ Burst - reserved >= k
       /\ Need(k) <= now
       /\ permits' = Advance(Max(Need(k), ticks), permits) /\ ticks' = Max(Need(k), ticks)
       /\ reserved' = reserved + k
       /\ held' = [c \in DOMAIN held \cup {id} |-> IF c = id THEN k ELSE held[c]]
       /\ grants' = Append(grants, [id |-> id, k |-> k, t |-> now])
       /\ queue' = Tail(queue)
    /\ UNCHANGED <<now, nextCall>>

(* a waiting caller gives up (any position in the queue) *)
Cancel(i) ==
    /\ i \in 1..Len(queue)
    /\ queue' = [j \in 1..(Len(queue) - 1) |-> IF j < i THEN queue[j] ELSE queue[j + 1]]
    /\ UNCHANGED <<now, ticks, permits, reserved, nextCall, held, grants>>

Drop(id) ==
    /\ id \in DOMAIN held
    /\ LET k == held[id]  p == Advance(now, permits) IN
       /\ permits' = p - k /\ reserved' = reserved - k /\ ticks' = Max(now, ticks)
    /\ held' = [c \in DOMAIN held \ {id} |-> held[c]]
    /\ UNCHANGED <<now, queue, nextCall, grants>>

(* time passes only when the head cannot be granted now (grants are immediate) *)
HeadReady == queue # <<>> /\ Burst - reserved >= queue[1][2] /\ Need(queue[1][2]) <= now
Tick == /\ now < Horizon /\ ~HeadReady /\ now' = now + 1
        /\ UNCHANGED <<ticks, permits, reserved, queue, nextCall, held, grants>>

Next == (\E k \in 1..MaxK : Call(k)) \/ Grant \/ (\E i \in 1..3 : Cancel(i)) \/ (\E id \in Calls : Drop(id)) \/ Tick
Spec == Init /\ [][Next]_vars

(* Properties *)
RECURSIVE SumK(_, _, _)
SumK(g, i, j) == IF i > j THEN 0 ELSE g[i].k + SumK(g, i + 1, j)
(* never more than b + T/r + 1 permits in any window *)
WindowBound == \A i, j \in 1..Len(grants) : i <= j => SumK(grants, i, j) <= Burst + (grants[j].t - grants[i].t) + 1
(* waiting callers are served in arrival order *)
Fifo == \A i, j \in 1..Len(grants) : i < j => grants[i].id < grants[j].id
(* the bucket never holds more than it should *)
StateOK == permits >= 0 /\ permits <= Burst /\ reserved >= 0 /\ reserved <= Burst /\ permits >= reserved
=============================================================================

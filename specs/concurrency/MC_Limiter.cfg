CONSTANTS Burst = 2 Calls = {1,2,3,4} MaxK = 2 Horizon = 6
SPECIFICATION Spec
INVARIANTS WindowBound Fifo StateOK
CHECK_DEADLOCK FALSE

CONSTANTS MaxOps = 4 Alphabet = "full"
INIT Init
NEXT Next
INVARIANTS OnePerSenderKind OnlyValid KeepsMax NothingLost Done
CHECK_DEADLOCK FALSE

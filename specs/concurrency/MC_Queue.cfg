CONSTANTS MaxOps = 4
INIT Init
NEXT Next
INVARIANTS OnePerSenderKind OnlyValid KeepsMax NothingLost Done
CHECK_DEADLOCK FALSE

-------------------------------- MODULE Scope --------------------------------
(***************************************************************************)
(* Structured-concurrency scopes (property C17): concurrency/src/scope/     *)
(*   mod.rs:270-307 (run: every task holds a guard, wait for termination),  *)
(*   state.rs:77-103 (first error wins, panic overrides, context cancelled  *)
(*   on error and when the last main task finishes).                        *)
(* A PROGRAM is a sequence of task descriptors                               *)
(*   [kind, main, parent]   parent = 0: spawned by the scope body,          *)
(*                          parent = i: spawned by task i when it starts    *)
(*   kind: "ok" | "e1" | "e2" (returns that error) | "panic"                *)
(*       | "wait_ok" | "wait_e3" (first waits for cancellation)             *)
(* plus the body's own result ("ok", the error "e0", or a panic of the root *)
(* task itself) and whether the caller cancels from outside. The same       *)
(* programs are run as async scopes (scope::run!, spawn / spawn_bg) and as  *)
(* blocking scopes (scope::run_blocking!, spawn_blocking /                  *)
(* spawn_bg_blocking, mod.rs:316-345): the specification is the same.       *)
(* outer = TRUE stands for EVERY way the caller's context can end while the *)
(* scope runs (ctx/mod.rs:196-260): its own deadline passes (under a        *)
(* deadline-less parent, or a tighter deadline under a parent with a later  *)
(* one), an ancestor's deadline passes, an enclosing scope terminates. A    *)
(* waiting task waits on the scope's context or on ANY descendant of it (a  *)
(* child / grandchild with later deadlines, the context of a nested scope): *)
(* cancellation reaches every descendant, so `cancelled` is one flag. The   *)
(* harness rotates through these shapes for every program.                  *)
(* The model explores every schedule; TLC prints every reachable outcome of *)
(* every program, which is the set of outcomes the real scope may produce.  *)
(***************************************************************************)
EXTENDS Naturals, Sequences, FiniteSets

CONSTANTS Programs         \* set of [tasks: Seq(task), body: "ok"|"e0"|"panic", outer: BOOLEAN]

VARIABLES prog, st, slot, cancelled, mainsAlive, outerDone
vars == <<prog, st, slot, cancelled, mainsAlive, outerDone>>
\* st[i] in {"unspawned", "running", "done"} for task i; index 0 is the body (kept separately as bodySt)
VARIABLE bodySt
allvars == <<prog, st, slot, cancelled, mainsAlive, outerDone, bodySt>>

N(p) == Len(p.tasks)
Children(p, i) == {j \in 1..N(p) : p.tasks[j].parent = i}

Init == /\ prog \in Programs
        /\ st = [i \in 1..N(prog) |-> "unspawned"]
        /\ bodySt = "running"
        /\ slot = "none" /\ cancelled = FALSE /\ outerDone = FALSE
        /\ mainsAlive = 1          \* the body is a main task

(* record a failure: first error wins, a panic overrides an error; the context is cancelled *)
Record(r) == IF r = "panic" THEN "panic"
             ELSE IF slot = "none" THEN r ELSE slot
IsFail(r) == r \notin {"ok"}

(* a main task (or the body) finishing: when it was the last one, the context is cancelled *)
MainsAfter(dec) == mainsAlive - dec

(* is task j spawned as a main task? only while some main task is still alive (Scope::main_task falls back to background) *)
SpawnChildren(i, alive) ==
    LET kids == Children(prog, i) IN
    [j \in 1..N(prog) |-> IF j \in kids THEN "running" ELSE st[j]]
NewMains(i, alive) == IF alive > 0 THEN Cardinality({j \in Children(prog, i) : prog.tasks[j].main}) ELSE 0

(* the body starts by spawning its children, then finishes with its result *)
BodySpawn ==
    /\ bodySt = "running" /\ \E j \in Children(prog, 0) : st[j] = "unspawned"
    /\ st' = SpawnChildren(0, mainsAlive)
    /\ mainsAlive' = mainsAlive + NewMains(0, mainsAlive)
    /\ UNCHANGED <<prog, slot, cancelled, outerDone, bodySt>>
BodyFinish ==
    /\ bodySt = "running" /\ \A j \in Children(prog, 0) : st[j] # "unspawned"
    /\ bodySt' = "done"
    /\ slot' = IF prog.body = "ok" THEN slot ELSE Record(prog.body)
    /\ mainsAlive' = mainsAlive - 1
    /\ cancelled' = (cancelled \/ prog.body # "ok" \/ mainsAlive - 1 = 0)
    /\ UNCHANGED <<prog, st, outerDone>>

Result(k) == CASE k = "ok" -> "ok" [] k = "wait_ok" -> "ok" [] k = "e1" -> "e1" [] k = "e2" -> "e2" [] k = "wait_e3" -> "e3" [] k = "panic" -> "panic"
Waits(k) == k \in {"wait_ok", "wait_e3"}

(* task i spawns its children when it starts; modelled as part of its first step *)
TaskSpawn(i) ==
    /\ st[i] = "running" /\ \E j \in Children(prog, i) : st[j] = "unspawned"
    /\ st' = SpawnChildren(i, mainsAlive)
    /\ mainsAlive' = mainsAlive + NewMains(i, mainsAlive)
    /\ UNCHANGED <<prog, slot, cancelled, outerDone, bodySt>>
IsMainNow(i) == prog.tasks[i].main      \* (fallback to background only matters for the cancel count; see MainCount)
TaskFinish(i) ==
    /\ st[i] = "running" /\ \A j \in Children(prog, i) : st[j] # "unspawned"
    /\ Waits(prog.tasks[i].kind) => cancelled
    /\ LET r == Result(prog.tasks[i].kind)
           wasMain == prog.tasks[i].main /\ mainsAlive > 0
           left == IF wasMain THEN mainsAlive - 1 ELSE mainsAlive
       IN /\ st' = [st EXCEPT ![i] = "done"]
          /\ slot' = IF IsFail(r) THEN Record(r) ELSE slot
          /\ mainsAlive' = left
          /\ cancelled' = (cancelled \/ IsFail(r) \/ (wasMain /\ left = 0))
    /\ UNCHANGED <<prog, outerDone, bodySt>>

(* the caller's context is cancelled (or its deadline passes) at any moment *)
OuterCancel ==
    /\ prog.outer /\ ~outerDone
    /\ outerDone' = TRUE /\ cancelled' = TRUE
    /\ UNCHANGED <<prog, st, slot, mainsAlive, bodySt>>

AllDone == bodySt = "done" /\ \A i \in 1..N(prog) : st[i] = "done"
Next == ~AllDone /\ (BodySpawn \/ BodyFinish \/ OuterCancel \/ \E i \in 1..N(prog) : TaskSpawn(i) \/ TaskFinish(i))
Spec == Init /\ [][Next]_allvars

(* what scope::run! returns once every task has finished *)
Outcome == IF slot = "none" THEN "ok" ELSE slot

(* Properties of the model *)
(* JoinAll + progress: from every reachable state every task can still finish (no task is left waiting forever): *)
(* a waiting task is only blocked while the scope is not cancelled, and the scope IS cancelled once nothing else can run *)
NoStuck == (~AllDone /\ ~ENABLED (BodySpawn \/ BodyFinish \/ \E i \in 1..N(prog) : TaskSpawn(i) \/ TaskFinish(i))) => (prog.outer /\ ~outerDone)
(* the outcome is a failure of some task, never invented; panic dominates *)
OutcomeSound == AllDone =>
    /\ (Outcome = "ok" <=> (prog.body = "ok" /\ \A i \in 1..N(prog) : ~IsFail(Result(prog.tasks[i].kind))))
    /\ ((prog.body = "panic" \/ \E i \in 1..N(prog) : prog.tasks[i].kind = "panic") => Outcome = "panic")
    /\ (Outcome \notin {"ok", "panic"} => (Outcome = prog.body \/ \E i \in 1..N(prog) : Result(prog.tasks[i].kind) = Outcome))
=============================================================================

----------------------------- MODULE TraceLimiter -----------------------------
(***************************************************************************)
(* Trace validation (T1) of the real Limiter against the property-level     *)
(* statements of Limiter.tla, evaluated on the recorded history of run A    *)
(* (as scripted) and run B (same script without the cancelled calls):       *)
(*   WindowBound : sum of permits granted in any window <= b + T div r + 1  *)
(*   Fifo        : grants in arrival order of the calls that were not       *)
(*                 cancelled                                                *)
(*   CancelNeutral: a cancelled wait consumes nothing - every other call is *)
(*                 granted in A no later than in B (one period of slack),   *)
(*                 unless it was still queued behind a cancelled call, in   *)
(*                 which case no later than one period after that cancel.   *)
(***************************************************************************)
EXTENDS Integers, Sequences, FiniteSets, Json, IOUtils, TLC
Rec == ndJsonDeserialize(IOEnv.TRACE)
Hd == Rec[1]
B == Hd.burst
R == Hd.refresh

Sel(run, kind) == SelectSeq(Rec, LAMBDA e : e.e = kind /\ e.run = run)
Grants(run) == Sel(run, "grant")
Cancels(run) == Sel(run, "cancel")

RECURSIVE SumK(_, _, _)
SumK(g, i, j) == IF i > j THEN 0 ELSE g[i].k + SumK(g, i + 1, j)
WindowBoundOK(run) ==
    LET g == Grants(run) IN
    \A i, j \in 1..Len(g) : i <= j => SumK(g, i, j) <= B + ((g[j].t - g[i].t) \div R) + 1
FifoOK(run) ==
    LET g == Grants(run) IN \A i, j \in 1..Len(g) : i < j => g[i].id < g[j].id
CancelledIds == {Cancels("A")[i].id : i \in 1..Len(Cancels("A"))}
CancellableIds == {Sel("A", "call")[i].id : i \in {x \in 1..Len(Sel("A", "call")) : Sel("A", "call")[x].cancellable}}
Comparable == CancellableIds = CancelledIds            \* every cancellable call was indeed cancelled in run A
GrantT(run, id) == LET g == Grants(run) idx == {i \in 1..Len(g) : g[i].id = id} IN
                   IF idx = {} THEN -1 ELSE g[CHOOSE i \in idx : TRUE].t
(* time at which the last cancelled call that arrived before `id` gave up *)
LastCancelBefore(id) ==
    LET c == Cancels("A") idx == {i \in 1..Len(c) : c[i].id < id} IN
    IF idx = {} THEN 0 ELSE LET m == CHOOSE i \in idx : \A j \in idx : c[j].t <= c[i].t IN c[m].t
Max(a, b) == IF a >= b THEN a ELSE b
CancelNeutralOK ==
    ~Comparable \/
    \A i \in 1..Len(Grants("B")) :
        LET id == Grants("B")[i].id
            ta == GrantT("A", id)
        IN ta >= 0 /\ ta <= Max(Grants("B")[i].t, LastCancelBefore(id)) + R
(* nothing granted is lost track of: every grant is released with the same k (sanity of the recording) *)
Verdict ==
    IF ~WindowBoundOK("A") \/ ~WindowBoundOK("B") THEN "more than b + T/r + 1 permits granted in a window"
    ELSE IF ~FifoOK("A") \/ ~FifoOK("B") THEN "waiting callers not served in arrival order"
    ELSE IF ~CancelNeutralOK THEN "a cancelled wait delayed or consumed permits of later callers"
    ELSE "ok"
ASSUME PrintT(<<"VERDICT", Verdict, Len(Grants("A")), Len(Grants("B")), Comparable>>)
VARIABLE x
Init == x = 0
Next == UNCHANGED x
=============================================================================

----------------------------- MODULE TraceLimiter -----------------------------
(***************************************************************************)
(* Trace validation (T1) of the real Limiter against the property-level     *)
(* statements of Limiter.tla, evaluated on the recorded history of run A    *)
(* (as scripted) and run B (same script without the cancelled calls):       *)
(*   WindowBound : sum of permits granted in any window <= b + T div r + 1  *)
(*   Fifo        : grants in arrival order of the calls that were not       *)
(*                 cancelled                                                *)
(*   CancelNeutral: a cancelled wait consumes nothing - every other call is *)
(*                 granted in A no later than in B (one period of slack),   *)
(*                 unless it was still queued behind a cancelled call, in   *)
(*                 which case no later than one period after that cancel.   *)
(***************************************************************************)
EXTENDS Integers, Sequences, FiniteSets, Json, IOUtils, TLC
Rec == ndJsonDeserialize(IOEnv.TRACE)
Hd == Rec[1]
B == Hd.burst
R == Hd.refresh

Sel(run, kind) == SelectSeq(Rec, LAMBDA e : e.e = kind /\ e.run = run)
Grants(run) == Sel(run, "grant")
Cancels(run) == Sel(run, "cancel")

RECURSIVE SumK(_, _, _)
SumK(g, i, j) == IF i > j THEN 0 ELSE g[i].k + SumK(g, i + 1, j)
WindowBoundOK(run) ==
    LET g == Grants(run) IN
    \A i, j \in 1..Len(g) : i <= j => SumK(g, i, j) <= B + ((g[j].t - g[i].t) \div R) + 1
FifoOK(run) ==
    LET g == Grants(run) IN \A i, j \in 1..Len(g) : i < j => g[i].id < g[j].id
(***************************************************************************)
(* Real-time refinement of Limiter.tla (limiter/mod.rs:66-81, 133-149,      *)
(* 174-229), used to decide "a cancelled wait consumes nothing": the        *)
(* recorded run is replayed event by event on the reference state           *)
(*   [ticks, permits, reserved, q, needs, elig]                             *)
(* in which a cancel only removes the caller from the queue. The head of    *)
(* the queue computes, at the moment enough reservations are consumed,      *)
(*   need = ticks + max(0, reserved + k - permits)                          *)
(* and is granted at the first clock value >= max(that moment, need * r).   *)
(* (Several releases at the same clock instant may or may not be seen by    *)
(* that computation: every such possibility is a candidate in `needs`.)     *)
(* If every grant of run A (with cancelled calls) is explained, cancelled   *)
(* waits consumed nothing. If run B (no cancels) is not explained either,   *)
(* the reference is not the implementation's timing: reported as drift.     *)
(***************************************************************************)
Evs(run) == SelectSeq(Rec, LAMBDA e : e.e \in {"call", "grant", "release", "cancel"} /\ e.run = run)
(* every value the (jumping) manual clock took during the run *)
ClockValues(run) == {Rec[i].t : i \in {j \in 1..Len(Rec) : Rec[j].e \in {"tick", "call", "grant", "release", "cancel"} /\ Rec[j].run = run}}
TickOf(t) == t \div R
MaxI(a, b) == IF a >= b THEN a ELSE b
MinI(a, b) == IF a <= b THEN a ELSE b
Advance(st, tk) == IF tk < st.ticks THEN st ELSE [st EXCEPT !.permits = MinI(st.permits + (tk - st.ticks), B), !.ticks = tk]
NeedOf(st) == st.ticks + MaxI(0, st.reserved + st.q[1].k - st.permits)
HeadEligible(st) == st.q # <<>> /\ B - st.reserved >= st.q[1].k
(* the head computes its need after event i (first time), or possibly again after a same-instant release *)
Compute(st, i, t, more) ==
    IF ~HeadEligible(st) THEN st
    ELSE IF st.needs = <<>> THEN [st EXCEPT !.needs = <<NeedOf(st)>>, !.elig = i, !.eligT = t]
    ELSE IF more /\ t = st.eligT THEN [st EXCEPT !.needs = Append(st.needs, NeedOf(st))]
    ELSE st
RemoveId(q, id) == SelectSeq(q, LAMBDA c : c.id # id)
GrantOK(cv, t, st, n) ==        \* the grant at time t is the wake-up of a sleep until need n, computed at time st.eligT
    LET dl == MaxI(st.eligT, n * R)
    IN t >= dl /\ ~\E c \in cv : c >= dl /\ c < t
RECURSIVE Replay(_, _, _, _)
Replay(ev, cv, i, st) ==
    IF i > Len(ev) \/ st.bad # 0 THEN st
    ELSE LET e == ev[i] IN
         CASE e.e = "call" -> Replay(ev, cv, i + 1, Compute([st EXCEPT !.q = Append(st.q, [id |-> e.id, k |-> e.k])], i, e.t, FALSE))
           [] e.e = "cancel" ->
                LET wasHead == st.q # <<>> /\ st.q[1].id = e.id
                    s1 == [st EXCEPT !.q = RemoveId(st.q, e.id), !.needs = IF wasHead THEN <<>> ELSE st.needs]
                IN Replay(ev, cv, i + 1, Compute(s1, i, e.t, FALSE))
           [] e.e = "release" ->
                LET a == Advance(st, TickOf(e.t))
                    s1 == [a EXCEPT !.reserved = a.reserved - e.k, !.permits = a.permits - e.k]
                IN Replay(ev, cv, i + 1, Compute(s1, i, e.t, TRUE))
           [] e.e = "grant" ->
                IF st.q = <<>> \/ st.q[1].id # e.id \/ st.needs = <<>> THEN [st EXCEPT !.bad = i]
                ELSE LET ok == {x \in 1..Len(st.needs) : GrantOK(cv, e.t, st, st.needs[x])}
                     IN IF ok = {} THEN [st EXCEPT !.bad = i]
                        ELSE LET n == st.needs[CHOOSE x \in ok : \A y \in ok : y <= x]
                                 a == Advance(st, n)
                                 s1 == [a EXCEPT !.reserved = a.reserved + e.k, !.q = Tail(st.q), !.needs = <<>>]
                             IN Replay(ev, cv, i + 1, Compute(s1, i, e.t, FALSE))
           [] OTHER -> Replay(ev, cv, i + 1, st)
Ref0 == [ticks |-> 0, permits |-> B, reserved |-> 0, q |-> <<>>, needs |-> <<>>, elig |-> 0, eligT |-> 0, bad |-> 0]
(* 0 = every grant explained and nobody left waiting at the end of the (long) drain; else the index of the first unexplained grant, *)
(* or Len + 1 when a caller that was not cancelled never got its permits                                                       *)
Unexplained(run) == LET st == Replay(Evs(run), ClockValues(run), 1, Ref0)
                    IN IF st.bad # 0 THEN st.bad ELSE IF st.q # <<>> THEN Len(Evs(run)) + 1 ELSE 0
Comparable == Unexplained("B") = 0                             \* the reference explains the run without cancelled calls
CancelNeutralOK == ~Comparable \/ Unexplained("A") = 0
(* nothing granted is lost track of: every grant is released with the same k (sanity of the recording) *)
Verdict ==
    IF ~WindowBoundOK("A") \/ ~WindowBoundOK("B") THEN "more than b + T/r + 1 permits granted in a window"
    ELSE IF ~FifoOK("A") \/ ~FifoOK("B") THEN "waiting callers not served in arrival order"
    ELSE IF ~CancelNeutralOK THEN "a cancelled wait delayed or consumed permits of later callers"
    ELSE "ok"
ASSUME PrintT(<<"VERDICT", Verdict, Len(Grants("A")), Len(Grants("B")), Comparable>>)
VARIABLE x
Init == x = 0
Next == UNCHANGED x
=============================================================================

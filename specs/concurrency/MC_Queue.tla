------------------------------ MODULE MC_Queue ------------------------------
EXTENDS PrunableQueue, TLC, Json
CONSTANTS MaxOps, Alphabet    \* "full": every message shape, short sequences; "small": two senders, one kind, three views - longer sequences
MsgsFull == [s : {1, 2}, k : {"commit", "timeout"}, v : 0..2, ok : {TRUE}, c : {0}] \cup [s : {1, 2}, k : {"commit"}, v : {2}, ok : {FALSE}, c : {0}]
        \cup [s : {1}, k : {"commit", "timeout"}, v : 0..2, ok : {TRUE}, c : {1}]     \* validly signed, names another genesis
        \cup [s : {1}, k : {"commit"}, v : 0..2, ok : {TRUE}, c : {2}]                \* validly signed, another block
MsgsSmall == [s : {1, 2}, k : {"commit"}, v : 0..2, ok : {TRUE}, c : {0}]
Msgs == IF Alphabet = "small" THEN MsgsSmall ELSE MsgsFull
Init == q = <<>> /\ hist = <<>>
Next == Len(hist) < MaxOps /\ (Recv \/ \E m \in Msgs : Send(m))
Done == Len(hist) = MaxOps => PrintT(<<"CASE", ToJson([ops |-> hist])>>)
=============================================================================

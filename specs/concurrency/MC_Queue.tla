------------------------------ MODULE MC_Queue ------------------------------
EXTENDS PrunableQueue, TLC, Json
CONSTANTS MaxOps
Msgs == [s : {1, 2}, k : {"commit", "timeout"}, v : 0..2, ok : {TRUE}] \cup [s : {1, 2}, k : {"commit"}, v : {2}, ok : {FALSE}]
Init == q = <<>> /\ hist = <<>>
Next == Len(hist) < MaxOps /\ (Recv \/ \E m \in Msgs : Send(m))
Done == Len(hist) = MaxOps => PrintT(<<"CASE", ToJson([ops |-> hist])>>)
=============================================================================

------------------------------ MODULE MC_Scope ------------------------------
EXTENDS Scope, TLC, Json
CONSTANTS MaxTasks
Kinds == {"ok", "e1", "e2", "panic", "wait_ok", "wait_e3"}
TaskSeqs(n) == {s \in [1..n -> [kind : Kinds, main : BOOLEAN, parent : 0..(n - 1)]] : \A i \in 1..n : s[i].parent < i}
AllPrograms == UNION {[tasks : TaskSeqs(n), body : {"ok", "e0", "panic"}, outer : BOOLEAN] : n \in 0..MaxTasks}
Stuck == ~AllDone /\ ~ENABLED (BodySpawn \/ BodyFinish \/ OuterCancel \/ \E i \in 1..N(prog) : TaskSpawn(i) \/ TaskFinish(i))
(* programs whose main tasks wait for a cancellation nobody causes can hang: reported as outcome "hang" (the harness skips them) *)
Done == /\ AllDone => PrintT(<<"CASE", ToJson([prog |-> prog, outcome |-> Outcome])>>)
        /\ Stuck => PrintT(<<"CASE", ToJson([prog |-> prog, outcome |-> "hang"])>>)
=============================================================================

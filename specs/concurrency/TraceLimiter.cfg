INIT Init
NEXT Next

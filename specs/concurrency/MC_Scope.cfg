CONSTANTS MaxTasks = 2 Programs <- AllPrograms
INIT Init
NEXT Next
INVARIANTS OutcomeSound Done
CHECK_DEADLOCK FALSE

----------------------------- MODULE TraceRpcRate -----------------------------
(***************************************************************************)
(* C15, per-connection / per-RPC half (T1). The recorded history is the     *)
(* sequence of handler invocations (start / end, clock time) of the real    *)
(* rpc::Service serving ONE connection, per RPC kind, against a remote side *)
(* that calls as fast as it can (real clients without a client-side rate,   *)
(* or a raw peer that answers every OPEN in advance / claims 1000 streams). *)
(*                                                                         *)
(* Every handler start is preceded by the grant of one limiter permit for   *)
(* the OPEN of its transient stream (reusable_stream.rs), and a stream is   *)
(* between grant and start for at most K = INFLIGHT calls at a time. With   *)
(* Limiter.tla's WindowBound on the grants (<= b + T div r + 1 in any       *)
(* window of length T) the starts satisfy                                   *)
(*     #starts in [s_i, s_j]  <=  b + (s_j - s_i) div r + 1 + K             *)
(* (the K: grants before s_i whose handler had not started yet), and at     *)
(* most K handlers run concurrently.                                        *)
(***************************************************************************)
EXTENDS Integers, Sequences, FiniteSets, Json, IOUtils, TLC
Rec == ndJsonDeserialize(IOEnv.TRACE)
Hd == Rec[1]
B == Hd.burst
R == Hd.refresh
Kinds == {"ping", "consensus"}
K(rpc) == IF rpc = "ping" THEN Hd.inflight.ping ELSE Hd.inflight.consensus
Ev(rpc) == SelectSeq(Rec, LAMBDA e : e.e \in {"start", "end"} /\ e.rpc = rpc)
Starts(rpc) == SelectSeq(Rec, LAMBDA e : e.e = "start" /\ e.rpc = rpc)

(* A raw peer that sends the request together with every OPEN ("raw", "rawlate": header field tight) leaves no gap between the grant  *)
(* and the handler start: there the starts ARE the grants and the limiter's own bound applies without the K term - also after the   *)
(* peer stayed silent for a while (a permit is held, not consumed, while a stream waits for the peer's OPEN).                       *)
Slack(rpc) == IF Hd.tight THEN 0 ELSE K(rpc)
WindowOK(rpc) ==
    LET s == Starts(rpc) IN
    \A i, j \in 1..Len(s) : i <= j => (j - i + 1) <= B + ((s[j].t - s[i].t) \div R) + 1 + Slack(rpc)
(* tightest observed slack w.r.t. the bound WITHOUT the K term (reported, not a verdict) *)
Max(S) == CHOOSE x \in S : \A y \in S : y <= x
TightExcess(rpc) ==
    LET s == Starts(rpc) IN
    IF Len(s) = 0 THEN 0 - B - 1
    ELSE Max({(p[2] - p[1] + 1) - (B + ((s[p[2]].t - s[p[1]].t) \div R) + 1) : p \in {q \in (1..Len(s)) \X (1..Len(s)) : q[1] <= q[2]}})
RECURSIVE Running(_, _)
Running(ev, n) == IF n = 0 THEN 0 ELSE Running(ev, n - 1) + (IF ev[n].e = "start" THEN 1 ELSE -1)
InflightOK(rpc) == LET ev == Ev(rpc) IN \A n \in 1..Len(ev) : Running(ev, n) >= 0 /\ Running(ev, n) <= K(rpc)
MaxRunning(rpc) == LET ev == Ev(rpc) IN IF Len(ev) = 0 THEN 0 ELSE Max({Running(ev, n) : n \in 1..Len(ev)})
(* sanity of the recording: clock never goes back, an end follows its start *)
RecordOK(rpc) ==
    LET ev == Ev(rpc) IN
    /\ \A n \in 1..(Len(ev) - 1) : ev[n].t <= ev[n + 1].t
    /\ \A n \in 1..Len(ev) : ev[n].e = "end" => \E m \in 1..(n - 1) : ev[m].e = "start" /\ ev[m].call = ev[n].call

Verdict ==
    IF \E r \in Kinds : ~RecordOK(r) THEN "recording inconsistent"
    ELSE IF \E r \in Kinds : ~InflightOK(r) THEN "more calls of one RPC served concurrently on a connection than its in-flight limit"
    ELSE IF \E r \in Kinds : ~WindowOK(r) THEN "more calls of one RPC started on a connection within a window than the configured rate allows"
    ELSE "ok"
ASSUME PrintT(<<"VERDICT", Verdict, Len(Starts("ping")) + Len(Starts("consensus")), MaxRunning("ping"), MaxRunning("consensus"),
                TightExcess("ping"), TightExcess("consensus")>>)
VARIABLE x
Init == x = 0
Next == UNCHANGED x
=============================================================================

----------------------------- MODULE TraceNodeRate -----------------------------
(***************************************************************************)
(* C15, node level (T1): "per connection and RPC kind, the number of        *)
(* requests a node starts serving within any window stays within the        *)
(* configured rate" - configured FOR THAT KIND (config.rs RpcConfig,        *)
(* gossip/runner.rs wires one limiter per kind and connection).             *)
(* A running node is given a different rate for every RPC it serves to a    *)
(* gossip peer; a peer without any client-side rate issues many calls of    *)
(* ONE kind at once. Recorded: header [rates |-> [kind |-> [burst, refresh  *)
(* (ms), inflight]]], then one event [e |-> "done", rpc, t] per call the    *)
(* node answered (t in ms since the calls were issued). A call is answered  *)
(* after its handler started, and a handler starts after the limiter of     *)
(* ITS kind granted a permit, so with Limiter.tla's WindowBound             *)
(*     #answers in any window of length T  <=  b + T div r + 1 + K          *)
(* for b, r of that kind (K = its in-flight limit: grants made before the   *)
(* window whose answers fall into it).                                      *)
(***************************************************************************)
EXTENDS Integers, Sequences, FiniteSets, Json, IOUtils, TLC
Rec == ndJsonDeserialize(IOEnv.TRACE)
Hd == Rec[1]
Kinds == DOMAIN Hd.rates
Done(k) == SelectSeq(Rec, LAMBDA e : e.e = "done" /\ e.rpc = k)
WindowOK(k) ==
    LET s == Done(k)  b == Hd.rates[k].burst  r == Hd.rates[k].refresh  inf == Hd.rates[k].inflight IN
    \A i, j \in 1..Len(s) : i <= j => (j - i + 1) <= b + ((s[j].t - s[i].t) \div r) + 1 + inf
Ordered(k) == LET s == Done(k) IN \A n \in 1..(Len(s) - 1) : s[n].t <= s[n + 1].t
Verdict ==
    IF \E k \in Kinds : ~Ordered(k) THEN "recording inconsistent"
    ELSE IF \E k \in Kinds : ~WindowOK(k) THEN "a node answered more calls of one RPC kind within a window than the rate configured for that kind allows"
    ELSE "ok"
Answered == [k \in Kinds |-> Len(Done(k))]
ASSUME PrintT(<<"VERDICT", Verdict, ToJson(Answered)>>)
VARIABLE x
Init == x = 0
Next == UNCHANGED x
=============================================================================

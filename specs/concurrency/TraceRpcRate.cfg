INIT Init
NEXT Next

---------------------------- MODULE PrunableQueue ----------------------------
(***************************************************************************)
(* The pending-input queue of the consensus component (property C16a):      *)
(* sync::prunable_mpsc (prunable_mpsc/mod.rs:82-101) instantiated with the  *)
(* BFT filter and selection function (bft/src/lib.rs:141-162).              *)
(* A message is [s: sender, k: kind, v: view, ok: signature valid,           *)
(* c: content variant]. `c` stands for everything in a validly signed       *)
(* message that the SENDER chooses and that must not matter for pruning:    *)
(* 0 = the chain's genesis and block, 1 = another genesis hash,             *)
(* 2 = another block. A slot is (sender, kind) - nothing else.              *)
(***************************************************************************)
EXTENDS Naturals, Sequences, FiniteSets

VARIABLES q,      \* pending messages, arrival order
          hist    \* ghost: operations so far with their results (drives T2 replay)

SameSlot(a, b) == a.s = b.s /\ a.k = b.k

(* send: dropped iff the signature is invalid or a pending message of the same sender and kind has an equal or  *)
(* higher view; otherwise every pending message of that sender and kind (necessarily older) is replaced.       *)
Send(m) ==
    /\ q' = IF ~m.ok \/ \E i \in 1..Len(q) : SameSlot(q[i], m) /\ q[i].v >= m.v THEN q
            ELSE Append(SelectSeq(q, LAMBDA x : ~SameSlot(x, m)), m)
    /\ hist' = Append(hist, [op |-> "send", m |-> m, res |-> "-"])

Recv ==
    /\ IF q = <<>> THEN q' = q /\ hist' = Append(hist, [op |-> "recv", m |-> [s |-> 0, k |-> "-", v |-> 0, ok |-> TRUE, c |-> 0], res |-> "empty"])
       ELSE q' = Tail(q) /\ hist' = Append(hist, [op |-> "recv", m |-> Head(q), res |-> "msg"])

(* Properties *)
OnePerSenderKind == \A i, j \in 1..Len(q) : i # j => ~SameSlot(q[i], q[j])
OnlyValid == \A i \in 1..Len(q) : q[i].ok
(* the retained message of a slot has the highest view among the valid ones sent since the slot was last delivered *)
SentSinceDelivery(slot) ==
    LET idx == {i \in 1..Len(hist) : hist[i].op = "recv" /\ hist[i].res = "msg" /\ SameSlot(hist[i].m, slot)}
        last == IF idx = {} THEN 0 ELSE CHOOSE i \in idx : \A j \in idx : j <= i
    IN {hist[i].m : i \in {x \in (last + 1)..Len(hist) : hist[x].op = "send" /\ hist[x].m.ok /\ SameSlot(hist[x].m, slot)}}
KeepsMax == \A i \in 1..Len(q) : \A m \in SentSinceDelivery(q[i]) : m.v <= q[i].v
(* nothing valid is lost: a slot with valid sends since its last delivery is pending *)
NothingLost == \A i \in 1..Len(hist) :
    (hist[i].op = "send" /\ hist[i].m.ok /\ hist[i].m \in SentSinceDelivery(hist[i].m)) => \E j \in 1..Len(q) : SameSlot(q[j], hist[i].m)
(* Delivery order (FIFO among retained messages) is fixed by Send/Recv themselves: the T2 replay compares the exact *)
(* output sequence of the real channel with `hist`.                                                                *)
=============================================================================

INIT Init
NEXT Next

------------------------------ MODULE Handshake ------------------------------
(***************************************************************************)
(* Identity handshakes over an encrypted session (property C12):            *)
(*   gossip/handshake/mod.rs:80-157, consensus/handshake/mod.rs:62-128,     *)
(*   pool.rs:46-75, consensus/mod.rs:145-151.                               *)
(* Every noise session has a unique identifier (hash of its handshake       *)
(* transcript); the two ends of ONE session share it, and a man in the      *)
(* middle necessarily terminates two different sessions. A handshake         *)
(* message is [key, sid, genesis, sig] where sig = k means "a signature made *)
(* with the secret key of k over sid" (signatures are unforgeable).         *)
(*                                                                         *)
(* Adversary (Dolev-Yao style): owns key "m"; sees every handshake message  *)
(* honest parties send on sessions it terminates; may send on any session   *)
(* it terminates any message it has seen, or any message signed with "m",   *)
(* with any claimed key, any genesis.                                       *)
(***************************************************************************)
EXTENDS Naturals, FiniteSets

CONSTANTS Honest,         \* honest identities, e.g. {"a", "b"}
          Committee,      \* identities admitted to the validator network
          Sessions,       \* session identifiers
          Genesis         \* chain identifiers, e.g. {"g", "h"}
Attacker == "m"
Keys == Honest \cup {Attacker, "o"}      \* "o": an honest key that is not in the committee / not expected

Msg == [key : Keys, sid : Sessions, genesis : Genesis, sig : Keys]

(* What an endpoint accepts on its own session `s`, for chain `g`:                                   *)
(*   kind "gossip_in"  : any authenticated key        kind "gossip_out"  : only the dialled key     *)
(*   kind "val_in"     : authenticated committee key  kind "val_out"     : only the dialled key     *)
Accepts(kind, s, g, dialled, m) ==
    /\ m.sid = s                      \* signed THIS session
    /\ m.genesis = g                  \* same chain
    /\ m.sig = m.key                  \* signature really made by the claimed key
    /\ (kind \in {"gossip_out", "val_out"} => m.key = dialled)
    /\ (kind = "val_in" => m.key \in Committee)
Attributed(m) == m.key

(* Messages the attacker can put on a session it terminates, given the set `seen` of honest messages it observed *)
AttackerCan(seen) == seen \cup {m \in Msg : m.sig = Attacker}

(* Honest party k on session s for chain g sends: *)
HonestMsg(k, s, g) == [key |-> k, sid |-> s, genesis |-> g, sig |-> k]

(***************************************************************************)
(* Auth: whatever the attacker does, an endpoint on session s attributes a  *)
(* connection to K only if K itself signed s (so K is at the other end of   *)
(* this very session), on the same chain, and K is the dialled / admitted   *)
(* identity. In particular a transcript relayed from, or recorded on,       *)
(* another session is refused.                                              *)
(***************************************************************************)
Auth ==
    \A kind \in {"gossip_in", "gossip_out", "val_in", "val_out"}, s \in Sessions, g \in Genesis, dialled \in Honest :
        \* the attacker terminates session s towards the endpoint, and every OTHER session towards every honest party
        LET seen == {HonestMsg(k, s2, g2) : k \in Honest \cup {"o"}, s2 \in Sessions \ {s}, g2 \in Genesis}
        IN \A m \in AttackerCan(seen) :
              Accepts(kind, s, g, dialled, m) =>
                  /\ m.key = Attacker                         \* only its own identity can be attributed ...
                  /\ kind \notin {"gossip_out", "val_out"}     \* ... never on a connection that dialled somebody else
                  /\ (kind = "val_in" => Attacker \in Committee)
=============================================================================

CONSTANTS Blocks <- TBlocks Peers <- TPeers
INIT TInit
NEXT TNext
INVARIANTS NoBad Pending OneAtATime
ALIAS Brief
POSTCONDITION Accepted
CHECK_DEADLOCK FALSE

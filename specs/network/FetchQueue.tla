------------------------------ MODULE FetchQueue ------------------------------
(***************************************************************************)
(* The block fetch queue (property C19): gossip/fetch.rs.                   *)
(* Requesters ask for block numbers; per-peer workers accept the LOWEST     *)
(* pending request once their peer has announced that block, and either     *)
(* complete it or fail (drop the completion handle), in which case the      *)
(* request becomes pending again. API-level specification: the most         *)
(* permissive behaviour satisfying the statement of C19.                    *)
(***************************************************************************)
EXTENDS Naturals, FiniteSets

CONSTANTS Blocks, Peers

VARIABLES
    live,       \* block numbers with a live requester (request() has not returned)
    requested,  \* pending in the queue, available to peers
    inflight,   \* [Peers -> block number handed to that peer connection, 0 = none]
    idle,       \* peers currently waiting in accept_block
    announced,  \* [Peers -> set of block numbers the peer has announced it stores]
    stale       \* peers whose in-flight request was given up by its requester meanwhile (its completion is void)
vars == <<live, requested, inflight, idle, announced, stale>>

Min(S) == CHOOSE x \in S : \A y \in S : x <= y

Init ==
    /\ live = {} /\ requested = {} /\ idle = {}
    /\ inflight = [p \in Peers |-> 0]
    /\ announced = [p \in Peers |-> {}]
    /\ stale = {}

Request(n) ==
    /\ n \notin live
    /\ live' = live \cup {n} /\ requested' = requested \cup {n}
    /\ UNCHANGED <<inflight, idle, announced, stale>>

(* the requester gives up (its context is cancelled) *)
Cancel(n) ==
    /\ n \in live
    /\ live' = live \ {n} /\ requested' = requested \ {n}
    /\ stale' = stale \cup {p \in Peers : inflight[p] = n}
    /\ UNCHANGED <<inflight, idle, announced>>

Announce(p, S) == announced' = [announced EXCEPT ![p] = S] /\ UNCHANGED <<live, requested, inflight, idle, stale>>

StartAccept(p) ==
    /\ p \notin idle /\ inflight[p] = 0
    /\ idle' = idle \cup {p}
    /\ UNCHANGED <<live, requested, inflight, announced, stale>>

(* hand-out: to one peer connection at a time, lowest missing block first, only to a peer that announced it *)
Hand(p, n) ==
    /\ p \in idle /\ requested # {} /\ n = Min(requested) /\ n \in announced[p]
    /\ requested' = requested \ {n}
    /\ inflight' = [inflight EXCEPT ![p] = n]
    /\ idle' = idle \ {p}
    /\ UNCHANGED <<live, announced, stale>>

Complete(p) ==
    /\ inflight[p] # 0
    /\ live' = IF p \in stale THEN live ELSE live \ {inflight[p]}
    /\ inflight' = [inflight EXCEPT ![p] = 0]
    /\ stale' = stale \ {p}
    /\ UNCHANGED <<requested, idle, announced>>

(* the acceptor fails, times out or disconnects: the request becomes available again (if still wanted) *)
Fail(p) ==
    /\ inflight[p] # 0
    /\ requested' = IF p \notin stale THEN requested \cup {inflight[p]} ELSE requested
    /\ inflight' = [inflight EXCEPT ![p] = 0]
    /\ stale' = stale \ {p}
    /\ UNCHANGED <<live, idle, announced>>

(* the peer worker stops waiting (connection closed) *)
StopAccept(p) == p \in idle /\ idle' = idle \ {p} /\ UNCHANGED <<live, requested, inflight, announced, stale>>

Next ==
    \/ \E n \in Blocks : Request(n) \/ Cancel(n)
    \/ \E p \in Peers : StartAccept(p) \/ Complete(p) \/ Fail(p) \/ StopAccept(p) \/ (\E n \in Blocks : Hand(p, n))
    \/ \E p \in Peers, S \in SUBSET Blocks : Announce(p, S)

(* Properties *)
Current(p) == inflight[p] # 0 /\ p \notin stale          \* p holds the CURRENT request for that block
Pending == \A n \in live : n \in requested \/ \E p \in Peers : Current(p) /\ inflight[p] = n     \* never lost while wanted
OneAtATime ==
    /\ \A p, q \in Peers : (p # q /\ Current(p) /\ Current(q)) => inflight[p] # inflight[q]
    /\ \A p \in Peers : Current(p) => inflight[p] \notin requested
OnlyWanted == requested \subseteq live
(* at quiescence nothing that can be handed out is left waiting *)
Quiescent == ~\E p \in idle : requested # {} /\ Min(requested) \in announced[p]
Fairness == \A p \in Peers : WF_vars(\E n \in Blocks : Hand(p, n))
NoLostWakeup == [](\A p \in Peers : (p \in idle /\ requested # {} /\ Min(requested) \in announced[p]) ~> ~(p \in idle /\ requested # {} /\ Min(requested) \in announced[p]))
Spec == Init /\ [][Next]_vars /\ Fairness
=============================================================================

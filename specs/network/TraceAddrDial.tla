---------------------------- MODULE TraceAddrDial ----------------------------
(* Trace validation (T1) of a real running node against AddrDial.tla: batches pushed through the real push_validator_addrs *)
(* RPC by a scripted gossip peer, the node's address book read after every acknowledgement, the connection attempts of the *)
(* node observed on loopback listeners (one per validator and address id), the batches the node forwards to its peer.      *)
EXTENDS AddrDial, Json, IOUtils, TLC
Rec == ndJsonDeserialize(IOEnv.TRACE)
ToSet(s) == {s[i] : i \in 1..Len(s)}
TMembers == ToSet(Rec[1].members)
TOutsiders == ToSet(Rec[1].outsiders)

VARIABLES l, bad, lastok
tvars == <<dvars, l, bad, lastok>>
Ev == Rec[l]
TInit == DInit /\ l = 2 /\ bad = "none" /\ lastok = TRUE
Flag(cond, what) == bad' = IF bad = "none" /\ ~cond THEN what ELSE bad

TNext ==
    /\ l <= Len(Rec)
    /\ l' = l + 1
    /\ \/ /\ Ev.e = "batch"                                  \* logged before the batch is sent
          /\ Push(Ev.entries)
          /\ lastok' = UpdateResult(book, Ev.entries).ok
          \* the connection loops must have caught up with the previous batch (the harness waited for them)
          /\ Flag(\A m \in Members : ~DialPending(m), "the connection loop of a validator did not dial the address the book holds for it")
       \/ /\ Ev.e = "ack"                                    \* the RPC returned; the real book was read
          /\ UNCHANGED <<dvars, lastok>>
          \* the RPC outcome itself is not part of the property (a node may acknowledge a batch it ignores): reported as drift only
          /\ (Ev.ok # lastok) => PrintT(<<"DRIFT", "rpc outcome differs from the specification at event", l, Ev.ok, lastok>>)
          /\ Flag(Ev.others = 0 /\ \A m \in Members : Ev.book[m] = book[m],
                  IF Ev.others # 0 THEN "an announcement by a non-member is stored in the address book"
                  ELSE IF lastok THEN "after a valid batch the address book differs from the specification"
                  ELSE "a rejected batch (forged newer entry / duplicated key) changed the address book")
       \/ /\ Ev.e = "dial"                                   \* a connection arrived at the listener of (m, a)
          /\ lastdial' = [lastdial EXCEPT ![Ev.m] = Ev.a]
          /\ dials' = dials \cup {<<Ev.m, Ev.a>>}
          /\ UNCHANGED <<book, held, offered, fwd, lastok>>
          /\ Flag(\E c \in held[Ev.m] : c.a = Ev.a, "the node dialled an address that was never stored for that validator (not from an accepted, validly signed announcement)")
       \/ /\ Ev.e = "fwd"                                    \* the node pushed an announcement to its peer
          /\ UNCHANGED <<dvars, lastok>>
          /\ Flag(Ev.k \in Members /\ Ev.genuine /\ [ver |-> Ev.ver, ts |-> Ev.ts, a |-> Ev.a] \in held[Ev.k],
                  "the node forwarded an announcement its address book never held (forged, by a non-member, or stale)")
TSpec == TInit /\ [][TNext]_tvars
NoBad == bad = "none"
Brief == [l |-> l, bad |-> bad, book |-> book, lastdial |-> lastdial]
AllConsumed == TLCGet("stats").diameter = Len(Rec)
Accepted == IF AllConsumed THEN TRUE ELSE PrintT(<<"TRACE-NOT-CONSUMED", TLCGet("stats").diameter, Len(Rec)>>) /\ FALSE
=============================================================================

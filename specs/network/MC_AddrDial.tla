----------------------------- MODULE MC_AddrDial -----------------------------
EXTENDS AddrDial, TLC
CONSTANTS MaxVer, MaxTs, MaxA
Keys == Members \cup Outsiders
Entries == [k : Keys, ver : 0..MaxVer, ts : 0..MaxTs, a : 1..MaxA, forged : BOOLEAN]
Batches == {<<e>> : e \in Entries} \cup {<<e1, e2>> : e1 \in Entries, e2 \in Entries}
DNext == \/ \E batch \in Batches : Push(batch)
         \/ \E m \in Members : Dial(m) \/ Forward(m)
(* liveness of the dial loop under weak fairness of Dial: a pending dial is eventually served unless the book moves on *)
DSpec == DInit /\ [][DNext]_dvars /\ \A m \in Members : WF_dvars(Dial(m))
DialServed == \A m \in Members : [](DialPending(m) => <>(~DialPending(m)))
=============================================================================

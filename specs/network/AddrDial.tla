------------------------------ MODULE AddrDial ------------------------------
(***************************************************************************)
(* The validator address book inside a running node (property C18, end to  *)
(* end). Announcement batches reach the book through the                   *)
(* push_validator_addrs RPC of any gossip connection                       *)
(*   gossip/runner.rs:34-50 (PushServer::handle -> ValidatorAddrsWatch::   *)
(*   update with the schedule of the current epoch),                       *)
(* the consensus layer keeps one connection loop per committee validator   *)
(*   consensus/mod.rs:283-318 (maintain_connection: wait until the address *)
(*   in the book differs from the one last dialled, or the retry timer     *)
(*   fires; then dial the address currently in the book),                  *)
(* and whatever the node learned is forwarded to every gossip peer         *)
(*   gossip/runner.rs:163-176 (get_newer against what was sent so far).    *)
(* AddrBook.tla supplies the batch semantics (Process / UpdateResult).     *)
(***************************************************************************)
EXTENDS AddrBook

VARIABLES held,       \* [Members -> set of contents]: everything the book ever held for m
          offered,    \* [Members -> set of contents]: every GENUINE announcement by m that any batch carried
          lastdial,   \* [Members -> address id or 0]: the address the connection loop of m dialled last
          dials,      \* set of <<m, a>> dialled so far (history)
          fwd         \* set of <<m, content>> forwarded to gossip peers so far (history)
dvars == <<book, held, offered, lastdial, dials, fwd>>

DInit == /\ Init
         /\ held = [m \in Members |-> {}] /\ offered = [m \in Members |-> {}]
         /\ lastdial = [m \in Members |-> 0] /\ dials = {} /\ fwd = {}

GenuineBy(batch, m) == {Content(batch[i]) : i \in {j \in 1..Len(batch) : batch[j].k = m /\ ~batch[j].forged}}

(* a batch arrives over some gossip connection *)
Push(batch) ==
    /\ Update(batch)
    /\ held' = [m \in Members |-> held[m] \cup (IF book'[m] # None THEN {book'[m]} ELSE {})]
    /\ offered' = [m \in Members |-> offered[m] \cup GenuineBy(batch, m)]
    /\ UNCHANGED <<lastdial, dials, fwd>>

(* the connection loop of m wakes up (address changed, or retry timer) and dials what the book holds NOW *)
Dial(m) ==
    /\ book[m] # None
    /\ lastdial' = [lastdial EXCEPT ![m] = book[m].a]
    /\ dials' = dials \cup {<<m, book[m].a>>}
    /\ UNCHANGED <<book, held, offered, fwd>>

(* a per-connection forwarder pushes the current entry of m to its peer *)
Forward(m) ==
    /\ book[m] # None
    /\ fwd' = fwd \cup {<<m, book[m]>>}
    /\ UNCHANGED <<book, held, offered, lastdial, dials>>

(* the loop of m has work to do: the book holds an address different from the one it dialled last *)
DialPending(m) == book[m] # None /\ book[m].a # lastdial[m]

(* Safety *)
HeldGenuine   == \A m \in Members : held[m] \subseteq offered[m]                    \* only genuine announcements BY m are ever stored for m
DialAuthentic == \A d \in dials : \E c \in offered[d[1]] : c.a = d[2] /\ c \in held[d[1]]   \* a dialled address was stored, hence signed by that validator
FwdHeld       == \A f \in fwd : f[2] \in held[f[1]]                                 \* only stored announcements are forwarded
HeldMonotone  == [][\A m \in Members : held[m] \subseteq held'[m]]_dvars
=============================================================================

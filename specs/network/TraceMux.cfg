INIT Init
NEXT Next

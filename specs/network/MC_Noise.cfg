CONSTANTS MaxPayload = 65519
INIT Init
NEXT Next

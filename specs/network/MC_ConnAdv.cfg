CONSTANTS MaxLen = 2
INIT Init
NEXT NextB
INVARIANTS Done
PROPERTIES ClosedIsFinal
CHECK_DEADLOCK FALSE

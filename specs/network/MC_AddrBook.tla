----------------------------- MODULE MC_AddrBook -----------------------------
EXTENDS AddrBook, TLC, Json
CONSTANTS MaxVer, MaxTs, MaxA
Keys == Members \cup Outsiders
Entries == [k : Keys, ver : 0..MaxVer, ts : 0..MaxTs, a : 1..MaxA, forged : BOOLEAN]
Batches == {<<e>> : e \in Entries} \cup {<<e1, e2>> : e1 \in Entries, e2 \in Entries}

(* Authentic: whatever is stored for m was announced, unforged, by m in the batch that stored it; *)
(* RejectedBatchNoChange: by construction of UpdateResult; re-checked here on every transition.   *)
StepOK(batch) ==
    LET r == UpdateResult(book, batch) IN
    /\ ~r.ok => r.book = book
    /\ \A m \in Members : r.book[m] # book[m] =>
          \E i \in 1..Len(batch) : batch[i].k = m /\ ~batch[i].forged /\ Content(batch[i]) = r.book[m]

Next == \E batch \in Batches :
          /\ Update(batch)
          /\ Assert(StepOK(batch), <<"StepOK fails", batch>>)
          /\ PrintT(<<"CASE", ToJson([pre |-> book, batch |-> batch, ok |-> UpdateResult(book, batch).ok, post |-> book'])>>)

(* Convergence: honest announcers (each (ver,ts) used once per key, nothing forged): any two orders of the same set of *)
(* single-entry batches give the same book.                                                                             *)
HonestEntries == {e \in Entries : ~e.forged /\ e.k \in Members /\ e.a = 1}
RECURSIVE Apply(_, _)
Apply(b, seq) == IF seq = <<>> THEN b ELSE Apply(UpdateResult(b, <<Head(seq)>>).book, Tail(seq))
Perms3(S) == {<<x, y, z>> : x \in S, y \in S, z \in S}
ASSUME Convergence ==
    \A s1 \in Perms3(HonestEntries) :
        LET set == {s1[1], s1[2], s1[3]}
            b0 == [m \in Members |-> None] IN
        Cardinality(set) = 3 =>
            /\ Apply(b0, s1) = Apply(b0, <<s1[3], s1[2], s1[1]>>)
            /\ Apply(b0, s1) = Apply(b0, <<s1[2], s1[3], s1[1]>>)
            /\ Apply(b0, s1) = Apply(b0, <<s1[2], s1[1], s1[3]>>)
=============================================================================

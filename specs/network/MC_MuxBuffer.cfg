SPECIFICATION MCSpec
INVARIANTS Bounded Report
PROPERTIES AllPulled
CHECK_DEADLOCK FALSE

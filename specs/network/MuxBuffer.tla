------------------------------ MODULE MuxBuffer ------------------------------
(***************************************************************************)
(* Inbound side of the multiplexer, buffering clause of property C14:       *)
(*   mux/mod.rs:213-282 (process_inbound_frames).                           *)
(* The peer's byte stream is a sequence of frames                           *)
(*   [k |-> "open"] | [k |-> "close"] | [k |-> "data", len |-> 0..]         *)
(* each addressed to a reusable stream s (2 header bytes: kind, side,       *)
(* stream id; a DATA frame carries 2 more bytes of length). ONE loop reads  *)
(* the frames of ALL streams in order and the two semaphores are shared by  *)
(* all streams of the connection (so a stream nobody reads eventually       *)
(* stalls the others - the bound is per connection, not per stream). A DATA *)
(* frame is cut into chunks of at most FrameSize bytes. Every control frame *)
(* and every chunk holds one COUNT permit, a chunk also `size` SIZE permits,*)
(* until the application consumes it; the permits of a chunk are acquired   *)
(* BEFORE its bytes are pulled from the transport. Hence whatever the peer  *)
(* sends and however slowly the application reads, the payload pulled and   *)
(* not yet consumed never exceeds BufSize bytes in Count frames.            *)
(***************************************************************************)
EXTENDS Naturals, Sequences, FiniteSets

Streams == {0, 1}       \* reusable streams of the connection that the scenarios address

VARIABLES sc,       \* the scenario: [fs, buf, cnt, frames, rd] (rd = bytes the application reads from stream 0 before it stalls)
          i,        \* index of the frame being processed
          hdr,      \* the header (and length) of frame i has been pulled
          rem,      \* payload bytes of frame i not yet pulled
          held,     \* [stream -> frames waiting in that stream's queue, oldest first: [k, sz] (sz = 0 for a control frame)]
          est,      \* [stream -> its task has taken an OPEN frame and offers the transient stream to the application]
          wire,     \* bytes pulled from the transport so far
          consumed, \* number of Consume steps so far
          part,     \* bytes of the oldest DATA frame of stream 0 the application has already read (the frame keeps ALL its permits until its last byte is read)
          readB     \* payload bytes the application has read from stream 0
bvars == <<sc, i, hdr, rem, held, est, wire, consumed, part, readB>>

RECURSIVE Sum(_)
Sum(s) == IF s = <<>> THEN 0 ELSE Head(s).sz + Sum(Tail(s))
(* permits in use, over all streams of the connection *)
Payload == Sum(held[0]) + Sum(held[1])
Count == Len(held[0]) + Len(held[1])
Min2(a, b) == IF a < b THEN a ELSE b
Cur == sc.frames[i]

InitWith(S) == sc \in S /\ i = 1 /\ hdr = FALSE /\ rem = 0 /\ held = [s \in Streams |-> <<>>] /\ est = [s \in Streams |-> FALSE] /\ wire = 0 /\ consumed = 0 /\ part = 0 /\ readB = 0

PullHeader ==
    /\ i <= Len(sc.frames) /\ ~hdr
    /\ wire' = wire + (IF Cur.k = "data" THEN 4 ELSE 2)
    /\ IF Cur.k = "data" /\ Cur.len = 0
       THEN i' = i + 1 /\ hdr' = FALSE /\ rem' = 0            \* an empty DATA frame carries nothing
       ELSE i' = i /\ hdr' = TRUE /\ rem' = (IF Cur.k = "data" THEN Cur.len ELSE 0)
    /\ UNCHANGED <<sc, held, est, consumed, part, readB>>
Control ==
    /\ hdr /\ Cur.k # "data"
    /\ Count < sc.cnt                                           \* one COUNT permit
    /\ held' = [held EXCEPT ![Cur.s] = Append(@, [k |-> Cur.k, sz |-> 0])] /\ i' = i + 1 /\ hdr' = FALSE
    /\ UNCHANGED <<sc, rem, est, wire, consumed, part, readB>>
Chunk ==
    /\ hdr /\ Cur.k = "data" /\ rem > 0
    /\ LET size == Min2(rem, sc.fs) IN
       /\ Count < sc.cnt /\ Payload + size <= sc.buf             \* permits FIRST
       /\ held' = [held EXCEPT ![Cur.s] = Append(@, [k |-> "data", sz |-> size])] /\ wire' = wire + size      \* ... then the bytes are pulled
       /\ rem' = rem - size
       /\ IF rem - size = 0 THEN i' = i + 1 /\ hdr' = FALSE ELSE i' = i /\ hdr' = TRUE
    /\ UNCHANGED <<sc, est, consumed, part, readB>>
(* the stream's own task (reusable_stream.rs:166-170, recv_open) needs no help of the application while no transient stream is   *)
(* established: it DISCARDS whatever comes first - releasing its permits - until it finds an OPEN frame, which starts a transient  *)
(* stream; everything after that waits for the application                                                                        *)
TakeOpen == \E s \in Streams :
    /\ ~est[s] /\ held[s] # <<>>
    /\ held' = [held EXCEPT ![s] = Tail(@)] /\ est' = [est EXCEPT ![s] = (Head(held[s]).k = "open")]
    /\ UNCHANGED <<sc, i, hdr, rem, wire, consumed, part, readB>>
(* the application reads (or drops) the oldest frame; a CLOSE ends the transient stream *)
Consume == \E s \in Streams :
    /\ est[s] /\ held[s] # <<>> /\ held' = [held EXCEPT ![s] = Tail(@)] /\ consumed' = consumed + 1
    /\ est' = [est EXCEPT ![s] = (Head(held[s]).k # "close")]
    /\ part' = IF s = 0 THEN 0 ELSE part
    /\ readB' = IF s = 0 THEN readB + (Head(held[0]).sz - part) ELSE readB
    /\ UNCHANGED <<sc, i, hdr, rem, wire>>
(* a read that takes only PART of the oldest DATA frame (transient_stream.rs:24-62): the rest stays cached together with ALL the frame's permits *)
ReadPart(n) ==
    /\ est[0] /\ held[0] # <<>> /\ Head(held[0]).k = "data" /\ n > 0 /\ part + n < Head(held[0]).sz
    /\ part' = part + n /\ readB' = readB + n
    /\ UNCHANGED <<sc, i, hdr, rem, held, est, wire, consumed>>
Pull == PullHeader \/ Control \/ Chunk \/ TakeOpen
BNext == Pull \/ Consume \/ \E n \in 1..(sc.rd - readB) : ReadPart(n)

(* Safety *)
Bounded == Payload <= sc.buf /\ Count <= sc.cnt
(* progress of the reader side: while the application consumes, everything the peer sent is eventually pulled *)
Drained == i > Len(sc.frames)
=============================================================================

--------------------------- MODULE MC_GossipFetch ---------------------------
EXTENDS GossipFetch, TLC, Json
(* every scripted peer (announced range x answer script) is one test of the real node *)
Cases == {[ann |-> a, script |-> s] : a \in 0..(NBlocks - 1), s \in UNION {[1..k -> Answers] : k \in 0..NBlocks}}
ASSUME \A c \in Cases : PrintT(<<"CASE", ToJson(c)>>)
=============================================================================

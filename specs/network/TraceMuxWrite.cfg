INIT TInit
NEXT TNext
CONSTRAINT TConstraint
INVARIANTS NoHoleT
POSTCONDITION Accepted
CHECK_DEADLOCK FALSE

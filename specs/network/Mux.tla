--------------------------------- MODULE Mux ---------------------------------
(***************************************************************************)
(* The multiplexer's reusable-stream protocol (property C14):               *)
(*   mux/reusable_stream.rs:262-306 (loop: recv OPEN / send CLOSE, 3-way    *)
(*   OPEN handshake, hand the transient stream to the application),         *)
(*   mux/transient_stream.rs:24-62 (reader stops at CLOSE, frames of a      *)
(*   previous incarnation are discarded while seeking OPEN).                *)
(* ONE reusable stream id between the connect side "A" and the accept side  *)
(* "B" over a FIFO transport. Transient streams (incarnations) succeed one  *)
(* another on it. Every DATA frame carries, as ghost fields, the writer's   *)
(* incarnation number and a sequence number.                               *)
(* Isolation: what the k-th transient stream of a side reads is exactly a   *)
(* prefix of what the peer's k-th transient stream wrote, in order; EOS is  *)
(* seen only after the counterpart closed.                                  *)
(***************************************************************************)
EXTENDS Naturals, Sequences, FiniteSets

CONSTANTS MaxInc, MaxData
Sides == {"A", "B"}
Peer(s) == IF s = "A" THEN "B" ELSE "A"

VARIABLES
    chan,     \* [Sides -> Seq(frame)] frames sent by that side, not yet consumed by the peer (FIFO transport)
    lst,      \* [Sides -> "begin" | "closed" | "opensent"]   state of the reusable-stream loop
    whalf,    \* [Sides -> "loop" | "app"]   who holds the write half
    rhalf,    \* [Sides -> "seek" | "opened" | "app" | "released"]  read half: seeking OPEN / OPEN seen / with the application
    cur,      \* [Sides -> number of transient streams established so far on that side]
    wseq,     \* [Sides -> DATA frames written in the current incarnation]
    got,      \* [Sides -> Seq(<<inc, seq>>)] what the current incarnation's reader obtained
    eos,      \* [Sides -> BOOLEAN] the current incarnation's reader saw end-of-stream
    closedw,  \* [Sides -> set of incarnations whose write half was closed by its application]
    wrote     \* [Sides -> [incarnation -> number of DATA frames written]] (ghost)
vars == <<chan, lst, whalf, rhalf, cur, wseq, got, eos, closedw, wrote>>

Frame(k, inc, seq) == [k |-> k, inc |-> inc, seq |-> seq]
Send(s, f) == chan' = [chan EXCEPT ![s] = Append(@, f)]

Init ==
    /\ chan = [s \in Sides |-> <<>>] /\ lst = [s \in Sides |-> "begin"]
    /\ whalf = [s \in Sides |-> "loop"] /\ rhalf = [s \in Sides |-> "seek"]
    /\ cur = [s \in Sides |-> 0] /\ wseq = [s \in Sides |-> 0]
    /\ got = [s \in Sides |-> <<>>] /\ eos = [s \in Sides |-> FALSE]
    /\ closedw = [s \in Sides |-> {}] /\ wrote = [s \in Sides |-> [i \in 1..MaxInc |-> 0]]

(* loop: once the write half is back, send CLOSE for the finished incarnation (also at the very start) *)
LoopClose(s) ==
    /\ lst[s] = "begin" /\ whalf[s] = "loop" /\ cur[s] < MaxInc
    /\ Send(s, Frame("CLOSE", cur[s], 0))
    /\ lst' = [lst EXCEPT ![s] = "closed"]
    /\ UNCHANGED <<whalf, rhalf, cur, wseq, got, eos, closedw, wrote>>

(* read half, once released by the application: discard everything up to the peer's next OPEN *)
SeekOpen(s) ==
    /\ rhalf[s] = "seek" /\ chan[Peer(s)] # <<>>
    /\ chan' = [chan EXCEPT ![Peer(s)] = Tail(@)]
    /\ rhalf' = [rhalf EXCEPT ![s] = IF Head(chan[Peer(s)]).k = "OPEN" THEN "opened" ELSE "seek"]
    /\ UNCHANGED <<lst, whalf, cur, wseq, got, eos, closedw, wrote>>

Establish(s) ==
    /\ cur' = [cur EXCEPT ![s] = @ + 1] /\ wseq' = [wseq EXCEPT ![s] = 0]
    /\ got' = [got EXCEPT ![s] = <<>>] /\ eos' = [eos EXCEPT ![s] = FALSE]
    /\ whalf' = [whalf EXCEPT ![s] = "app"] /\ rhalf' = [rhalf EXCEPT ![s] = "app"]
    /\ lst' = [lst EXCEPT ![s] = "begin"]

(* connect side: the application asks for a stream -> OPEN; established when the peer's OPEN arrives *)
ConnectOpen ==
    /\ lst["A"] = "closed" /\ Send("A", Frame("OPEN", cur["A"] + 1, 0))
    /\ lst' = [lst EXCEPT !["A"] = "opensent"]
    /\ UNCHANGED <<whalf, rhalf, cur, wseq, got, eos, closedw, wrote>>
ConnectEstablished ==
    /\ lst["A"] = "opensent" /\ rhalf["A"] = "opened"
    /\ Establish("A") /\ UNCHANGED <<chan, closedw, wrote>>
(* accept side: after the peer's OPEN, when the application accepts -> OPEN, established *)
AcceptOpen ==
    /\ lst["B"] = "closed" /\ rhalf["B"] = "opened"
    /\ Send("B", Frame("OPEN", cur["B"] + 1, 0))
    /\ Establish("B") /\ UNCHANGED <<closedw, wrote>>

(* application *)
Write(s) ==
    /\ whalf[s] = "app" /\ wseq[s] < MaxData
    /\ Send(s, Frame("DATA", cur[s], wseq[s] + 1))
    /\ wseq' = [wseq EXCEPT ![s] = @ + 1]
    /\ wrote' = [wrote EXCEPT ![s][cur[s]] = @ + 1]
    /\ UNCHANGED <<lst, whalf, rhalf, cur, got, eos, closedw>>
CloseWrite(s) ==
    /\ whalf[s] = "app"
    /\ whalf' = [whalf EXCEPT ![s] = "loop"] /\ closedw' = [closedw EXCEPT ![s] = @ \cup {cur[s]}]
    /\ UNCHANGED <<chan, lst, rhalf, cur, wseq, got, eos, wrote>>
Read(s) ==
    /\ rhalf[s] = "app" /\ ~eos[s] /\ chan[Peer(s)] # <<>>
    /\ LET f == Head(chan[Peer(s)]) IN
       /\ chan' = [chan EXCEPT ![Peer(s)] = Tail(@)]
       /\ got' = [got EXCEPT ![s] = IF f.k = "DATA" THEN Append(@, <<f.inc, f.seq>>) ELSE @]
       /\ eos' = [eos EXCEPT ![s] = f.k = "CLOSE"]
    /\ UNCHANGED <<lst, whalf, rhalf, cur, wseq, closedw, wrote>>
ReleaseRead(s) ==
    /\ rhalf[s] = "app"
    /\ rhalf' = [rhalf EXCEPT ![s] = "seek"]
    /\ UNCHANGED <<chan, lst, whalf, cur, wseq, got, eos, closedw, wrote>>

Next == \/ \E s \in Sides : LoopClose(s) \/ SeekOpen(s) \/ Write(s) \/ CloseWrite(s) \/ Read(s) \/ ReleaseRead(s)
        \/ ConnectOpen \/ ConnectEstablished \/ AcceptOpen
Spec == Init /\ [][Next]_vars

(* Properties *)
Isolation ==
    \A s \in Sides : \A i \in 1..Len(got[s]) :
        /\ got[s][i][1] = cur[s]              \* only data of the counterpart incarnation
        /\ got[s][i][2] = i                   \* complete prefix, in order, no duplicates
EosLocal == \A s \in Sides : eos[s] => (cur[s] \in closedw[Peer(s)] /\ Len(got[s]) = wrote[Peer(s)][cur[s]])
(* both ends of one transient stream exist only in matching incarnations *)
Matched == cur["A"] <= cur["B"] /\ cur["B"] <= cur["A"] + 1
=============================================================================

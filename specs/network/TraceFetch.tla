------------------------------ MODULE TraceFetch ------------------------------
(* Trace validation (T1) of the real gossip::fetch::Queue against FetchQueue.tla. One event per spec action, logged  *)
(* at its linearisation point on a single-threaded runtime; `quiet` events carry what is observable at quiescence.   *)
EXTENDS FetchQueue, Json, IOUtils, TLC, Sequences
Rec == ndJsonDeserialize(IOEnv.TRACE)
TBlocks == 1..Rec[1].nblocks
TPeers == {Rec[1].peers[i] : i \in 1..Len(Rec[1].peers)}
ToSet(s) == {s[i] : i \in 1..Len(s)}

VARIABLES l, bad
tvars == <<vars, l, bad>>
Ev == Rec[l]
TInit == Init /\ l = 2 /\ bad = "none"

Flag(cond, what) == bad' = IF bad = "none" /\ ~cond THEN what ELSE bad

(* Each event must be an enabled step of the specification; a hand-out that the spec does not allow is the violation. *)
TNext ==
    /\ l <= Len(Rec)
    /\ l' = l + 1
    /\ \/ Ev.e = "request" /\ Request(Ev.n) /\ UNCHANGED bad
       \/ Ev.e = "cancel" /\ Cancel(Ev.n) /\ UNCHANGED bad
       \/ Ev.e = "announce" /\ Announce(Ev.p, ToSet(Ev.s)) /\ UNCHANGED bad
       \/ Ev.e = "start_accept" /\ StartAccept(Ev.p) /\ UNCHANGED bad
       \/ Ev.e = "stop_accept" /\ StopAccept(Ev.p) /\ UNCHANGED bad
       \/ /\ Ev.e = "hand"
          /\ IF ENABLED Hand(Ev.p, Ev.n) THEN Hand(Ev.p, Ev.n) /\ UNCHANGED bad
             ELSE /\ Flag(FALSE, IF Ev.n \notin announced[Ev.p] THEN "request handed to a peer that did not announce the block"
                                 ELSE IF Ev.n \notin requested THEN "request handed out twice or not pending"
                                 ELSE IF Ev.n # Min(requested) THEN "not the lowest missing block"
                                 ELSE "peer was not accepting")
                  \* follow the observation
                  /\ requested' = requested \ {Ev.n} /\ inflight' = [inflight EXCEPT ![Ev.p] = Ev.n] /\ idle' = idle \ {Ev.p}
                  /\ UNCHANGED <<live, announced, stale>>
       \/ Ev.e = "complete" /\ Complete(Ev.p) /\ UNCHANGED bad
       \/ Ev.e = "fail" /\ Fail(Ev.p) /\ UNCHANGED bad
       \/ /\ Ev.e = "quiet"
          /\ UNCHANGED vars
          /\ Flag(ToSet(Ev.pending) = requested /\ ToSet(Ev.returned_ok) \cap live = {} /\ Quiescent,
                  IF ToSet(Ev.pending) # requested THEN "pending requests differ from the specification (lost or duplicated request)"
                  ELSE IF ~Quiescent THEN "lost wake-up: an idle peer announces the lowest pending block but was not handed it"
                  ELSE "request returned although not completed")
TSpec == TInit /\ [][TNext]_tvars
NoBad == bad = "none"
Brief == [l |-> l, bad |-> bad]
AllConsumed == TLCGet("stats").diameter = Len(Rec)
Accepted == IF AllConsumed THEN TRUE ELSE PrintT(<<"TRACE-NOT-CONSUMED", TLCGet("stats").diameter, Len(Rec)>>) /\ FALSE
=============================================================================

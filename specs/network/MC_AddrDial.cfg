CONSTANTS Members = {"v1", "v2"} Outsiders = {"x"} MaxVer = 1 MaxTs = 0 MaxA = 2
SPECIFICATION DSpec
INVARIANTS HeldGenuine DialAuthentic FwdHeld
PROPERTIES HeldMonotone DialServed
CHECK_DEADLOCK FALSE

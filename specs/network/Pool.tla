-------------------------------- MODULE Pool --------------------------------
(* The connection pool (C12): pool.rs:46-75. One entry per key; keys outside `Allowed` are limited to `Limit`. *)
EXTENDS Naturals, Sequences, FiniteSets
CONSTANTS Keys, Allowed, Limit
VARIABLES current, hist
Extra == Cardinality(current \ Allowed)
InsertOK(k) == k \notin current /\ (k \in Allowed \/ Extra < Limit)
Insert(k) == /\ current' = IF InsertOK(k) THEN current \cup {k} ELSE current
             /\ hist' = Append(hist, [op |-> "insert", k |-> k, ok |-> InsertOK(k)])
Remove(k) == /\ current' = current \ {k}
             /\ hist' = Append(hist, [op |-> "remove", k |-> k, ok |-> TRUE])
Init == current = {} /\ hist = <<>>
OnePerKeyAndQuota == Extra <= Limit
=============================================================================

CONSTANTS FrameSize = 3 MaxBytes = 9 MaxCall = 4 Weaken = "none"
INIT Init
NEXT Next
INVARIANTS NoHole Complete
CHECK_DEADLOCK FALSE

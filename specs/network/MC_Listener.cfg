INIT Init
NEXT Next
INVARIANTS Up Done
PROPERTIES ClosedIsFinal
CHECK_DEADLOCK FALSE

---------------------------- MODULE MC_SessionId ----------------------------
EXTENDS SessionId, TLC, Json
(* one CASE per explored pair of sessions with an honest end: the harness plays the adversary's ends with a raw noise peer whose *)
(* ephemeral key is FIXED (reused) or fresh, the honest ends are the real noise::Stream, and compares the identifiers.            *)
Role(s) == IF s.ini = Adv THEN "adv_initiates" ELSE IF s.res = Adv THEN "adv_responds" ELSE "honest_both"
AdvE(s) == IF s.ini = Adv THEN s.ei.k ELSE IF s.res = Adv THEN s.er.k ELSE 0
Done == Len(sessions) = MaxSessions =>
    PrintT(<<"CASE", ToJson([roles |-> [i \in 1..Len(sessions) |-> Role(sessions[i])],
                             adv_eph |-> [i \in 1..Len(sessions) |-> AdvE(sessions[i])],
                             distinct |-> \A a, b \in 1..Len(sessions) : a # b => Sid(sessions[a]) # Sid(sessions[b])])>>)
(* sessions in which the adversary talks to itself are of no interest *)
Interesting == \A i \in 1..Len(sessions) : HasHonestEnd(sessions[i])
=============================================================================

CONSTANTS
  Honest = {"a", "b"}
  AdvEph = {1, 2}
  MaxSessions = 2
  Weaken = "none"
INIT Init
NEXT Next
CONSTRAINT Interesting
INVARIANTS SidUnique RelayRefused Done
CHECK_DEADLOCK FALSE

CONSTANTS Honest = {"a", "b"} Committee = {"a", "b"} Sessions = {1, 2, 3} Genesis = {"g", "h"}
INIT Init
NEXT Next

----------------------------- MODULE MC_ConnAdv -----------------------------
EXTENDS ConnAdv, TLC, Json
CONSTANTS MaxLen
NextB == Len(path) < MaxLen /\ Next
Done == (Len(path) = MaxLen \/ conn = "closed") /\ path # <<>> => PrintT(<<"CASE", ToJson([path |-> path, final |-> conn])>>)
=============================================================================

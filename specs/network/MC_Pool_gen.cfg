CONSTANTS Keys = {"a", "x", "y"} Allowed = {"a"} Limit = 1 MaxOps = 5
INIT Init
NEXT Next
INVARIANTS OnePerKeyAndQuota Done
CHECK_DEADLOCK FALSE

CONSTANTS Blocks = {1,2,3} Peers = {"a","b"}
SPECIFICATION Spec
INVARIANTS Pending OneAtATime OnlyWanted
PROPERTIES NoLostWakeup
CHECK_DEADLOCK FALSE

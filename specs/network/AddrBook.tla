------------------------------ MODULE AddrBook ------------------------------
(***************************************************************************)
(* The validator address book (property C18):                               *)
(*   gossip/validator_addrs.rs:44-74 (ValidatorAddrs::update),              *)
(*   :127-138 (all-or-nothing publication), discovery.rs:24-29 (is_newer).  *)
(* An announcement is [k: key, ver, ts, a: address id, forged: BOOLEAN];     *)
(* keys in Members are committee validators, other keys are outsiders.      *)
(***************************************************************************)
EXTENDS Naturals, Sequences, FiniteSets

CONSTANTS Members, Outsiders

None == [ver |-> 0, ts |-> 0, a |-> 0]          \* "no announcement" (a = 0 is never a real address id)
VARIABLE book                                    \* [Members -> announcement content or None]

Newer(x, y) == x.ver > y.ver \/ (x.ver = y.ver /\ x.ts > y.ts)     \* lexicographic (version, timestamp)
Content(e) == [ver |-> e.ver, ts |-> e.ts, a |-> e.a]

(* Sequential processing of a batch on a COPY of the book; result [ok, book]. The first invalid entry aborts. *)
RECURSIVE Process(_, _, _)
Process(b, batch, seen) ==
    IF batch = <<>> THEN [ok |-> TRUE, book |-> b]
    ELSE LET e == Head(batch) IN
         IF e.k \in seen THEN [ok |-> FALSE, book |-> b]                         \* duplicated key in one batch
         ELSE IF e.k \notin Members THEN Process(b, Tail(batch), seen \cup {e.k})   \* non-members are ignored
         ELSE IF b[e.k] # None /\ ~Newer(Content(e), b[e.k]) THEN Process(b, Tail(batch), seen \cup {e.k})   \* not newer: skipped
         ELSE IF e.forged THEN [ok |-> FALSE, book |-> b]                          \* signature checked before insertion
         ELSE Process([b EXCEPT ![e.k] = Content(e)], Tail(batch), seen \cup {e.k})

(* Published only if the whole batch was valid. *)
UpdateResult(b, batch) == LET r == Process(b, batch, {}) IN [ok |-> r.ok, book |-> IF r.ok THEN r.book ELSE b]

Init == book = [m \in Members |-> None]
Update(batch) == book' = UpdateResult(book, batch).book

(* Properties (checked by the MC wrapper over all batches of the bounded alphabet):                        *)
(* Monotone: an entry is only ever replaced by a strictly newer one.                                        *)
Monotone == [][\A m \in Members : book'[m] = book[m] \/ book[m] = None \/ Newer(book'[m], book[m])]_book
=============================================================================

CONSTANTS NBlocks = 3
SPECIFICATION Spec
INVARIANTS OnlyAnnounced Genuine
PROPERTIES AllFetched
CHECK_DEADLOCK FALSE

----------------------------- MODULE MC_Listener -----------------------------
EXTENDS Listener, TLC, Json
Done == conn = "closed" => PrintT(<<"CASE", ToJson([endpoint |-> endpoint, path |-> path, stage |-> Stages[stage]])>>)
=============================================================================

----------------------------- MODULE MC_Listener -----------------------------
EXTENDS Listener, TLC, Json
Done == conn = "closed" => PrintT(<<"CASE", ToJson([endpoint |-> endpoint, path |-> path, stage |-> IF path[Len(path)] \in RpcKinds THEN "rpc" ELSE IF Len(path) = Len(Stages) /\ path[Len(path)] \notin BadKinds THEN "rpcbody" ELSE Stages[stage]])>>)
=============================================================================

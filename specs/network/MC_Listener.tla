----------------------------- MODULE MC_Listener -----------------------------
EXTENDS Listener, TLC, Json
Done == conn = "closed" => PrintT(<<"CASE", ToJson([endpoint |-> endpoint, path |-> path, stage |-> IF path[Len(path)] \in RpcKinds THEN "rpc" ELSE Stages[stage]])>>)
=============================================================================

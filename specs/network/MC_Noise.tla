------------------------------ MODULE MC_Noise ------------------------------
EXTENDS NoiseStream, TLC, Json
Sizes == {1, MaxPayload - 1, MaxPayload, MaxPayload + 1, 2 * MaxPayload + 1}
OpSet == [op : {"w"}, n : Sizes] \cup {[op |-> "f", n |-> 0]}
Scenarios == UNION {[1..k -> OpSet] : k \in 1..3}
ASSUME \A ops \in Scenarios : FrameBound(ops) /\ NoTamperComplete(ops) /\ \A t \in TamperKinds, at \in 1..4 : PrefixDelivery(ops, t, at)
Swapped(ops, at) == at < Len(Frames(ops))
ASSUME \A ops \in Scenarios : \A t \in TamperKinds : \A at \in (IF t = "none" THEN {1} ELSE 1..Len(Frames(ops))) :
    PrintT(<<"CASE", ToJson([ops |-> ops, frames |-> Frames(ops), tamper |-> t, at |-> at, out |-> Outcome(ops, t, at)])>>)
VARIABLE x
Init == x = 0
Next == UNCHANGED x
=============================================================================

----------------------------- MODULE NoiseStream -----------------------------
(***************************************************************************)
(* The encrypted transport (property C13): network/src/noise/stream.rs.     *)
(* Plaintext is cut into frames of at most MaxPayload bytes: a frame is     *)
(* produced when the payload buffer is full and more data arrives, or on    *)
(* flush / shutdown (stream.rs:266-306). Each frame is sealed with an AEAD   *)
(* under a per-direction counter nonce, so the reader accepts frame i only  *)
(* as the i-th frame and only unmodified (stream.rs:208-230).               *)
(* A scenario is a sequence of writer operations [op: "w", n] / [op: "f"]   *)
(* followed by shutdown, and at most one tampering of the ciphertext.       *)
(***************************************************************************)
EXTENDS Naturals, Sequences, FiniteSets

CONSTANTS MaxPayload

Min(a, b) == IF a <= b THEN a ELSE b

(* payload sizes of the frames produced by `ops` followed by shutdown *)
RECURSIVE Seg(_, _, _)
Seg(ops, buf, frames) ==
    IF ops = <<>> THEN (IF buf > 0 THEN Append(frames, buf) ELSE frames)            \* shutdown flushes
    ELSE LET o == Head(ops) IN
         IF o.op = "f" THEN Seg(Tail(ops), 0, IF buf > 0 THEN Append(frames, buf) ELSE frames)
         ELSE IF o.n = 0 THEN Seg(Tail(ops), buf, frames)
         ELSE IF buf = MaxPayload THEN Seg(ops, 0, Append(frames, buf))              \* buffer full and more data arrives
         ELSE LET take == Min(o.n, MaxPayload - buf)
              IN Seg(<<[op |-> "w", n |-> o.n - take]>> \o Tail(ops), buf + take, frames)
Frames(ops) == Seg(ops, 0, <<>>)

RECURSIVE Sum(_)
Sum(s) == IF s = <<>> THEN 0 ELSE Head(s) + Sum(Tail(s))
Written(ops) == Sum([i \in 1..Len(ops) |-> IF ops[i].op = "w" THEN ops[i].n ELSE 0])
Prefix(s, k) == [i \in 1..k |-> s[i]]

(* Outcome at the reader: [delivered: number of plaintext bytes (always a PREFIX of what was written), end: "eof" | "error"] *)
TamperKinds == {"none", "flip", "truncate", "duplicate", "swap", "drop", "insert_zero", "insert_garbage"}
Outcome(ops, tamper, at) ==          \* `at`: 1-based index of the frame the tampering applies to
    LET f == Frames(ops) IN
    IF tamper = "none" \/ at > Len(f) \/ (tamper = "swap" /\ at = Len(f))      \* swapping the last frame with nothing: unchanged
    THEN [delivered |-> Sum(f), end |-> "eof"]
    ELSE CASE tamper \in {"flip", "truncate", "drop", "swap", "insert_zero", "insert_garbage"}
                -> [delivered |-> Sum(Prefix(f, at - 1)),
                    end |-> IF tamper = "truncate" THEN "eof"                       \* a cut inside a frame reads as end-of-stream
                            ELSE IF tamper = "drop" /\ at = Len(f) THEN "eof"     \* dropping the LAST frame is a clean truncation
                            ELSE "error"]
           [] tamper = "duplicate" -> [delivered |-> Sum(Prefix(f, at)), end |-> "error"]

(* Properties of the specification itself *)
FrameBound(ops) == \A i \in 1..Len(Frames(ops)) : Frames(ops)[i] >= 1 /\ Frames(ops)[i] <= MaxPayload
NoTamperComplete(ops) == Outcome(ops, "none", 1).delivered = Written(ops)
PrefixDelivery(ops, t, at) == Outcome(ops, t, at).delivered <= Written(ops)
=============================================================================

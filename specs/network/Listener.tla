------------------------------- MODULE Listener -------------------------------
(***************************************************************************)
(* A node's listener under adversarial input (property C10, connection      *)
(* establishment part: lib.rs:214-250, preface.rs:96-118, noise handshake,  *)
(* gossip / consensus handshake, rpc::Service / mux handshake).             *)
(* An inbound connection passes the stages                                  *)
(*   enc    : frame naming the encryption protocol (plain TCP)              *)
(*   noise  : noise NN handshake message                                    *)
(*   endp   : frame naming the endpoint (gossip / validator network)        *)
(*   ident  : identity handshake frame (signed session id, genesis)         *)
(*   muxhs  : multiplexer handshake frame                                   *)
(*   frames : multiplexer frames                                            *)
(* At every stage the peer sends a well-formed input (the connection        *)
(* advances) or one of the malformed classes; the specified reaction to     *)
(* anything malformed is that THIS connection ends. The node itself never   *)
(* goes down and keeps admitting honest peers: Up is an invariant, and      *)
(* every path is a test of the real listener (T2).                          *)
(***************************************************************************)
EXTENDS Naturals, Sequences
Stages == <<"enc", "noise", "endp", "ident", "muxhs", "frames">>
(* malformed classes: random bytes, a frame announcing 2^32-1 / 2^31-1 bytes, a frame cut short, an empty frame,    *)
(* a well-formed message of the WRONG kind for the stage, hanging up                                                *)
BadKinds == {"garbage", "oversize", "truncated", "empty", "wrongkind", "hangup"}
Endpoints == {"gossip", "consensus"}
VARIABLES stage, conn, up, path, endpoint
vars == <<stage, conn, up, path, endpoint>>
Init == stage = 1 /\ conn = "open" /\ up = TRUE /\ path = <<>> /\ endpoint \in Endpoints
Good == /\ conn = "open" /\ stage < Len(Stages)
        /\ stage' = stage + 1 /\ path' = Append(path, "ok") /\ UNCHANGED <<conn, up, endpoint>>
Bad(k) == /\ conn = "open"
          /\ conn' = "closed" /\ path' = Append(path, k) /\ UNCHANGED <<stage, up, endpoint>>
(* Past the connection establishment a gossip peer speaks RPC; its ANNOUNCEMENT of the blocks it stores is taken at face value       *)
(* (only first <= last is checked, runner.rs:69-81) and then consulted by the block fetcher: extreme ranges are inputs too.            *)
RpcKinds == {"announce_last_max_pregenesis", "announce_last_max_certified", "announce_first_max", "announce_inverted", "announce_far_future", "announce_then_answer_nothing"}
Rpc(k) == /\ conn = "open" /\ stage = Len(Stages) /\ endpoint = "gossip"
          /\ conn' = "closed" /\ path' = Append(path, k) /\ UNCHANGED <<stage, up, endpoint>>
(* ... and every RPC request of a gossip peer arrives as the body of a transient stream opened by the node's server for that RPC     *)
(* (rpc/mod.rs:191-243): the body is decoded under the per-RPC size limit (frame.rs:12-33). A malformed body ends that CALL.          *)
RpcServers == {"push_validator_addrs", "push_block_store_state", "get_block", "push_tx", "ping"}
BodyKinds == {"body_garbage", "body_oversize", "body_truncated", "body_empty", "body_wrong_message", "body_extreme"}
RpcBody(srv, k) == /\ conn = "open" /\ stage = Len(Stages) /\ endpoint = "gossip"
                   /\ conn' = "closed" /\ path' = Append(path, srv \o ":" \o k) /\ UNCHANGED <<stage, up, endpoint>>
Next == Good \/ (\E k \in BadKinds : Bad(k)) \/ (\E k \in RpcKinds : Rpc(k)) \/ (\E srv \in RpcServers, k \in BodyKinds : RpcBody(srv, k))
Up == up = TRUE
ClosedIsFinal == [][conn = "closed" => conn' = "closed"]_vars
=============================================================================

------------------------------ MODULE MC_Pool ------------------------------
EXTENDS Pool, TLC, Json
CONSTANTS MaxOps
Next == Len(hist) < MaxOps /\ \E k \in Keys : Insert(k) \/ Remove(k)
Done == Len(hist) = MaxOps => PrintT(<<"CASE", ToJson([ops |-> hist, final |-> current])>>)
=============================================================================

------------------------------ MODULE SessionId ------------------------------
(***************************************************************************)
(* Where the session identifier of C12 comes from (noise/stream.rs:128-160, *)
(* pattern NN:  -> e   <- e, ee).  Handshake.tla ASSUMES that every         *)
(* encrypted session has an identifier of its own and that a man in the     *)
(* middle terminates two sessions with two different identifiers; this      *)
(* module states what that assumption rests on and checks it.               *)
(*                                                                         *)
(* A session is a run of the two-message handshake between an initiator    *)
(* and a responder; each side contributes one ephemeral key. An honest end  *)
(* draws a FRESH ephemeral for every session (snow does); the adversary     *)
(* chooses its ephemerals freely and may reuse one in any number of         *)
(* sessions. The transcript after message k is the sequence of the first k  *)
(* ephemerals; the identifier both ends compute is the (collision-free)     *)
(* hash of the transcript AT THE END of the handshake, i.e. of both         *)
(* contributions.                                                           *)
(*   Weaken = "sid_after_first_message": the hash is taken after message 1  *)
(*   (only the initiator's contribution) - both ends still agree on it.     *)
(***************************************************************************)
EXTENDS Naturals, FiniteSets, Sequences

CONSTANTS Honest,      \* honest parties, e.g. {"a", "b"}
          AdvEph,      \* (numbers of the) ephemeral keys the adversary owns, e.g. {1, 2}
          MaxSessions, \* number of sessions explored
          Weaken

Adv == "m"
Parties == Honest \cup {Adv}

(* A session: who initiates, who responds, and the ephemeral each contributed. Honest ephemerals are named after the *)
(* session and role they were drawn for ([owner, k]), which is what "fresh" means.                                     *)
VARIABLES sessions     \* sequence of [ini, res, ei, er]
svars == <<sessions>>

FreshEph(p, n) == [owner |-> p, k |-> n]
EphOf(p, n, choice) == IF p \in Honest THEN FreshEph(p, n) ELSE [owner |-> Adv, k |-> choice]

Transcript(s) == IF Weaken = "sid_after_first_message" THEN <<s.ei>> ELSE <<s.ei, s.er>>
Sid(s) == Transcript(s)           \* the hash is injective on transcripts (assumption: collision-free)

Init == sessions = <<>>
Open(i, r, ci, cr) ==
    /\ Len(sessions) < MaxSessions
    /\ i # r \/ i = Adv
    /\ LET n == Len(sessions) + 1
       IN sessions' = Append(sessions, [ini |-> i, res |-> r, ei |-> EphOf(i, 10 * n + 1, ci), er |-> EphOf(r, 10 * n + 2, cr)])
Next == \E i, r \in Parties, ci, cr \in AdvEph : Open(i, r, ci, cr)
Spec == Init /\ [][Next]_svars

(***************************************************************************)
(* SidUnique: two different sessions that each have an honest end never     *)
(* share an identifier - whatever ephemerals the adversary reuses.          *)
(***************************************************************************)
HasHonestEnd(s) == s.ini \in Honest \/ s.res \in Honest
SidUnique == \A a, b \in 1..Len(sessions) :
    (a # b /\ HasHonestEnd(sessions[a]) /\ HasHonestEnd(sessions[b])) => Sid(sessions[a]) # Sid(sessions[b])

(***************************************************************************)
(* RelayRefused (composition with Handshake.tla!Accepts): the identity      *)
(* proof an honest party K made on a session with the adversary -           *)
(* [key |-> K, sid |-> Sid(that session), sig |-> K] - is accepted by       *)
(* another honest party on its own session with the adversary only if it    *)
(* signs THAT session's identifier. With SidUnique it never does.           *)
(***************************************************************************)
Proof(k, s) == [key |-> k, sid |-> Sid(s), sig |-> k]
HonestEndOf(s) == IF s.ini \in Honest THEN s.ini ELSE s.res
RelayRefused == \A a, b \in 1..Len(sessions) :
    LET sa == sessions[a]  sb == sessions[b]
    IN (a # b /\ HasHonestEnd(sa) /\ HasHonestEnd(sb) /\ Adv \in {sa.ini, sa.res} /\ Adv \in {sb.ini, sb.res})
          => Proof(HonestEndOf(sb), sb).sid # Sid(sa)
=============================================================================

---------------------------- MODULE TraceMuxWrite ----------------------------
(***************************************************************************)
(* Trace validation of the write half of a real transient stream against    *)
(* MuxWrite.tla. Unit = one CELL of the harness's pattern (a frame is       *)
(* FrameSize cells). Events, in order:                                      *)
(*   [e |-> "header", frame |-> cells per frame]                            *)
(*   [e |-> "w", i |-> record number, n |-> cells, ok |-> write_all result] *)
(*   [e |-> "close"]                                                        *)
(*   [e |-> "got", cells |-> <<<<i, off>>, ...>>]  what the peer's reader    *)
(*                          obtained until end-of-stream, decoded           *)
(* The channel hand-over and the writer task are not logged: TLC infers     *)
(* them (Copy / SendData / Drain are silent steps). A write that failed may *)
(* have contributed any prefix the specification allows; everything else    *)
(* must be there, once, in order.                                           *)
(***************************************************************************)
EXTENDS Naturals, Sequences, TLC, Json, IOUtils

Rec == ndJsonDeserialize(IOEnv.TRACE)
FrameSize == Rec[1].frame
MaxBytes == 1000000
MaxCall == 1000000
Weaken == "none"

VARIABLES buf, chq, wire, accepted, call, closed,
          l,      \* next event
          inw,    \* a "w" event has begun and not ended
          tag     \* ghost: tag[k] = <<record, offset>> of the k-th accepted cell
INSTANCE MuxWrite
tvars == <<buf, chq, wire, accepted, call, closed, l, inw, tag>>

TInit == Init /\ l = 2 /\ inw = FALSE /\ tag = <<>> /\ TLCSet(1, 2)
Ev == Rec[l]

TBegin == /\ l <= Len(Rec) /\ Ev.e = "w" /\ ~inw /\ Begin(Ev.n) /\ inw' = TRUE /\ UNCHANGED <<l, tag>>
TCopy == /\ inw /\ Copy
         /\ tag' = tag \o [j \in 1..(accepted' - accepted) |-> <<Ev.i, (Ev.n - call) + j - 1>>]
         /\ UNCHANGED <<l, inw>>
TSend == inw /\ SendData(FALSE) /\ UNCHANGED <<l, inw, tag>>
TDrain == Drain /\ UNCHANGED <<l, inw, tag>>
TEndOk == /\ inw /\ Ev.ok /\ call = 0 /\ l' = l + 1 /\ inw' = FALSE /\ UNCHANGED <<buf, chq, wire, accepted, call, closed, tag>>
TEndFail == /\ inw /\ ~Ev.ok /\ SendCancelled /\ l' = l + 1 /\ inw' = FALSE /\ UNCHANGED tag
TFlush == /\ l <= Len(Rec) /\ Ev.e = "close" /\ ~inw /\ call = 0 /\ ~closed /\ SendData(TRUE) /\ UNCHANGED <<l, inw, tag>>
TClose == /\ l <= Len(Rec) /\ Ev.e = "close" /\ ~inw /\ Close /\ l' = l + 1 /\ UNCHANGED <<inw, tag>>
(* the reader's view: everything on the wire once the stream is closed and drained *)
TGot == /\ l <= Len(Rec) /\ Ev.e = "got" /\ closed /\ chq = <<>>
        /\ [j \in 1..Len(wire) |-> tag[wire[j]]] = [j \in 1..Len(Ev.cells) |-> <<Ev.cells[j][1], Ev.cells[j][2]>>]
        /\ l' = l + 1 /\ UNCHANGED <<buf, chq, wire, accepted, call, closed, inw, tag>>

TNext == TBegin \/ TCopy \/ TSend \/ TDrain \/ TEndOk \/ TEndFail \/ TFlush \/ TClose \/ TGot
TSpec == TInit /\ [][TNext]_tvars

(* acceptance: some explanation consumes every event (silent steps: the highest l reached is kept in a TLC register) *)
Track == TLCSet(1, IF TLCGet(1) < l THEN l ELSE TLCGet(1))
TConstraint == Track
Accepted == IF TLCGet(1) = Len(Rec) + 1 THEN TRUE
            ELSE PrintT(<<"TRACE-NOT-EXPLAINED", "first event without an explanation", TLCGet(1), Rec[TLCGet(1)]>>) /\ FALSE
NoHoleT == NoHole
=============================================================================

------------------------------ MODULE MuxWrite ------------------------------
(***************************************************************************)
(* Write half of a transient sub-stream (property C14, "complete and in     *)
(* order" seen from the writer):                                            *)
(*   mux/transient_stream.rs:66-90  (write_all, flush),                     *)
(*   mux/reusable_stream.rs:192-227 (send_data, send_close),                *)
(*   the bounded channel (capacity 1) to the connection's writer task.      *)
(* The application's bytes are numbered 1, 2, 3, ... in the order in which  *)
(* write_all ACCEPTS them (copies them into the frame buffer). A write_all  *)
(* call copies until the buffer is full, then must hand the full buffer to  *)
(* the writer task (send_data), which waits for a slot in the channel -     *)
(* the only place where the call can be cancelled (deadline, scope end) -   *)
(* and continues. Per the API a failed write_all may have written a PREFIX  *)
(* of its data; nothing else may be lost, duplicated or reordered:          *)
(*   NoHole: wire \o channel \o buffer = 1..accepted at all times.          *)
(*   Weaken = "detach_before_reserve": send_data takes the buffer out of    *)
(*   the stream before waiting for the slot; a cancelled wait drops it.     *)
(***************************************************************************)
EXTENDS Naturals, Sequences

CONSTANTS FrameSize,    \* bytes per DATA frame (write_frame_size)
          MaxBytes,     \* bound on bytes accepted
          MaxCall,      \* largest write_all
          Weaken

VARIABLES buf,       \* bytes in the frame buffer
          chq,       \* frames in the channel to the writer task (capacity 1)
          wire,      \* bytes the writer task put on the transport, in order
          accepted,  \* number of bytes accepted so far
          call,      \* bytes the current write_all still has to copy (0 = no call in progress)
          closed
wvars == <<buf, chq, wire, accepted, call, closed>>

RECURSIVE Flat(_)
Flat(fs) == IF fs = <<>> THEN <<>> ELSE Head(fs) \o Flat(Tail(fs))
Iota(n) == [j \in 1..n |-> j]

Init == buf = <<>> /\ chq = <<>> /\ wire = <<>> /\ accepted = 0 /\ call = 0 /\ closed = FALSE

(* the application starts a write_all of n bytes *)
Begin(n) == /\ call = 0 /\ ~closed /\ accepted + n <= MaxBytes
            /\ call' = n /\ UNCHANGED <<buf, chq, wire, accepted, closed>>
(* write_all copies as much as fits *)
Copy == /\ call > 0 /\ Len(buf) < FrameSize
        /\ LET k == IF call < FrameSize - Len(buf) THEN call ELSE FrameSize - Len(buf)
           IN /\ buf' = buf \o [j \in 1..k |-> accepted + j]
              /\ accepted' = accepted + k /\ call' = call - k
        /\ UNCHANGED <<chq, wire, closed>>
(* send_data: a slot is available - the buffer becomes a frame *)
SendData(ending) ==
    /\ (call > 0 /\ Len(buf) = FrameSize) \/ ending
    /\ buf # <<>> /\ Len(chq) < 1
    /\ chq' = Append(chq, buf) /\ buf' = <<>>
    /\ UNCHANGED <<wire, accepted, call, closed>>
(* the wait for a slot is cancelled: the write_all fails; the stream stays usable *)
SendCancelled ==
    /\ call > 0 /\ Len(buf) = FrameSize          \* (a context that is already over fails the wait even if a slot is free)
    /\ call' = 0
    /\ buf' = IF Weaken = "detach_before_reserve" THEN <<>> ELSE buf
    /\ UNCHANGED <<chq, wire, accepted, closed>>
(* the connection's writer task *)
Drain == /\ chq # <<>> /\ wire' = wire \o Head(chq) /\ chq' = Tail(chq)
         /\ UNCHANGED <<buf, accepted, call, closed>>
(* dropping the write half: flush what is buffered, then CLOSE *)
Close == /\ call = 0 /\ ~closed /\ buf = <<>> /\ closed' = TRUE /\ UNCHANGED <<buf, chq, wire, accepted, call>>

Next == (\E n \in 1..MaxCall : Begin(n)) \/ Copy \/ SendData(FALSE) \/ (call = 0 /\ ~closed /\ SendData(TRUE)) \/ SendCancelled \/ Drain \/ Close
Spec == Init /\ [][Next]_wvars /\ WF_wvars(Drain) /\ WF_wvars(Copy) /\ WF_wvars(SendData(FALSE))

NoHole == wire \o Flat(chq) \o buf = Iota(accepted)
(* once closed and drained, the peer can read exactly what was accepted *)
Complete == (closed /\ chq = <<>>) => wire = Iota(accepted)
=============================================================================

----------------------------- MODULE MC_MuxBuffer -----------------------------
EXTENDS MuxBuffer, TLC, Json
D(n) == [k |-> "data", len |-> n, s |-> 0]
O == [k |-> "open", len |-> 0, s |-> 0]
C == [k |-> "close", len |-> 0, s |-> 0]
On(f, st) == [f EXCEPT !.s = st]          \* the same frame addressed to stream st
RECURSIVE Alternate(_, _)
Alternate(fr, st) == IF fr = <<>> THEN <<>> ELSE <<On(Head(fr), st)>> \o Alternate(Tail(fr), 1 - st)
Rep(f, n) == [j \in 1..n |-> f]
Scenarios == {
    [rd |-> 0, name |-> "size_bound",  fs |-> 100, buf |-> 1000, cnt |-> 64, frames |-> <<O>> \o Rep(D(300), 8)],
    [rd |-> 0, name |-> "size_uneven", fs |-> 100, buf |-> 1000, cnt |-> 64, frames |-> <<O, D(250), D(0), D(330), D(99), D(1), D(400), D(400)>>],
    [rd |-> 0, name |-> "count_bound", fs |-> 100, buf |-> 100000, cnt |-> 8, frames |-> <<O>> \o Rep(D(50), 20)],
    [rd |-> 0, name |-> "count_mixed", fs |-> 64, buf |-> 100000, cnt |-> 6, frames |-> <<O, D(200), C, O, D(10), D(10), D(10), D(10)>>],
    [rd |-> 0, name |-> "exact_fit",   fs |-> 128, buf |-> 512, cnt |-> 64, frames |-> <<O, D(512), D(1), D(128)>>],
    [rd |-> 0, name |-> "one_big",     fs |-> 1000, buf |-> 4096, cnt |-> 8, frames |-> <<O>> \o Rep(D(60000), 2)],
    \* two streams share the semaphores: the bound is the connection's, whichever stream the data is addressed to
    [rd |-> 0, name |-> "two_streams_size",  fs |-> 100, buf |-> 1000, cnt |-> 64, frames |-> <<O, On(O, 1)>> \o Alternate(Rep(D(300), 8), 0)],
    [rd |-> 0, name |-> "two_streams_count", fs |-> 100, buf |-> 100000, cnt |-> 8, frames |-> <<O, On(O, 1)>> \o Alternate(Rep(D(50), 20), 1)],
    [rd |-> 0, name |-> "second_stream_after_full", fs |-> 128, buf |-> 512, cnt |-> 64, frames |-> <<O, D(512), On(O, 1), On(D(64), 1)>>],
    \* the application reads a few bytes of the first frame(s) and stalls: a partly read frame keeps its permits - nothing more is pulled than the bytes fully read free
    [rd |-> 1,   name |-> "partial_read_one_byte",   fs |-> 100, buf |-> 400, cnt |-> 64, frames |-> <<O>> \o Rep(D(100), 10)],
    [rd |-> 99,  name |-> "partial_read_almost_all", fs |-> 100, buf |-> 400, cnt |-> 64, frames |-> <<O>> \o Rep(D(100), 10)],
    [rd |-> 150, name |-> "read_one_and_a_half",     fs |-> 100, buf |-> 400, cnt |-> 64, frames |-> <<O>> \o Rep(D(100), 10)],
    [rd |-> 0, name |-> "unopened_stream",   fs |-> 100, buf |-> 1000, cnt |-> 64, frames |-> <<O, D(400), On(D(400), 1), On(D(400), 1), D(100)>>] }
MCInit == InitWith(Scenarios)
MCSpec == MCInit /\ [][BNext]_bvars /\ WF_bvars(Pull) /\ WF_bvars(Consume)
AllPulled == <>Drained
(* the state a flooding peer drives a non-reading application into: nothing more can be pulled and nothing was consumed *)
Blocked == ~ENABLED Pull /\ readB = sc.rd /\ consumed = sc.rd \div sc.fs       \* (the scenarios that read use frames of fs bytes)
Report == Blocked => PrintT(<<"CASE", ToJson([rd |-> sc.rd, name |-> sc.name, fs |-> sc.fs, buf |-> sc.buf, cnt |-> sc.cnt, frames |-> sc.frames,
                                              wire |-> wire, payload |-> Payload, chunks |-> Count])>>)
=============================================================================

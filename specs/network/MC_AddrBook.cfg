CONSTANTS Members = {"v1", "v2"} Outsiders = {"x"} MaxVer = 1 MaxTs = 1 MaxA = 1
INIT Init
NEXT Next
PROPERTIES Monotone
CHECK_DEADLOCK FALSE

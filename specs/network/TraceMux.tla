------------------------------- MODULE TraceMux -------------------------------
(* Evaluation (T1) of the API-level statements of C14 on the per-stream records of a run of two real multiplexers:      *)
(*   Pairing/Isolation : every transient stream opened on the connect side is read, complete and intact, by exactly one  *)
(*                       accept-side stream of the SAME capability, and its response comes back intact;                    *)
(*   OpenBound         : streams open at once per capability never exceed min(limit of A, limit of B).                     *)
EXTENDS Naturals, Sequences, FiniteSets, Json, IOUtils, TLC
Rec == ndJsonDeserialize(IOEnv.TRACE)
Hd == Rec[1]
Conn == SelectSeq(Rec, LAMBDA e : e.e = "connected")
Acc == SelectSeq(Rec, LAMBDA e : e.e = "accepted")
OpenMax == SelectSeq(Rec, LAMBDA e : e.e = "open_max")
Min(a, b) == IF a <= b THEN a ELSE b
CapIdx(c) == CHOOSE i \in 1..Len(Hd.caps) : Hd.caps[i] = c
Bound(c) == Min(Hd.limit_a[CapIdx(c)], Hd.limit_b[CapIdx(c)])
PairingOK ==
    /\ \A i \in 1..Len(Conn) :
          /\ Cardinality({j \in 1..Len(Acc) : Acc[j].from_uid = Conn[i].uid}) = 1
          /\ \A j \in 1..Len(Acc) : Acc[j].from_uid = Conn[i].uid =>
                /\ Acc[j].cap = Conn[i].cap /\ Acc[j].intact
                /\ (IF Acc[j].partial THEN Acc[j].bytes <= Conn[i].bytes /\ Conn[i].response_empty      \* abandoned by the acceptor: nothing comes back
                    ELSE Acc[j].bytes = Conn[i].bytes /\ Conn[i].response_intact)
    /\ \A j \in 1..Len(Acc) : Acc[j].intact /\ \E i \in 1..Len(Conn) : Conn[i].uid = Acc[j].from_uid
OpenBoundOK ==
    Len(OpenMax) = 1 /\ \A i \in 1..Len(Hd.caps) :
        LET c == Hd.caps[i] IN
        /\ OpenMax[1].max[ToString(c) \o "_connect"] <= Bound(c)
        /\ OpenMax[1].max[ToString(c) \o "_accept"] <= Bound(c)
Verdict == IF ~PairingOK THEN "transient streams are not isolated / complete (pairing of connect- and accept-side records fails)"
           ELSE IF ~OpenBoundOK THEN "more transient streams open at once than min of the announced limits"
           ELSE "ok"
ASSUME PrintT(<<"VERDICT", Verdict, Len(Conn), Len(Acc)>>)
VARIABLE x
Init == x = 0
Next == UNCHANGED x
=============================================================================

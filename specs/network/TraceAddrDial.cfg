CONSTANTS Members <- TMembers Outsiders <- TOutsiders
INIT TInit
NEXT TNext
INVARIANTS NoBad HeldGenuine DialAuthentic FwdHeld
ALIAS Brief
POSTCONDITION Accepted
CHECK_DEADLOCK FALSE

---------------------------- MODULE MC_Handshake ----------------------------
EXTENDS Handshake, TLC, Json
ASSUME Auth
(* T2 table: every message class against every endpoint kind, with the specification's verdict. The endpoint under test is "a": a message may *)
(* also CLAIM the endpoint's own identity (a validator keeps a loopback connection to itself, so this path exists) - signed by "a" or not. *)
Kinds == {"gossip_in", "gossip_out", "val_in", "val_out"}
ASSUME \A kind \in Kinds : \A m \in [key : {"a", "b", "m", "o"}, sid : {1, 2}, genesis : Genesis, sig : {"a", "b", "m", "o"}] :
    PrintT(<<"CASE", ToJson([kind |-> kind, m |-> m, session |-> 1, genesis |-> "g", dialled |-> "b",
                             accept |-> Accepts(kind, 1, "g", "b", m), attributed |-> Attributed(m)])>>)
VARIABLE x
Init == x = 0
Next == UNCHANGED x
=============================================================================

CONSTANTS MaxInc = 2 MaxData = 2
SPECIFICATION Spec
INVARIANTS Isolation EosLocal Matched
CHECK_DEADLOCK FALSE

------------------------------- MODULE ConnAdv -------------------------------
(***************************************************************************)
(* Adversarial peers at the multiplexer level (property C10, protocol       *)
(* part): after a correct mux handshake the peer sends an arbitrary         *)
(* sequence of frame headers (mux/mod.rs:213-276, header.rs).               *)
(* A symbol is a header class [kind, side, id, len]; the specified reaction *)
(* is "continue" (the frame is dispatched, buffered under permits or        *)
(* discarded by the stream protocol) or "close" (protocol error: the        *)
(* connection task returns). It is NEVER a crash, and a closed connection   *)
(* stays closed.                                                            *)
(*   kind : "OPEN" | "DATA" | "CLOSE" | "BAD"   (BAD = both kind bits set)  *)
(*   side : "ACCEPT" | "CONNECT"                 (which end the frame claims *)
(*                                                to come from)              *)
(*   id   : "in" (a stream id agreed in the handshake) | "out" (first id     *)
(*          beyond) | "max" (8191)                                           *)
(*   len  : for DATA: 0, 1, frame size, frame size + 1, 65535; "cut" = the   *)
(*          transport ends inside the frame                                  *)
(***************************************************************************)
EXTENDS Naturals, Sequences, FiniteSets

Kinds == {"OPEN", "DATA", "CLOSE", "BAD"}
SidesS == {"ACCEPT", "CONNECT"}
Ids == {"in", "out", "max"}
Lens == {"0", "1", "frame", "frame+1", "65535", "cut"}
Symbols == [kind : Kinds \ {"DATA"}, side : SidesS, id : Ids, len : {"-"}] \cup [kind : {"DATA"}, side : SidesS, id : Ids, len : Lens]

(* the stream id is looked up BEFORE the kind is examined (mod.rs:243-246) *)
Reaction(s) ==
    IF s.id # "in" THEN "close"
    ELSE IF s.kind = "BAD" THEN "close"
    ELSE IF s.kind = "DATA" /\ s.len = "cut" THEN "close"
    ELSE "continue"

VARIABLES conn, path
Init == conn = "open" /\ path = <<>>
Send(s) == /\ conn = "open"
           /\ conn' = IF Reaction(s) = "close" THEN "closed" ELSE "open"
           /\ path' = Append(path, s)
Next == \E s \in Symbols : Send(s)
ClosedIsFinal == [][conn = "closed" => conn' = "closed"]_<<conn, path>>
=============================================================================

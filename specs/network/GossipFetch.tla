----------------------------- MODULE GossipFetch -----------------------------
(***************************************************************************)
(* Block fetching at node level (C08, last mechanism: gossip/runner.rs:     *)
(* 194-224; C19 end to end: gossip/mod.rs:124-158, fetch.rs).               *)
(* A node that misses the blocks First..Last is connected to a scripted     *)
(* peer that ANNOUNCES a range and answers every get_block(n) with one of   *)
(*   "right"  : the genuine block n                                         *)
(*   "other"  : a genuine block with ANOTHER number                         *)
(*   "forged" : block n with a payload that does not match its certificate  *)
(*   "none"   : an empty response                                           *)
(*   "silent" : no response at all, the connection stays open - the node's  *)
(*              per-call timeout (get_block_timeout) must end the wait      *)
(* Only a "right" answer may change the node's store; any other answer ends *)
(* that connection (the request goes back to the queue). Later an honest    *)
(* peer that has everything connects. The node                              *)
(*   - stores only genuine blocks, each under its own number   (Genuine)    *)
(*   - asks a peer only for numbers inside the range it announced           *)
(*                                                         (OnlyAnnounced)  *)
(*   - ends up with every block once the honest peer is there  (AllFetched) *)
(***************************************************************************)
EXTENDS Naturals, Sequences, FiniteSets
CONSTANTS NBlocks                       \* blocks 0..NBlocks-1 are missing
Answers == {"right", "other", "forged", "none", "silent"}
VARIABLES have,        \* set of numbers stored by the node (always genuine content in this spec)
          evil,        \* "up" | "gone"
          ann,         \* highest number the scripted peer announced (it announces 0..ann)
          script,      \* answers the scripted peer will still give, in order
          asked,       \* numbers requested from the scripted peer
          honest       \* BOOLEAN: the honest peer is connected
vars == <<have, evil, ann, script, asked, honest>>
Next0 == CHOOSE n \in 0..NBlocks : n \notin have /\ \A m \in 0..NBlocks : m < n => m \in have
Init == /\ have = {} /\ evil = "up" /\ honest = FALSE /\ asked = {}
        /\ ann \in 0..(NBlocks - 1)
        /\ script \in UNION {[1..k -> Answers] : k \in 0..NBlocks}
AskEvil(n) ==
    /\ evil = "up" /\ n \notin have /\ n \notin asked /\ n <= ann /\ script # <<>>
    /\ asked' = asked \cup {n}
    /\ LET a == Head(script) IN
       /\ script' = Tail(script)
       /\ IF a = "right" THEN have' = have \cup {n} /\ UNCHANGED evil
          ELSE evil' = "gone" /\ UNCHANGED have
    /\ UNCHANGED <<ann, honest>>
EvilLeaves == evil = "up" /\ evil' = "gone" /\ UNCHANGED <<have, ann, script, asked, honest>>
HonestArrives == ~honest /\ evil = "gone" /\ honest' = TRUE /\ UNCHANGED <<have, evil, ann, script, asked>>
AskHonest(n) == honest /\ n \in 0..(NBlocks - 1) /\ n \notin have /\ have' = have \cup {n} /\ UNCHANGED <<evil, ann, script, asked, honest>>
Next == (\E n \in 0..(NBlocks - 1) : AskEvil(n) \/ AskHonest(n)) \/ EvilLeaves \/ HonestArrives
Spec == Init /\ [][Next]_vars /\ WF_vars(Next)
OnlyAnnounced == \A n \in asked : n <= ann
Genuine == have \subseteq 0..(NBlocks - 1)
AllFetched == <>(have = 0..(NBlocks - 1))
=============================================================================

------------------------------- MODULE Leader -------------------------------
(***************************************************************************)
(* Leader election (property C11). Mirrors                                 *)
(* node/libs/roles/src/validator/messages/schedule.rs:147-170, 236-245.    *)
(* A schedule is a sequence of validators IN KEY ORDER (the code sorts by  *)
(* public key, schedule.rs:30-63), each [w |-> weight, l |-> eligible].    *)
(* The hash of the turn is abstracted by its residue e modulo the total    *)
(* leader weight (uniformity of keccak is an assumption, not modelled).    *)
(***************************************************************************)
EXTENDS Naturals, Sequences, FiniteSets

Eligible(s) == SelectSeq([i \in 1..Len(s) |-> i], LAMBDA i : s[i].l)   \* indices, ascending

RECURSIVE SumW(_, _)
SumW(s, idx) == IF idx = <<>> THEN 0 ELSE s[Head(idx)].w + SumW(s, Tail(idx))
LeaderWeight(s) == SumW(s, Eligible(s))

(* "The number of views between leader changes. If it is 0 then the leader never rotates." *)
Turn(view, freq) == IF freq = 0 THEN 0 ELSE view \div freq

RoundRobin(s, turn) == LET el == Eligible(s) IN el[(turn % Len(el)) + 1]

(* Walk over eligible validators in key order accumulating weight: the first whose cumulative  *)
(* weight exceeds the residue e (0 <= e < LeaderWeight).                                        *)
RECURSIVE Walk(_, _, _, _)
Walk(s, idx, e, acc) ==
    LET i == Head(idx) IN
    IF e < acc + s[i].w THEN i ELSE Walk(s, Tail(idx), e, acc + s[i].w)
WeightedWalk(s, e) == Walk(s, Eligible(s), e, 0)

(* Properties of the specification itself (checked by TLC over the bounded space) *)
ValidSchedule(s) == Len(s) >= 1 /\ (\A i \in 1..Len(s) : s[i].w >= 1) /\ Eligible(s) # <<>>

RRTotalEligible(s, view, freq) ==
    LET i == RoundRobin(s, Turn(view, freq)) IN i \in 1..Len(s) /\ s[i].l

RRRotation(s, view, freq) ==   \* changes every freq views, cycles through eligible validators in order
    LET el == Eligible(s) k == Len(el) IN
    /\ freq = 0 => RoundRobin(s, Turn(view, freq)) = el[1]
    /\ freq > 0 => /\ RoundRobin(s, Turn(view, freq)) = el[((view \div freq) % k) + 1]
                   /\ RoundRobin(s, Turn(view + freq, freq)) = el[(((view \div freq) + 1) % k) + 1]

WTotalEligible(s, e) == LET i == WeightedWalk(s, e) IN i \in 1..Len(s) /\ s[i].l

(* exact proportionality over residues: validator i is chosen for exactly w_i residues *)
WShare(s) == \A i \in 1..Len(s) :
    Cardinality({e \in 0..(LeaderWeight(s) - 1) : WeightedWalk(s, e) = i}) = IF s[i].l THEN s[i].w ELSE 0
=============================================================================

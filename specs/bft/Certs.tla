------------------------------- MODULE Certs -------------------------------
(***************************************************************************)
(* Explicit certificates and their validity (property C04). Mirrors         *)
(*   CommitQC::verify / add      (replica_commit.rs:95-173)                 *)
(*   TimeoutQC::verify / add     (replica_timeout.rs:154-256)               *)
(*   ReplicaTimeout::verify      (replica_timeout.rs:27-50)                 *)
(*   FinalBlock::verify          (block.rs:73-89)                           *)
(* A signature is abstracted to "the aggregate is exactly the aggregate of  *)
(* the listed signers' signatures over the stated votes" (sig = TRUE);      *)
(* unforgeability of individual signatures is an assumption of the model.   *)
(* `g` abstracts the binding of a view to this chain: genesis hash and      *)
(* epoch both match (View::verify, consensus.rs:139-160).                   *)
(*                                                                         *)
(*   Vote   = [view, num, pay]                (Replica.tla)                 *)
(*   CQC    = [vote, g, signers, len, sig]    signers: set of positions,    *)
(*            len: bitmap length, sig: aggregate genuine                    *)
(*   TMsg   = [view, g, hv, hvg, hq]          hq: CQC or NoCQC              *)
(*   TQC    = [view, g, groups, sig]          groups: Seq of [msg, signers, len] *)
(***************************************************************************)
EXTENDS Replica

NoCQC == [vote |-> NoVote, g |-> TRUE, signers |-> {}, len |-> 0, sig |-> TRUE]

CommitQCValid(c) ==
    /\ c.g                                   \* vote's view belongs to this genesis and epoch
    /\ c.len = N                             \* bitmap length = committee size
    /\ c.signers \subseteq Validators
    /\ WeightOf(c.signers) >= QuorumW
    /\ c.sig

TimeoutMsgValid(m) ==
    /\ m.g
    /\ (m.hv # NoVote => m.hvg)
    /\ (m.hq # NoCQC => CommitQCValid(m.hq))

GroupSigners(t) == UNION {t.groups[i].signers : i \in 1..Len(t.groups)}
TimeoutQCValid(t) ==
    /\ t.g
    /\ \A i \in 1..Len(t.groups) :
          LET gr == t.groups[i] IN
          /\ gr.msg.view = t.view /\ gr.msg.g = t.g        \* same View struct
          /\ gr.len = N
          /\ gr.signers # {} /\ gr.signers \subseteq Validators
          /\ \A k \in 1..(i-1) : t.groups[k].signers \cap gr.signers = {}
          /\ TimeoutMsgValid(gr.msg)
    /\ WeightOf(GroupSigners(t)) >= QuorumW
    /\ t.sig

(* Derived content used by the replica logic. *)
ReportsOfTQC(t) ==
    UNION {{[s |-> s, view |-> t.view, hv |-> t.groups[i].msg.hv, hq |-> t.groups[i].msg.hq.vote] :
               s \in t.groups[i].signers} : i \in 1..Len(t.groups)}
DerivedTQ(t) == DeriveTQ(t.view, ReportsOfTQC(t))

(* Explicit justification: [k, cq: CQC, tq: TQC] *)
NoTQC == [view |-> -1, g |-> TRUE, groups |-> <<>>, sig |-> TRUE]
XJustValid(x) == IF x.k = "c" THEN CommitQCValid(x.cq) ELSE TimeoutQCValid(x.tq)
XJustDerived(x) == IF x.k = "c" THEN CJ(x.cq.vote) ELSE TJ(DerivedTQ(x.tq))

(***************************************************************************)
(* Incremental assembly. A signed vote is [from, vote, g, sigok];           *)
(* CommitQC::add refuses a non-member, a repeated signer, a bad signature,  *)
(* a different vote and a vote for another chain, and otherwise adds the    *)
(* signer (replica_commit.rs:95-134). TimeoutQC::add likewise, keyed by the *)
(* signer over ALL groups (replica_timeout.rs:154-197).                     *)
(***************************************************************************)
CommitAddOK(c, m) ==
    /\ m.from \in Validators
    /\ m.from \notin c.signers
    /\ m.sigok
    /\ m.vote = c.vote /\ m.g = c.g
    /\ m.g
CommitAdd(c, m) == IF CommitAddOK(c, m) THEN [c EXCEPT !.signers = c.signers \cup {m.from}] ELSE c

TimeoutAddOK(t, m) ==        \* m = [from, msg: TMsg, sigok]
    /\ m.from \in Validators
    /\ m.from \notin GroupSigners(t)
    /\ m.sigok
    /\ m.msg.view = t.view /\ m.msg.g = t.g
    /\ TimeoutMsgValid(m.msg)

(* a refused vote leaves the certificate untouched; an accepted one joins the group of its (identical) message or opens a new one *)
TimeoutAdd(t, m) ==
    IF ~TimeoutAddOK(t, m) THEN t
    ELSE LET idx == {i \in 1..Len(t.groups) : t.groups[i].msg = m.msg}
         IN IF idx = {} THEN [t EXCEPT !.groups = Append(@, [msg |-> m.msg, signers |-> {m.from}, len |-> N])]
            ELSE LET i == CHOOSE i \in idx : TRUE IN [t EXCEPT !.groups[i].signers = @ \cup {m.from}]

(* Block = payload + certificate; pay is the NAME of the payload whose hash the header carries. *)
BlockValid(b) == b.payhash = b.qc.vote.pay /\ CommitQCValid(b.qc)
=============================================================================

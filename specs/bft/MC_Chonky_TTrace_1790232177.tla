---- MODULE MC_Chonky_TTrace_1790232177 ----
EXTENDS Sequences, TLCExt, Toolbox, Naturals, TLC, MC_Chonky

_expression ==
    LET MC_Chonky_TEExpression == INSTANCE MC_Chonky_TEExpression
    IN MC_Chonky_TEExpression!expression
----

_trace ==
    LET MC_Chonky_TETrace == INSTANCE MC_Chonky_TETrace
    IN MC_Chonky_TETrace!trace
----

_inv ==
    ~(
        TLCGet("level") = Len(_TETrace)
        /\
        dur = ((1 :> [view |-> 1, hv |-> [view |-> 1, pay |-> "q", num |-> 0], phase |-> "commit", htq |-> [view |-> 0, hq |-> [view |-> -1, pay |-> "none", num |-> -1], hvh |-> [pay |-> "none", num |-> -1]], hcq |-> [view |-> -1, pay |-> "none", num |-> -1], props |-> {[pay |-> "p", num |-> 0], [pay |-> "q", num |-> 0]}] @@ 3 :> [view |-> 1, hv |-> [view |-> -1, pay |-> "none", num |-> -1], phase |-> "prepare", htq |-> [view |-> 0, hq |-> [view |-> -1, pay |-> "none", num |-> -1], hvh |-> [pay |-> "none", num |-> -1]], hcq |-> [view |-> -1, pay |-> "none", num |-> -1], props |-> {}] @@ 4 :> [view |-> 1, hv |-> [view |-> -1, pay |-> "none", num |-> -1], phase |-> "prepare", htq |-> [view |-> 0, hq |-> [view |-> -1, pay |-> "none", num |-> -1], hvh |-> [pay |-> "none", num |-> -1]], hcq |-> [view |-> -1, pay |-> "none", num |-> -1], props |-> {}]))
        /\
        rs = ((1 :> [view |-> 1, hv |-> [view |-> 1, pay |-> "q", num |-> 0], phase |-> "commit", htq |-> [view |-> 0, hq |-> [view |-> -1, pay |-> "none", num |-> -1], hvh |-> [pay |-> "none", num |-> -1]], hcq |-> [view |-> -1, pay |-> "none", num |-> -1], cq |-> {}, tq |-> {}, props |-> {[pay |-> "p", num |-> 0], [pay |-> "q", num |-> 0]}, cv |-> <<-1, -1, -1, -1>>, tv |-> <<-1, -1, -1, -1>>] @@ 3 :> [view |-> 1, hv |-> [view |-> -1, pay |-> "none", num |-> -1], phase |-> "prepare", htq |-> [view |-> 0, hq |-> [view |-> -1, pay |-> "none", num |-> -1], hvh |-> [pay |-> "none", num |-> -1]], hcq |-> [view |-> -1, pay |-> "none", num |-> -1], cq |-> {}, tq |-> {}, props |-> {}, cv |-> <<-1, -1, -1, -1>>, tv |-> <<-1, -1, -1, -1>>] @@ 4 :> [view |-> 1, hv |-> [view |-> -1, pay |-> "none", num |-> -1], phase |-> "prepare", htq |-> [view |-> 0, hq |-> [view |-> -1, pay |-> "none", num |-> -1], hvh |-> [pay |-> "none", num |-> -1]], hcq |-> [view |-> -1, pay |-> "none", num |-> -1], cq |-> {}, tq |-> {}, props |-> {}, cv |-> <<-1, -1, -1, -1>>, tv |-> <<-1, -1, -1, -1>>]))
        /\
        ncrash = (0)
        /\
        watch = ((1 :> [k |-> "n", cq |-> [view |-> -1, pay |-> "none", num |-> -1], tq |-> [view |-> -1, hq |-> [view |-> -1, pay |-> "none", num |-> -1], hvh |-> [pay |-> "none", num |-> -1]]] @@ 3 :> [k |-> "n", cq |-> [view |-> -1, pay |-> "none", num |-> -1], tq |-> [view |-> -1, hq |-> [view |-> -1, pay |-> "none", num |-> -1], hvh |-> [pay |-> "none", num |-> -1]]] @@ 4 :> [k |-> "n", cq |-> [view |-> -1, pay |-> "none", num |-> -1], tq |-> [view |-> -1, hq |-> [view |-> -1, pay |-> "none", num |-> -1], hvh |-> [pay |-> "none", num |-> -1]]]))
        /\
        dbv = (TRUE)
        /\
        store = ((1 :> <<>> @@ 3 :> <<>> @@ 4 :> <<>>))
        /\
        net = ({[vote |-> [view |-> 1, pay |-> "p", num |-> 0], t |-> "commit", from |-> 1, valid |-> TRUE], [vote |-> [view |-> 1, pay |-> "q", num |-> 0], t |-> "commit", from |-> 1, valid |-> TRUE], [view |-> 0, t |-> "timeout", from |-> 1, hv |-> [view |-> -1, pay |-> "none", num |-> -1], hq |-> [view |-> -1, pay |-> "none", num |-> -1], valid |-> TRUE], [view |-> 0, t |-> "timeout", from |-> 3, hv |-> [view |-> -1, pay |-> "none", num |-> -1], hq |-> [view |-> -1, pay |-> "none", num |-> -1], valid |-> TRUE], [view |-> 0, t |-> "timeout", from |-> 4, hv |-> [view |-> -1, pay |-> "none", num |-> -1], hq |-> [view |-> -1, pay |-> "none", num |-> -1], valid |-> TRUE]})
        /\
        lastAct = ([r |-> 1, m |-> [p |-> "q", t |-> "proposal", from |-> 2, j |-> [k |-> "t", cq |-> [view |-> -1, pay |-> "none", num |-> -1], tq |-> [view |-> 0, hq |-> [view |-> -1, pay |-> "none", num |-> -1], hvh |-> [pay |-> "none", num |-> -1]]], valid |-> TRUE], crash |-> -1, a |-> "proposal"])
    )
----

_init ==
    /\ lastAct = _TETrace[1].lastAct
    /\ dbv = _TETrace[1].dbv
    /\ store = _TETrace[1].store
    /\ net = _TETrace[1].net
    /\ rs = _TETrace[1].rs
    /\ dur = _TETrace[1].dur
    /\ ncrash = _TETrace[1].ncrash
    /\ watch = _TETrace[1].watch
----

_next ==
    /\ \E i,j \in DOMAIN _TETrace:
        /\ \/ /\ j = i + 1
              /\ i = TLCGet("level")
        /\ lastAct  = _TETrace[i].lastAct
        /\ lastAct' = _TETrace[j].lastAct
        /\ dbv  = _TETrace[i].dbv
        /\ dbv' = _TETrace[j].dbv
        /\ store  = _TETrace[i].store
        /\ store' = _TETrace[j].store
        /\ net  = _TETrace[i].net
        /\ net' = _TETrace[j].net
        /\ rs  = _TETrace[i].rs
        /\ rs' = _TETrace[j].rs
        /\ dur  = _TETrace[i].dur
        /\ dur' = _TETrace[j].dur
        /\ ncrash  = _TETrace[i].ncrash
        /\ ncrash' = _TETrace[j].ncrash
        /\ watch  = _TETrace[i].watch
        /\ watch' = _TETrace[j].watch

\* Uncomment the ASSUME below to write the states of the error trace
\* to the given file in Json format. Note that you can pass any tuple
\* to `JsonSerialize`. For example, a sub-sequence of _TETrace.
    \* ASSUME
    \*     LET J == INSTANCE Json
    \*         IN J!JsonSerialize("MC_Chonky_TTrace_1790232177.json", _TETrace)

=============================================================================

 Note that you can extract this module `MC_Chonky_TEExpression`
  to a dedicated file to reuse `expression` (the module in the 
  dedicated `MC_Chonky_TEExpression.tla` file takes precedence 
  over the module `MC_Chonky_TEExpression` below).

---- MODULE MC_Chonky_TEExpression ----
EXTENDS Sequences, TLCExt, Toolbox, Naturals, TLC, MC_Chonky

expression == 
    [
        \* To hide variables of the `MC_Chonky` spec from the error trace,
        \* remove the variables below.  The trace will be written in the order
        \* of the fields of this record.
        lastAct |-> lastAct
        ,dbv |-> dbv
        ,store |-> store
        ,net |-> net
        ,rs |-> rs
        ,dur |-> dur
        ,ncrash |-> ncrash
        ,watch |-> watch
        
        \* Put additional constant-, state-, and action-level expressions here:
        \* ,_stateNumber |-> _TEPosition
        \* ,_lastActUnchanged |-> lastAct = lastAct'
        
        \* Format the `lastAct` variable as Json value.
        \* ,_lastActJson |->
        \*     LET J == INSTANCE Json
        \*     IN J!ToJson(lastAct)
        
        \* Lastly, you may build expressions over arbitrary sets of states by
        \* leveraging the _TETrace operator.  For example, this is how to
        \* count the number of times a spec variable changed up to the current
        \* state in the trace.
        \* ,_lastActModCount |->
        \*     LET F[s \in DOMAIN _TETrace] ==
        \*         IF s = 1 THEN 0
        \*         ELSE IF _TETrace[s].lastAct # _TETrace[s-1].lastAct
        \*             THEN 1 + F[s-1] ELSE F[s-1]
        \*     IN F[_TEPosition - 1]
    ]

=============================================================================



Parsing and semantic processing can take forever if the trace below is long.
 In this case, it is advised to uncomment the module below to deserialize the
 trace from a generated binary file.

\*
\*---- MODULE MC_Chonky_TETrace ----
\*EXTENDS IOUtils, TLC, MC_Chonky
\*
\*trace == IODeserialize("MC_Chonky_TTrace_1790232177.bin", TRUE)
\*
\*=============================================================================
\*

---- MODULE MC_Chonky_TETrace ----
EXTENDS TLC, MC_Chonky

trace == 
    <<
    ([dur |-> (1 :> [view |-> 1, hv |-> [view |-> -1, pay |-> "none", num |-> -1], phase |-> "prepare", htq |-> [view |-> 0, hq |-> [view |-> -1, pay |-> "none", num |-> -1], hvh |-> [pay |-> "none", num |-> -1]], hcq |-> [view |-> -1, pay |-> "none", num |-> -1], props |-> {}] @@ 3 :> [view |-> 1, hv |-> [view |-> -1, pay |-> "none", num |-> -1], phase |-> "prepare", htq |-> [view |-> 0, hq |-> [view |-> -1, pay |-> "none", num |-> -1], hvh |-> [pay |-> "none", num |-> -1]], hcq |-> [view |-> -1, pay |-> "none", num |-> -1], props |-> {}] @@ 4 :> [view |-> 1, hv |-> [view |-> -1, pay |-> "none", num |-> -1], phase |-> "prepare", htq |-> [view |-> 0, hq |-> [view |-> -1, pay |-> "none", num |-> -1], hvh |-> [pay |-> "none", num |-> -1]], hcq |-> [view |-> -1, pay |-> "none", num |-> -1], props |-> {}]),rs |-> (1 :> [view |-> 1, hv |-> [view |-> -1, pay |-> "none", num |-> -1], phase |-> "prepare", htq |-> [view |-> 0, hq |-> [view |-> -1, pay |-> "none", num |-> -1], hvh |-> [pay |-> "none", num |-> -1]], hcq |-> [view |-> -1, pay |-> "none", num |-> -1], cq |-> {}, tq |-> {}, props |-> {}, cv |-> <<-1, -1, -1, -1>>, tv |-> <<-1, -1, -1, -1>>] @@ 3 :> [view |-> 1, hv |-> [view |-> -1, pay |-> "none", num |-> -1], phase |-> "prepare", htq |-> [view |-> 0, hq |-> [view |-> -1, pay |-> "none", num |-> -1], hvh |-> [pay |-> "none", num |-> -1]], hcq |-> [view |-> -1, pay |-> "none", num |-> -1], cq |-> {}, tq |-> {}, props |-> {}, cv |-> <<-1, -1, -1, -1>>, tv |-> <<-1, -1, -1, -1>>] @@ 4 :> [view |-> 1, hv |-> [view |-> -1, pay |-> "none", num |-> -1], phase |-> "prepare", htq |-> [view |-> 0, hq |-> [view |-> -1, pay |-> "none", num |-> -1], hvh |-> [pay |-> "none", num |-> -1]], hcq |-> [view |-> -1, pay |-> "none", num |-> -1], cq |-> {}, tq |-> {}, props |-> {}, cv |-> <<-1, -1, -1, -1>>, tv |-> <<-1, -1, -1, -1>>]),ncrash |-> 0,watch |-> (1 :> [k |-> "n", cq |-> [view |-> -1, pay |-> "none", num |-> -1], tq |-> [view |-> -1, hq |-> [view |-> -1, pay |-> "none", num |-> -1], hvh |-> [pay |-> "none", num |-> -1]]] @@ 3 :> [k |-> "n", cq |-> [view |-> -1, pay |-> "none", num |-> -1], tq |-> [view |-> -1, hq |-> [view |-> -1, pay |-> "none", num |-> -1], hvh |-> [pay |-> "none", num |-> -1]]] @@ 4 :> [k |-> "n", cq |-> [view |-> -1, pay |-> "none", num |-> -1], tq |-> [view |-> -1, hq |-> [view |-> -1, pay |-> "none", num |-> -1], hvh |-> [pay |-> "none", num |-> -1]]]),dbv |-> TRUE,store |-> (1 :> <<>> @@ 3 :> <<>> @@ 4 :> <<>>),net |-> {[view |-> 0, t |-> "timeout", from |-> 1, hv |-> [view |-> -1, pay |-> "none", num |-> -1], hq |-> [view |-> -1, pay |-> "none", num |-> -1], valid |-> TRUE], [view |-> 0, t |-> "timeout", from |-> 3, hv |-> [view |-> -1, pay |-> "none", num |-> -1], hq |-> [view |-> -1, pay |-> "none", num |-> -1], valid |-> TRUE], [view |-> 0, t |-> "timeout", from |-> 4, hv |-> [view |-> -1, pay |-> "none", num |-> -1], hq |-> [view |-> -1, pay |-> "none", num |-> -1], valid |-> TRUE]},lastAct |-> [r |-> 0, m |-> [t |-> "none"], crash |-> -1, a |-> "init"]]),
    ([dur |-> (1 :> [view |-> 1, hv |-> [view |-> 1, pay |-> "p", num |-> 0], phase |-> "commit", htq |-> [view |-> 0, hq |-> [view |-> -1, pay |-> "none", num |-> -1], hvh |-> [pay |-> "none", num |-> -1]], hcq |-> [view |-> -1, pay |-> "none", num |-> -1], props |-> {[pay |-> "p", num |-> 0]}] @@ 3 :> [view |-> 1, hv |-> [view |-> -1, pay |-> "none", num |-> -1], phase |-> "prepare", htq |-> [view |-> 0, hq |-> [view |-> -1, pay |-> "none", num |-> -1], hvh |-> [pay |-> "none", num |-> -1]], hcq |-> [view |-> -1, pay |-> "none", num |-> -1], props |-> {}] @@ 4 :> [view |-> 1, hv |-> [view |-> -1, pay |-> "none", num |-> -1], phase |-> "prepare", htq |-> [view |-> 0, hq |-> [view |-> -1, pay |-> "none", num |-> -1], hvh |-> [pay |-> "none", num |-> -1]], hcq |-> [view |-> -1, pay |-> "none", num |-> -1], props |-> {}]),rs |-> (1 :> [view |-> 1, hv |-> [view |-> 1, pay |-> "p", num |-> 0], phase |-> "commit", htq |-> [view |-> 0, hq |-> [view |-> -1, pay |-> "none", num |-> -1], hvh |-> [pay |-> "none", num |-> -1]], hcq |-> [view |-> -1, pay |-> "none", num |-> -1], cq |-> {}, tq |-> {}, props |-> {[pay |-> "p", num |-> 0]}, cv |-> <<-1, -1, -1, -1>>, tv |-> <<-1, -1, -1, -1>>] @@ 3 :> [view |-> 1, hv |-> [view |-> -1, pay |-> "none", num |-> -1], phase |-> "prepare", htq |-> [view |-> 0, hq |-> [view |-> -1, pay |-> "none", num |-> -1], hvh |-> [pay |-> "none", num |-> -1]], hcq |-> [view |-> -1, pay |-> "none", num |-> -1], cq |-> {}, tq |-> {}, props |-> {}, cv |-> <<-1, -1, -1, -1>>, tv |-> <<-1, -1, -1, -1>>] @@ 4 :> [view |-> 1, hv |-> [view |-> -1, pay |-> "none", num |-> -1], phase |-> "prepare", htq |-> [view |-> 0, hq |-> [view |-> -1, pay |-> "none", num |-> -1], hvh |-> [pay |-> "none", num |-> -1]], hcq |-> [view |-> -1, pay |-> "none", num |-> -1], cq |-> {}, tq |-> {}, props |-> {}, cv |-> <<-1, -1, -1, -1>>, tv |-> <<-1, -1, -1, -1>>]),ncrash |-> 0,watch |-> (1 :> [k |-> "n", cq |-> [view |-> -1, pay |-> "none", num |-> -1], tq |-> [view |-> -1, hq |-> [view |-> -1, pay |-> "none", num |-> -1], hvh |-> [pay |-> "none", num |-> -1]]] @@ 3 :> [k |-> "n", cq |-> [view |-> -1, pay |-> "none", num |-> -1], tq |-> [view |-> -1, hq |-> [view |-> -1, pay |-> "none", num |-> -1], hvh |-> [pay |-> "none", num |-> -1]]] @@ 4 :> [k |-> "n", cq |-> [view |-> -1, pay |-> "none", num |-> -1], tq |-> [view |-> -1, hq |-> [view |-> -1, pay |-> "none", num |-> -1], hvh |-> [pay |-> "none", num |-> -1]]]),dbv |-> TRUE,store |-> (1 :> <<>> @@ 3 :> <<>> @@ 4 :> <<>>),net |-> {[vote |-> [view |-> 1, pay |-> "p", num |-> 0], t |-> "commit", from |-> 1, valid |-> TRUE], [view |-> 0, t |-> "timeout", from |-> 1, hv |-> [view |-> -1, pay |-> "none", num |-> -1], hq |-> [view |-> -1, pay |-> "none", num |-> -1], valid |-> TRUE], [view |-> 0, t |-> "timeout", from |-> 3, hv |-> [view |-> -1, pay |-> "none", num |-> -1], hq |-> [view |-> -1, pay |-> "none", num |-> -1], valid |-> TRUE], [view |-> 0, t |-> "timeout", from |-> 4, hv |-> [view |-> -1, pay |-> "none", num |-> -1], hq |-> [view |-> -1, pay |-> "none", num |-> -1], valid |-> TRUE]},lastAct |-> [r |-> 1, m |-> [p |-> "p", t |-> "proposal", from |-> 2, j |-> [k |-> "t", cq |-> [view |-> -1, pay |-> "none", num |-> -1], tq |-> [view |-> 0, hq |-> [view |-> -1, pay |-> "none", num |-> -1], hvh |-> [pay |-> "none", num |-> -1]]], valid |-> TRUE], crash |-> -1, a |-> "proposal"]]),
    ([dur |-> (1 :> [view |-> 1, hv |-> [view |-> 1, pay |-> "q", num |-> 0], phase |-> "commit", htq |-> [view |-> 0, hq |-> [view |-> -1, pay |-> "none", num |-> -1], hvh |-> [pay |-> "none", num |-> -1]], hcq |-> [view |-> -1, pay |-> "none", num |-> -1], props |-> {[pay |-> "p", num |-> 0], [pay |-> "q", num |-> 0]}] @@ 3 :> [view |-> 1, hv |-> [view |-> -1, pay |-> "none", num |-> -1], phase |-> "prepare", htq |-> [view |-> 0, hq |-> [view |-> -1, pay |-> "none", num |-> -1], hvh |-> [pay |-> "none", num |-> -1]], hcq |-> [view |-> -1, pay |-> "none", num |-> -1], props |-> {}] @@ 4 :> [view |-> 1, hv |-> [view |-> -1, pay |-> "none", num |-> -1], phase |-> "prepare", htq |-> [view |-> 0, hq |-> [view |-> -1, pay |-> "none", num |-> -1], hvh |-> [pay |-> "none", num |-> -1]], hcq |-> [view |-> -1, pay |-> "none", num |-> -1], props |-> {}]),rs |-> (1 :> [view |-> 1, hv |-> [view |-> 1, pay |-> "q", num |-> 0], phase |-> "commit", htq |-> [view |-> 0, hq |-> [view |-> -1, pay |-> "none", num |-> -1], hvh |-> [pay |-> "none", num |-> -1]], hcq |-> [view |-> -1, pay |-> "none", num |-> -1], cq |-> {}, tq |-> {}, props |-> {[pay |-> "p", num |-> 0], [pay |-> "q", num |-> 0]}, cv |-> <<-1, -1, -1, -1>>, tv |-> <<-1, -1, -1, -1>>] @@ 3 :> [view |-> 1, hv |-> [view |-> -1, pay |-> "none", num |-> -1], phase |-> "prepare", htq |-> [view |-> 0, hq |-> [view |-> -1, pay |-> "none", num |-> -1], hvh |-> [pay |-> "none", num |-> -1]], hcq |-> [view |-> -1, pay |-> "none", num |-> -1], cq |-> {}, tq |-> {}, props |-> {}, cv |-> <<-1, -1, -1, -1>>, tv |-> <<-1, -1, -1, -1>>] @@ 4 :> [view |-> 1, hv |-> [view |-> -1, pay |-> "none", num |-> -1], phase |-> "prepare", htq |-> [view |-> 0, hq |-> [view |-> -1, pay |-> "none", num |-> -1], hvh |-> [pay |-> "none", num |-> -1]], hcq |-> [view |-> -1, pay |-> "none", num |-> -1], cq |-> {}, tq |-> {}, props |-> {}, cv |-> <<-1, -1, -1, -1>>, tv |-> <<-1, -1, -1, -1>>]),ncrash |-> 0,watch |-> (1 :> [k |-> "n", cq |-> [view |-> -1, pay |-> "none", num |-> -1], tq |-> [view |-> -1, hq |-> [view |-> -1, pay |-> "none", num |-> -1], hvh |-> [pay |-> "none", num |-> -1]]] @@ 3 :> [k |-> "n", cq |-> [view |-> -1, pay |-> "none", num |-> -1], tq |-> [view |-> -1, hq |-> [view |-> -1, pay |-> "none", num |-> -1], hvh |-> [pay |-> "none", num |-> -1]]] @@ 4 :> [k |-> "n", cq |-> [view |-> -1, pay |-> "none", num |-> -1], tq |-> [view |-> -1, hq |-> [view |-> -1, pay |-> "none", num |-> -1], hvh |-> [pay |-> "none", num |-> -1]]]),dbv |-> TRUE,store |-> (1 :> <<>> @@ 3 :> <<>> @@ 4 :> <<>>),net |-> {[vote |-> [view |-> 1, pay |-> "p", num |-> 0], t |-> "commit", from |-> 1, valid |-> TRUE], [vote |-> [view |-> 1, pay |-> "q", num |-> 0], t |-> "commit", from |-> 1, valid |-> TRUE], [view |-> 0, t |-> "timeout", from |-> 1, hv |-> [view |-> -1, pay |-> "none", num |-> -1], hq |-> [view |-> -1, pay |-> "none", num |-> -1], valid |-> TRUE], [view |-> 0, t |-> "timeout", from |-> 3, hv |-> [view |-> -1, pay |-> "none", num |-> -1], hq |-> [view |-> -1, pay |-> "none", num |-> -1], valid |-> TRUE], [view |-> 0, t |-> "timeout", from |-> 4, hv |-> [view |-> -1, pay |-> "none", num |-> -1], hq |-> [view |-> -1, pay |-> "none", num |-> -1], valid |-> TRUE]},lastAct |-> [r |-> 1, m |-> [p |-> "q", t |-> "proposal", from |-> 2, j |-> [k |-> "t", cq |-> [view |-> -1, pay |-> "none", num |-> -1], tq |-> [view |-> 0, hq |-> [view |-> -1, pay |-> "none", num |-> -1], hvh |-> [pay |-> "none", num |-> -1]]], valid |-> TRUE], crash |-> -1, a |-> "proposal"]])
    >>
----


=============================================================================

---- CONFIG MC_Chonky_TTrace_1790232177 ----
CONSTANTS
    Validators = { 1 , 2 , 3 , 4 }
    Weight <- W3111
    Correct = { 1 , 3 , 4 }
    Faulty = { 2 }
    Payloads = { "p" , "q" }
    BadPayloads = { }
    Weaken = "no_phase_gate"
    MaxView = 2
    ViewCap = 2
    HonestPayloads <- Alternating
    EnableLeaderNV = FALSE
    MaxCrash = 0
    MaxBlocks = 2

INVARIANT
    _inv

CHECK_DEADLOCK
    \* CHECK_DEADLOCK off because of PROPERTY or INVARIANT above.
    FALSE

INIT
    _init

NEXT
    _next

CONSTANT
    _TETrace <- _trace

ALIAS
    _expression
=============================================================================
\* Generated on Thu Sep 24 06:42:59 UTC 2026
CONSTANTS Validators = {1,2,3,4} Weight <- W3111 BadPayloads = {} Weaken = "none" Nn = 1 Vv = 2 Mode = "table"
INIT Init
NEXT Next

CONSTANTS
  Validators = {1,2,3,4}
  Weight <- W3111
  Correct = {1,2,3}
  Faulty = {4}
  Payloads = {"p"}
  BadPayloads = {}
  Weaken = "none"
  MaxView = 4
  ViewCap = 5
  HonestPayloads <- AnyPayload
  EnableLeaderNV = FALSE
  Target = 1
SPECIFICATION SpecG
CONSTRAINT Bound
INVARIANTS BoundedProgress
PROPERTIES Progress
CHECK_DEADLOCK FALSE

CONSTANTS
  Validators <- TValidators
  Weight <- TWeight
  BadPayloads <- TBad
  Weaken = "none"
INIT TInit
NEXT TNext
INVARIANTS NoBadC16
ALIAS Brief
POSTCONDITION Accepted
CHECK_DEADLOCK FALSE

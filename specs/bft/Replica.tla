------------------------------- MODULE Replica -------------------------------
(***************************************************************************)
(* The ChonkyBFT replica as a set of pure handler operators, one per        *)
(* critical section of node/components/bft/src/v2_chonky_bft/*.rs, with the *)
(* implementation's refinements of spec/informal-spec/replica.rs modelled   *)
(* as such (DESIGN §0, §5.1). Shared by:                                    *)
(*   ChonkyBFT.tla   - system model (N replicas, network, Byzantine, crash) *)
(*   ReplicaIO.tla   - one replica against a maximally permissive input     *)
(*   TraceChonky.tla - trace validation of the real StateMachine            *)
(*                                                                         *)
(* Certificates are kept in DERIVED form (what the replica logic looks at): *)
(*   commit certificate  = the certified vote [view, num, pay]              *)
(*   timeout certificate = [view, hvh (high-vote header or NoHdr),          *)
(*                          hq (vote of the highest nested commit cert)]    *)
(* The explicit form (signer sets, signatures) lives in Certs.tla and       *)
(* Justification.tla, where validity and the derivation are decided.        *)
(* All "absent" values are records of the same shape as present ones, so    *)
(* TLC can compare them (NoVote, NoHdr, NoTQ, NoJust).                      *)
(***************************************************************************)
EXTENDS Integers, Sequences, FiniteSets, Quorum

CONSTANTS
    Validators,     \* 1..N : position of the validator in key order (= schedule index + 1)
    Weight,         \* [Validators -> Nat \ {0}]
    BadPayloads,    \* payloads the application refuses (verify_payload fails / oversized)
    Weaken          \* "none" for the faithful spec; otherwise the name of one switched-off mechanism (T4)

N == Cardinality(Validators)

RECURSIVE WeightOf(_)
WeightOf(S) == IF S = {} THEN 0 ELSE LET x == CHOOSE y \in S : TRUE IN Weight[x] + WeightOf(S \ {x})

TotalW     == WeightOf(Validators)
MaxFaultyW == FaultyOf(TotalW)
QuorumW    == IF Weaken = "quorum_minus_1" THEN QuorumOf(TotalW) - 1 ELSE QuorumOf(TotalW)
SubQuorumW == IF Weaken = "subquorum_minus_1" THEN SubQuorumOf(TotalW) - 1 ELSE SubQuorumOf(TotalW)

(* Round-robin over all validators in key order, frequency 1 (schedule.rs:147-156; Leader.tla). *)
Leader(v) == (v % N) + 1

FirstBlock == 0

NoVote == [view |-> -1, num |-> -1, pay |-> "none"]
NoHdr  == [num |-> -1, pay |-> "none"]
NoTQ   == [view |-> -1, hvh |-> NoHdr, hq |-> NoVote]
NoJust == [k |-> "n", cq |-> NoVote, tq |-> NoTQ]

Hdr(v) == [num |-> v.num, pay |-> v.pay]
CJ(q) == [k |-> "c", cq |-> q, tq |-> NoTQ]
TJ(t) == [k |-> "t", cq |-> NoVote, tq |-> t]

(* ProposalJustification::view — the view FOLLOWING the certificate (leader_proposal.rs:85-91). *)
JView(j) == (IF j.k = "c" THEN j.cq.view ELSE j.tq.view) + 1

(* ProposalJustification::get_implied_block (leader_proposal.rs:112-162). pay = "none": new block. *)
Implied(j) ==
    IF j.k = "c" THEN [num |-> j.cq.num + 1, pay |-> "none"]
    ELSE LET h == j.tq.hvh
             q == j.tq.hq
             above == IF Weaken = "repropose_when_geq" THEN h.num >= q.num ELSE h.num > q.num
         IN IF Weaken # "no_reproposal_rule_proposer" /\ h # NoHdr /\ (q = NoVote \/ above)
            THEN h
            ELSE [num |-> IF q = NoVote THEN FirstBlock ELSE q.num + 1, pay |-> "none"]

(***************************************************************************)
(* Messages (abstract form). `valid` abstracts every check that rejects    *)
(* without touching state: signature, genesis/epoch binding, certificate   *)
(* validity (decided by Certs.tla on the explicit form).                   *)
(***************************************************************************)
ProposalMsg(from, j, p)     == [t |-> "proposal", from |-> from, j |-> j, p |-> p, valid |-> TRUE]
CommitMsg(from, vote)       == [t |-> "commit", from |-> from, vote |-> vote, valid |-> TRUE]
TimeoutMsg(from, vw, hv, hq) == [t |-> "timeout", from |-> from, view |-> vw, hv |-> hv, hq |-> hq, valid |-> TRUE]
NewViewMsg(from, j)         == [t |-> "newview", from |-> from, j |-> j, valid |-> TRUE]

(***************************************************************************)
(* Replica state (mod.rs:28-72):                                           *)
(*   view, phase, hv (high_vote), hcq (high_commit_qc), htq               *)
(*   props : block_proposal_cache as a set of [num, pay]                   *)
(*   cv, tv: latest view each validator signed a commit / timeout for (-1) *)
(*   cq    : partial commit certificates  {[vote, signers]}               *)
(*   tq    : partial timeout certificates {[s, view, hv, hq]} (one report  *)
(*           per signer and view)                                          *)
(***************************************************************************)
NoViews == [v \in Validators |-> -1]
InitRS == [view |-> 0, phase |-> "prepare", hv |-> NoVote, hcq |-> NoVote, htq |-> NoTQ, props |-> {},
           cv |-> NoViews, cq |-> {}, tv |-> NoViews, tq |-> {}]

(* What backup_state writes (block.rs:52-79) and StateMachine::start restores (mod.rs:87-147). *)
Dur(rs) == [view |-> rs.view, phase |-> rs.phase, hv |-> rs.hv, hcq |-> rs.hcq, htq |-> rs.htq, props |-> rs.props]
InitDur == Dur(InitRS)
Restart(d) ==
    [view |-> d.view,
     phase |-> IF Weaken = "restart_forgets_phase" THEN "prepare" ELSE d.phase,
     hv |-> IF Weaken = "restart_forgets_high_vote" THEN NoVote ELSE d.hv,
     hcq |-> d.hcq, htq |-> d.htq, props |-> d.props,
     cv |-> NoViews, cq |-> {}, tv |-> NoViews, tq |-> {}]

(* Handler result. persist: backup_state was called (always before `out` is sent).          *)
(* watch: value written to the proposer watch, NoJust if untouched. timer: deadline re-armed. *)
(* prs = the state that is written durably when `persist` (the final state of the step, unless a weakening says otherwise) *)
Res(ok, rs, store, persist, out, watch, timer) ==
    [ok |-> ok, rs |-> rs, store |-> store, persist |-> persist, out |-> out, watch |-> watch, timer |-> timer, prs |-> rs]
Reject(rs, store) == Res(FALSE, rs, store, FALSE, <<>>, NoJust, FALSE)

(***************************************************************************)
(* save_block (block.rs:10-49): build the block iff the payload is cached; *)
(* queue_block appends it only when it is exactly the next one; the        *)
(* handler WAITS (does not return) while predecessors are missing.         *)
(***************************************************************************)
HasPayload(props, qc) == [num |-> qc.num, pay |-> qc.pay] \in props
SaveBlock(props, store, qc) ==
    IF HasPayload(props, qc) /\ Len(store) = qc.num - FirstBlock THEN Append(store, qc.pay) ELSE store

(* process_commit_qc (mod.rs:364-390): adopt iff strictly newer. *)
Newer(cur, qc) == IF Weaken = "accept_older_qc" THEN TRUE ELSE cur = NoVote \/ cur.view < qc.view
ProcCQC(rs, store, qc) ==
    IF qc # NoVote /\ Newer(rs.hcq, qc)
    THEN [rs |-> [rs EXCEPT !.hcq = qc], store |-> SaveBlock(rs.props, store, qc)]
    ELSE [rs |-> rs, store |-> store]

(* process_timeout_qc (mod.rs:393-414). *)
ProcTQC(rs, store, t) ==
    LET a == ProcCQC(rs, store, t.hq)
    IN IF Weaken = "tqc_same_view_skips_cqc" /\ ~(rs.htq = NoTQ \/ rs.htq.view < t.view)
       THEN [rs |-> rs, store |-> store]       \* "a certificate we already know": its nested commit certificate is not looked at
       ELSE IF a.rs.htq = NoTQ \/ a.rs.htq.view < t.view
       THEN [rs |-> [a.rs EXCEPT !.htq = t], store |-> a.store]
       ELSE a

ProcJust(rs, store, j) == IF j.k = "c" THEN ProcCQC(rs, store, j.cq) ELSE ProcTQC(rs, store, j.tq)

(* The handler cannot complete (it waits inside queue_block) while the block it is about to save *)
(* has a cached payload but its predecessors are not stored.                                    *)
BlockedOnQC(rs, store, qc) ==
    qc # NoVote /\ Newer(rs.hcq, qc) /\ HasPayload(rs.props, qc) /\ Len(store) < qc.num - FirstBlock
BlockedOnJust(rs, store, j) ==
    IF j.k = "c" THEN BlockedOnQC(rs, store, j.cq) ELSE BlockedOnQC(rs, store, j.tq.hq)

(* get_justification (new_view.rs:185-199): higher certificate, commit preferred on a tie. *)
GetJust(rs) ==
    IF Weaken = "justification_prefers_timeout"
    THEN (IF rs.htq.view >= rs.hcq.view /\ rs.htq # NoTQ THEN TJ(rs.htq) ELSE CJ(rs.hcq))
    ELSE (IF rs.hcq.view >= rs.htq.view THEN CJ(rs.hcq) ELSE TJ(rs.htq))

(* start_new_view (new_view.rs:119-182). *)
StartNewView(self, rs, store, v) ==
    LET rs1 == [rs EXCEPT !.view = v, !.phase = "prepare"]
        j   == GetJust(rs1)
        rs2 == [rs1 EXCEPT !.props = IF rs1.hcq # NoVote THEN {p \in rs1.props : p.num > rs1.hcq.num} ELSE rs1.props]
    IN Res(TRUE, rs2, store, TRUE, <<NewViewMsg(self, j)>>, j, TRUE)

(***************************************************************************)
(* on_proposal (proposal.rs:80-286). Checks in the code's order; every     *)
(* rejection leaves the state untouched. A proposal for a FUTURE view is    *)
(* accepted directly (the replica jumps there without start_new_view: no   *)
(* new-view broadcast, no proposer notification, no timer reset, no cache  *)
(* pruning).                                                               *)
(***************************************************************************)
OnProposal(self, rs, store, m) ==
    LET vw    == JView(m.j)
        imp   == Implied(m.j)
        fresh == vw > rs.view \/ (vw = rs.view /\ (rs.phase = "prepare" \/ Weaken = "no_phase_gate"))
        ldr   == m.from = Leader(vw) \/ Weaken = "no_leader_check"
        repro == imp.pay # "none"
        takeP == repro /\ Weaken = "no_reproposal_rule" /\ m.p # "none"   \* weakened: accepts a payload on a forced re-proposal
        payOk == IF repro /\ ~takeP
                 THEN m.p = "none"
                 ELSE /\ m.p # "none"
                      /\ m.p \notin BadPayloads
                      /\ (repro \/ Len(store) >= imp.num - FirstBlock)    \* previous block persisted (else MissingPreviousPayload)
        pay   == IF repro /\ ~takeP THEN imp.pay ELSE m.p
        vote  == [view |-> vw, num |-> imp.num, pay |-> pay]
        hv1   == IF Weaken = "high_vote_keeps_older_same_number" /\ rs.hv # NoVote /\ rs.hv.num >= vote.num THEN rs.hv ELSE vote
        rs1   == [rs EXCEPT !.view = vw, !.phase = "commit", !.hv = hv1,
                            !.props = IF m.p # "none" THEN rs.props \cup {[num |-> imp.num, pay |-> m.p]} ELSE rs.props]
        a     == ProcJust(rs1, store, m.j)
        r0    == Res(TRUE, a.rs, a.store, TRUE, <<CommitMsg(self, vote)>>, NoJust, FALSE)
    IN IF fresh /\ ldr /\ m.valid /\ payOk
       THEN (IF Weaken = "backup_before_justification" THEN [r0 EXCEPT !.prs = rs1] ELSE r0)   \* weakened: persists before processing the certificate
       ELSE Reject(rs, store)
ProposalBlocked(rs, store, m) ==
    LET rs1 == [rs EXCEPT !.props = IF m.p # "none" THEN rs.props \cup {[num |-> Implied(m.j).num, pay |-> m.p]} ELSE rs.props]
    IN BlockedOnJust(rs1, store, m.j)

(***************************************************************************)
(* on_commit (commit.rs:56-183): one latest vote per validator; partial    *)
(* certificates for views nobody is at are dropped; on a quorum the        *)
(* certificate is processed and the next view started.                     *)
(***************************************************************************)
OnCommit(self, rs, store, m) ==
    LET v      == m.vote
        ok     == m.from \in Validators /\ v.view >= rs.view /\ rs.cv[m.from] < v.view /\ m.valid
        cur    == {e \in rs.cq : e.vote = v}
        sig    == (IF cur = {} THEN {} ELSE (CHOOSE e \in cur : TRUE).signers) \cup {m.from}
        cq1    == {e \in rs.cq : e.vote # v} \cup {[vote |-> v, signers |-> sig]}
        cv1    == [rs.cv EXCEPT ![m.from] = v.view]
        active == {cv1[x] : x \in Validators}
        cq2    == {e \in cq1 : e.vote.view \in active}
        rs1    == [rs EXCEPT !.cv = cv1, !.cq = cq2]
        rs2    == [rs1 EXCEPT !.cq = {e \in cq2 : e.vote.view # v.view}]
        a      == ProcCQC(rs2, store, v)
    IN IF ~ok THEN Reject(rs, store)
       ELSE IF WeightOf(sig) < QuorumW THEN Res(TRUE, rs1, store, FALSE, <<>>, NoJust, FALSE)
       ELSE StartNewView(self, a.rs, a.store, v.view + 1)
CommitBlocked(rs, store, m) ==
    LET v == m.vote
        cur == {e \in rs.cq : e.vote = v}
        sig == (IF cur = {} THEN {} ELSE (CHOOSE e \in cur : TRUE).signers) \cup {m.from}
    IN m.from \in Validators /\ v.view >= rs.view /\ rs.cv[m.from] < v.view /\ m.valid
       /\ WeightOf(sig) >= QuorumW /\ BlockedOnQC(rs, store, v)

(***************************************************************************)
(* TimeoutQC::high_vote / high_qc over a set of reports [s, view, hv, hq]  *)
(* (replica_timeout.rs:127-151): weight is counted per BLOCK HEADER; a     *)
(* high vote exists iff exactly one header reaches the sub-quorum.         *)
(***************************************************************************)
DeriveTQ(vw, reports) ==
    LET voters(h) == {e.s : e \in {x \in reports : x.hv # NoVote /\ Hdr(x.hv) = h}}
        hdrs == {Hdr(e.hv) : e \in {x \in reports : x.hv # NoVote}}
        (* weakened: the tally is kept per (view, header), so votes for one block cast in different views do not add up *)
        votersV(v) == {e.s : e \in {x \in reports : x.hv = v}}
        bigV == {Hdr(v) : v \in {w \in {e.hv : e \in {x \in reports : x.hv # NoVote}} : WeightOf(votersV(w)) >= SubQuorumW}}
        big  == IF Weaken = "high_vote_tally_by_view" THEN bigV ELSE {h \in hdrs : WeightOf(voters(h)) >= SubQuorumW}
        qs   == {e.hq : e \in {x \in reports : x.hq # NoVote}}
        hq   == IF qs = {} THEN NoVote
                ELSE IF Weaken = "high_qc_min_instead_of_max"
                     THEN CHOOSE q \in qs : \A q2 \in qs : q.view <= q2.view
                     ELSE CHOOSE q \in qs : \A q2 \in qs : q2.view <= q.view
    IN [view |-> vw, hvh |-> IF Cardinality(big) = 1 THEN CHOOSE h \in big : TRUE ELSE NoHdr, hq |-> hq]

(* on_timeout (timeout.rs:56-166). *)
OnTimeout(self, rs, store, m) ==
    LET ok     == m.from \in Validators /\ m.view >= rs.view /\ rs.tv[m.from] < m.view /\ m.valid
        tq1    == rs.tq \cup {[s |-> m.from, view |-> m.view, hv |-> m.hv, hq |-> m.hq]}
        tv1    == [rs.tv EXCEPT ![m.from] = m.view]
        active == {tv1[x] : x \in Validators}
        tq2    == {e \in tq1 : e.view \in active}
        mine   == {e \in tq2 : e.view = m.view}
        rs1    == [rs EXCEPT !.tv = tv1, !.tq = tq2]
        t      == DeriveTQ(m.view, mine)
        rs2    == [rs1 EXCEPT !.tq = tq2 \ mine]
        a      == ProcTQC(rs2, store, t)
    IN IF ~ok THEN Reject(rs, store)
       ELSE IF WeightOf({e.s : e \in mine}) < QuorumW THEN Res(TRUE, rs1, store, FALSE, <<>>, NoJust, FALSE)
       ELSE StartNewView(self, a.rs, a.store, m.view + 1)
TimeoutBlocked(rs, store, m) ==
    LET tq1  == rs.tq \cup {[s |-> m.from, view |-> m.view, hv |-> m.hv, hq |-> m.hq]}
        mine == {e \in tq1 : e.view = m.view}
    IN m.from \in Validators /\ m.view >= rs.view /\ rs.tv[m.from] < m.view /\ m.valid
       /\ WeightOf({e.s : e \in mine}) >= QuorumW /\ BlockedOnQC(rs, store, DeriveTQ(m.view, mine).hq)

(***************************************************************************)
(* on_new_view (new_view.rs:46-117). The leader's new-view for the CURRENT *)
(* view is processed (certificates adopted; no view change, no backup, no  *)
(* message).                                                               *)
(***************************************************************************)
OnNewView(self, rs, store, m) ==
    LET vw  == JView(m.j)
        old == vw < rs.view \/ (vw = rs.view /\ m.from # Leader(rs.view))
        a   == ProcJust(rs, store, m.j)
    IN IF old \/ m.from \notin Validators \/ ~m.valid THEN Reject(rs, store)
       ELSE IF vw > rs.view /\ Weaken # "ignore_future_newview" THEN StartNewView(self, a.rs, a.store, vw)
       ELSE Res(TRUE, a.rs, a.store, FALSE, <<>>, NoJust, FALSE)
NewViewBlocked(rs, store, m) ==
    LET vw == JView(m.j) IN
    ~(vw < rs.view \/ (vw = rs.view /\ m.from # Leader(rs.view))) /\ m.from \in Validators /\ m.valid
    /\ BlockedOnJust(rs, store, m.j)

(***************************************************************************)
(* start_timeout (timeout.rs:170-225): phase := Timeout, backup, then      *)
(* re-broadcast new-view (except in view 0) and the timeout vote — on      *)
(* EVERY expiry, which is what retransmits lost messages.                  *)
(***************************************************************************)
OnTimer(self, rs, store) ==
    LET rs1 == [rs EXCEPT !.phase = "timeout"]
        hvr == IF Weaken = "timeout_reports_stale_high_vote" THEN NoVote ELSE rs.hv
        nv  == IF rs.view # 0 THEN <<NewViewMsg(self, GetJust(rs1))>> ELSE <<>>
        out == IF Weaken = "no_retransmit_on_timer" /\ rs.phase = "timeout" THEN <<>>
               ELSE nv \o <<TimeoutMsg(self, rs.view, hvr, rs.hcq)>>
    IN Res(TRUE, rs1, store, Weaken # "no_persist_on_timeout", out, NoJust, TRUE)

(* run(): view 0 times out immediately (mod.rs:156-163); done after every (re)start. *)
OnBoot(self, rs, store) ==
    IF rs.view = 0 /\ Weaken # "no_view0_bootstrap" THEN OnTimer(self, rs, store)
    ELSE Res(TRUE, rs, store, FALSE, <<>>, NoJust, FALSE)

Handle(self, rs, store, m) ==
    CASE m.t = "proposal" -> OnProposal(self, rs, store, m)
      [] m.t = "commit"   -> OnCommit(self, rs, store, m)
      [] m.t = "timeout"  -> OnTimeout(self, rs, store, m)
      [] m.t = "newview"  -> OnNewView(self, rs, store, m)
Blocked(rs, store, m) ==
    CASE m.t = "proposal" -> ProposalBlocked(rs, store, m)
      [] m.t = "commit"   -> CommitBlocked(rs, store, m)
      [] m.t = "timeout"  -> TimeoutBlocked(rs, store, m)
      [] m.t = "newview"  -> NewViewBlocked(rs, store, m)

(***************************************************************************)
(* Proposer (proposer.rs:11-108): for the justification on the watch, if   *)
(* this validator leads that view: re-proposal without payload, or a new   *)
(* payload once the previous block is stored.                              *)
(***************************************************************************)
CanPropose(self, store, j) ==
    /\ j # NoJust
    /\ Leader(JView(j)) = self
    /\ (Implied(j).pay # "none" \/ Len(store) >= Implied(j).num - FirstBlock)
Proposal(self, j, p) == ProposalMsg(self, j, IF Implied(j).pay # "none" THEN "none" ELSE p)

(***************************************************************************)
(* "The state that records it is durable" (C03): what a durable state must *)
(* contain at the moment a message becomes visible.                        *)
(***************************************************************************)
Recorded(d, m) ==
    CASE m.t = "commit"   -> d.hv = m.vote /\ d.view = m.vote.view /\ d.phase = "commit"
      [] m.t = "timeout"  -> d.view = m.view /\ d.phase = "timeout"
      [] m.t = "newview"  -> IF m.j.k = "c" THEN d.hcq = m.j.cq ELSE d.htq = m.j.tq
      [] m.t = "proposal" -> TRUE
=============================================================================

CONSTANTS
  Validators = {1,2,3,4,5,6}
  Weight <- W111111
  BadPayloads = {"bad", "huge"}
  Weaken = "none"
  Self = 1
  MaxV = 4
  Pays = {"p","q"}
  Depth = 14
INIT Init
NEXT Next
INVARIANTS ViewJustified Done
PROPERTIES Monotone
CHECK_DEADLOCK FALSE

------------------------------ MODULE MC_Just ------------------------------
EXTENDS Justification
CONSTANTS Mode
W3111 == <<3,1,1,1>>
W111111 == <<1,1,1,1,1,1>>
W222221 == <<2,2,2,2,2,1>>
W1111 == <<1,1,1,1>>
SmallHVs == {NoVote, VA, VB}
SmallHQs == {NoVote, QCprev}
ASSUME Mode = "sound" => ReproposalSound
ASSUME Mode = "table" => PrintCases(HVs, HQs)
ASSUME Mode = "tablesmall" => PrintCases(SmallHVs, SmallHQs)
VARIABLE x
Init == x = 0
Next == UNCHANGED x
=============================================================================

CONSTANT MaxN = 3000
INIT Init
NEXT Next

CONSTANTS MaxLen = 3 MaxW = 3 MaxFreq = 3 MaxView = 12
INIT Init
NEXT Next

\* weights <3,1,1,1> (n=6,f=1,Q=5,S=3); faulty validator 2 leads view 1
CONSTANTS
  Validators = {1,2,3,4}
  Weight <- W3111
  Correct = {1,2,3}
  Faulty = {4}
  Payloads = {"p","q"}
  BadPayloads = {}
  Weaken = "none"
  MaxView = 2
  ViewCap = 2
  HonestPayloads <- Alternating
  MaxCrash = 1
  MaxBlocks = 2
INIT InitView1
NEXT NextMC
VIEW MCView
CONSTRAINT Bound
INVARIANTS TypeOK Agreement CertUnique NoCommitEquivocation DurableBeforeVisible ViewJustified HeldCertsBacked SelfJustifying
PROPERTIES StoreAppendOnly SignedViewsMonotone Monotone

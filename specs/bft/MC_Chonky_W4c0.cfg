CONSTANTS
  Validators = {1,2,3,4}
  Weight <- W3111
  Correct = {1,2,3}
  Faulty = {4}
  Payloads = {"p","q"}
  BadPayloads = {}
  Weaken = "none"
  MaxView = 2
  ViewCap = 2
  HonestPayloads <- Alternating
  EnableLeaderNV = FALSE
  MaxCrash = 0
  MaxBlocks = 2
INIT Init
NEXT NextMC
VIEW MCView
CONSTRAINT Bound
INVARIANTS TypeOK Agreement CertUnique NoCommitEquivocation DurableBeforeVisible ViewJustified HeldCertsBacked SelfJustifying
PROPERTIES StoreAppendOnly SignedViewsMonotone Monotone

CONSTANTS
  Validators <- TValidators
  Weight <- TWeight
  BadPayloads <- TBad
  Weaken = "none"
INIT TInit
NEXT TNext
INVARIANTS Conformant NoBadC01 NoBadC02 NoBadC03 NoBadC05 NoBadC08 NoBadC16
POSTCONDITION Accepted
CHECK_DEADLOCK FALSE

CONSTANTS
  Validators <- TValidators
  Weight <- TWeight
  BadPayloads <- TBad
  Weaken = "none"
INIT TInit
NEXT TNext
ALIAS Brief
POSTCONDITION Accepted
CHECK_DEADLOCK FALSE

CONSTANTS
  Validators <- TValidators
  Weight <- TWeight
  BadPayloads <- TBad
  Weaken = "none"
INIT TInit
NEXT TNext
INVARIANTS NoBadC01 NoBadC08
ALIAS Brief
POSTCONDITION Accepted
CHECK_DEADLOCK FALSE

---------------------------- MODULE Justification ----------------------------
(***************************************************************************)
(* The re-proposal rule as a function of an explicit timeout certificate    *)
(* (property C02a). DeriveTQ / Implied are those of Replica.tla; here they  *)
(* are evaluated over EVERY certificate of a bounded report alphabet, (1)   *)
(* to check the soundness theorem ReproposalSound on the specification and  *)
(* (2) to print the case table replayed into the real                       *)
(* TimeoutQC::high_vote, TimeoutQC::high_qc and                             *)
(* ProposalJustification::get_implied_block (T3).                           *)
(*                                                                         *)
(* Setting: block number n, view v. A = header (n,"a"), B = (n,"b") a       *)
(* conflicting header, C = (n-1,"c") the previous block.                    *)
(***************************************************************************)
EXTENDS Replica, TLC, Json

CONSTANTS Nn, Vv            \* block number n >= 1 and view v >= 2 under study

VA  == [view |-> Vv, num |-> Nn, pay |-> "a"]          \* vote for A in view v
VAo == [view |-> Vv - 1, num |-> Nn, pay |-> "a"]      \* vote for A in view v-1 (A was proposed before)
VB  == [view |-> Vv, num |-> Nn, pay |-> "b"]          \* vote for the conflicting B in view v
VC  == [view |-> Vv - 2, num |-> Nn - 1, pay |-> "c"]  \* stale vote for the previous block
QCprev == [view |-> Vv - 2, num |-> Nn - 1, pay |-> "c"]   \* certificate for block n-1
QCa    == VA                                               \* certificate for (n, A) formed in view v

HVs == {NoVote, VA, VAo, VB, VC}
HQs == {NoVote, QCprev, QCa}

(* all report assignments over signer set S *)
RECURSIVE Assign(_, _, _)
Assign(S, hvs, hqs) ==
    IF S = {} THEN {{}}
    ELSE LET s == CHOOSE x \in S : TRUE
         IN {g \cup {[s |-> s, view |-> Vv, hv |-> h, hq |-> q]} : g \in Assign(S \ {s}, hvs, hqs), h \in hvs, q \in hqs}

QuorumSets == {S \in SUBSET Validators : WeightOf(S) >= QuorumW}

(***************************************************************************)
(* ReproposalSound. Suppose a commit quorum Qc voted (n,A) in view v.       *)
(* For every timeout quorum Qt for view v, every faulty set Bz (weight <=  *)
(* f): correct members of Qc /\ Qt report high vote A@v (they voted before  *)
(* timing out and a correct replica never un-votes); correct members of    *)
(* Qt \ Qc report anything an honest replica could hold; faulty members    *)
(* report anything. Then the implied block is (n, A) - unless some report   *)
(* carries the certificate for (n,A) itself, in which case block n is final *)
(* and the implied block is (n+1, fresh).                                   *)
(***************************************************************************)
FaultySets == {Bz \in SUBSET Validators : WeightOf(Bz) <= MaxFaultyW}
Sound(g) ==
    LET t == DeriveTQ(Vv, g)
        imp == Implied(TJ(t))
    IN IF \E e \in g : e.hq = QCa THEN imp = [num |-> Nn + 1, pay |-> "none"]
       ELSE imp = [num |-> Nn, pay |-> "a"]
ReproposalSound ==
    \A Qc \in QuorumSets, Qt \in QuorumSets, Bz \in FaultySets :
        \A g \in Assign(Qt, HVs, HQs) :
            (\A e \in g : (e.s \in Qc /\ e.s \notin Bz) => e.hv = VA)      \* correct commit voters report A@v
            => Sound(g)

(* T3 table: one line per (signer set, assignment): spec's derived content and implied block *)
CaseOf(g) ==
    LET t == DeriveTQ(Vv, g) IN
    [reports |-> g, hvh |-> t.hvh, hq |-> t.hq, implied |-> Implied(TJ(t))]
PrintCases(hvs, hqs) ==
    \A S \in QuorumSets : \A g \in Assign(S, hvs, hqs) : PrintT(<<"CASE", ToJson(CaseOf(g))>>)
=============================================================================

----------------------------- MODULE TraceChonky -----------------------------
(***************************************************************************)
(* Trace validation (T1) of the real StateMachine against Replica.tla.      *)
(*                                                                         *)
(* The harness logs one event per environment action executed on the real  *)
(* code (handle one message / timer / boot / crash+restart / block sync /  *)
(* proposer step) with: the input in EXPLICIT form (certificates with       *)
(* signer sets), accept/reject, the messages emitted (each tagged with the  *)
(* number of durable writes that preceded it), the durable state after each *)
(* write, and the full replica snapshot afterwards.                         *)
(*                                                                         *)
(* For every event the specification PREDICTS the step from the observed    *)
(* pre-state (Replica.tla handlers, Certs.tla validity, derivation of the   *)
(* certificate content) and compares with what was observed; the first      *)
(* deviation is recorded in `diff` (invariant Conformant, property C05).    *)
(* The state then FOLLOWS THE OBSERVATION, so the property monitors (C01,   *)
(* C02, C03, C05, C16) are evaluated on what the real code did in every     *)
(* state of the whole trace, independently of conformance.                  *)
(* The search is linear: one successor per event.                           *)
(***************************************************************************)
EXTENDS Certs, Json, IOUtils, TLC

Rec == ndJsonDeserialize(IOEnv.TRACE)

(* Constants come from the header event (first line). *)
Hd == Rec[1]
TValidators == 1..Hd.n
TWeight == Hd.weights
TFaulty == {Hd.faulty[i] : i \in 1..Len(Hd.faulty)}
TCorrect == TValidators \ TFaulty
TBad == {Hd.bad[i] : i \in 1..Len(Hd.bad)}

ToSet(s) == {s[i] : i \in 1..Len(s)}

(* ---- explicit input -> Certs.tla records ---- *)
XCQC(x) == [vote |-> x.vote, g |-> x.g, signers |-> ToSet(x.signers), len |-> x.len, sig |-> x.sig]
XTMsg(x) == [view |-> x.view, g |-> x.g, hv |-> x.hv, hvg |-> x.hvg, hq |-> XCQC(x.hq)]
XTQC(x) == [view |-> x.view, g |-> x.g, sig |-> x.sig,
            groups |-> [i \in 1..Len(x.groups) |->
                           [msg |-> XTMsg(x.groups[i].msg), signers |-> ToSet(x.groups[i].signers), len |-> x.groups[i].len]]]
XJ(x) == [k |-> x.k, cq |-> XCQC(x.cq), tq |-> XTQC(x.tq)]

(* explicit message -> abstract message of Replica.tla (valid computed by the SPEC from the explicit form) *)
AbsMsg(x) ==
    CASE x.t = "proposal" -> [t |-> "proposal", from |-> x.from, j |-> XJustDerived(XJ(x.x)), p |-> x.p,
                              valid |-> x.sigok /\ XJustValid(XJ(x.x))]
      [] x.t = "newview"  -> [t |-> "newview", from |-> x.from, j |-> XJustDerived(XJ(x.x)),
                              valid |-> x.sigok /\ XJustValid(XJ(x.x))]
      [] x.t = "commit"   -> [t |-> "commit", from |-> x.from, vote |-> x.vote, valid |-> x.sigok /\ x.g]
      [] x.t = "timeout"  -> [t |-> "timeout", from |-> x.from, view |-> x.view, hv |-> x.hv, hq |-> x.hq.vote,
                              valid |-> x.sigok /\ TimeoutMsgValid(XTMsg(x))]

(* observed snapshot -> replica state record *)
ObsRS(p) == [view |-> p.view, phase |-> p.phase, hv |-> p.hv, hcq |-> p.hcq, htq |-> p.htq, props |-> ToSet(p.props),
             cv |-> p.cv, tv |-> p.tv,
             cq |-> {[vote |-> p.cq[i].vote, signers |-> ToSet(p.cq[i].signers)] : i \in 1..Len(p.cq)},
             tq |-> ToSet(p.tq)]
ObsDur(d) == [view |-> d.view, phase |-> d.phase, hv |-> d.hv, hcq |-> d.hcq, htq |-> d.htq, props |-> ToSet(d.props)]
ObsOut(o) == [i \in 1..Len(o) |-> o[i].m]

VARIABLES
    l,        \* next event
    rs,       \* [replica -> observed replica state]       (only replicas run as real code: TCorrect)
    store,    \* [replica -> observed chain of payload names]
    dur,      \* [replica -> observed durable state]
    sent,     \* every message made visible by a real replica so far
    lastVote, \* [replica -> highest view of a vote made visible, all incarnations]
    lastTO,   \* [replica -> highest view of a timeout vote made visible]
    diff,     \* first deviation from the specification ("none" if none)
    bad       \* first property-level violation observed on real outputs ("none" if none): [p |-> property, what]
tvars == <<l, rs, store, dur, sent, lastVote, lastTO, diff, bad>>

NoDiff == [l |-> 0, what |-> "none"]

TInit ==
    /\ l = 2
    /\ rs = [r \in TCorrect |-> InitRS]
    /\ store = [r \in TCorrect |-> <<>>]
    /\ dur = [r \in TCorrect |-> InitDur]
    /\ sent = {}
    /\ lastVote = [r \in TCorrect |-> -1]
    /\ lastTO = [r \in TCorrect |-> -1]
    /\ diff = NoDiff
    /\ bad = {}

Ev == Rec[l]

SameBag(a, b) == Len(a) = Len(b) /\ \A x \in ToSet(a) \cup ToSet(b) :
                    Cardinality({i \in 1..Len(a) : a[i] = x}) = Cardinality({i \in 1..Len(b) : b[i] = x})

IsPrefixOf(s, t) == Len(s) <= Len(t) /\ \A i \in 1..Len(s) : s[i] = t[i]

FirstDiff(what) == IF diff # NoDiff THEN diff ELSE [l |-> l, what |-> what]
V(cond, p, what) == IF cond THEN {} ELSE {[p |-> p, what |-> what]}
(* keep the first violation per property *)
AddBad(S) == bad \cup {[l |-> l, p |-> v.p, what |-> v.what] : v \in {x \in S : \A b \in bad : b.p # x.p}}

(***************************************************************************)
(* C03 monitors over the messages a step made visible, in emission order.  *)
(*   durs[k+1] = durable state after the k-th set_state of the step        *)
(*   (durs[1] = durable state before the step); out[i].pb = number of      *)
(*   set_state calls applied before message i left.                        *)
(***************************************************************************)
RECURSIVE VoteScan(_, _, _, _, _)
VoteScan(r, out, i, lv, lt) ==   \* returns [lv, lt, bad]
    IF i > Len(out) THEN [lv |-> lv, lt |-> lt, bad |-> "none"]
    ELSE LET m == out[i].m IN
         IF m.t = "commit" /\ m.vote.view < lv THEN [lv |-> lv, lt |-> lt, bad |-> "commit vote for a view below an earlier vote"]
         ELSE IF m.t = "commit" /\ m.vote.view <= lt THEN [lv |-> lv, lt |-> lt, bad |-> "commit vote in or before a view already timed out in"]
         ELSE IF m.t = "commit" /\ \E o \in sent : o.t = "commit" /\ o.from = r /\ o.vote.view = m.vote.view /\ o.vote # m.vote
              THEN [lv |-> lv, lt |-> lt, bad |-> "two different commit votes for one view"]
         ELSE IF m.t = "timeout" /\ m.view < lv THEN [lv |-> lv, lt |-> lt, bad |-> "timeout vote for a view below an earlier vote"]
         ELSE VoteScan(r, out, i + 1,
                       IF m.t = "commit" THEN m.vote.view ELSE IF m.t = "timeout" THEN m.view ELSE lv,
                       IF m.t = "timeout" /\ m.view > lt THEN m.view ELSE lt)

DurableOK(ev) == \A i \in 1..Len(ev.out) : Recorded(ev.durs[ev.out[i].pb + 1], ev.out[i].m)

(* C05 self-justification: what is emitted carries the replica's highest certificate / current votes *)
SelfJustOK(r, ev) ==
    LET post == ObsRS(ev.post) IN
    \A i \in 1..Len(ev.out) :
        LET m == ev.out[i].m IN
        /\ ev.out[i].sv                                      \* carried certificates verify in isolation (real verify())
        /\ m.t = "newview" => m.j = GetJust(post)
        /\ m.t = "timeout" => m.hv = post.hv /\ m.hq = post.hcq /\ m.view = post.view
        /\ m.t = "commit"  => m.vote = post.hv

MonotoneOK(r, ev) ==
    LET post == ObsRS(ev.post) IN
    /\ rs[r].view <= post.view /\ rs[r].hcq.view <= post.hcq.view /\ rs[r].htq.view <= post.htq.view
ViewJustifiedOK(ev) ==
    LET post == ObsRS(ev.post) IN
    /\ post.view > rs[ev.r].view => (post.hcq.view >= post.view - 1 \/ post.htq.view >= post.view - 1)
    /\ ev.certs_ok                                           \* held certificates verify (real verify() on the snapshot)

(* C16: bookkeeping bounded by the committee size alone *)
CacheBoundedOK(ev) ==
    LET post == ObsRS(ev.post)
        cviews == {e.vote.view : e \in post.cq}
        tviews == {e.view : e \in post.tq}
    IN \* partial certificates exist only for views that are some validator's latest vote: at most N views,
       \* and within a view every validator contributes at most one vote
       /\ Cardinality(cviews) <= N /\ Cardinality(tviews) <= N
       /\ \A v \in cviews : Cardinality(UNION {e.signers : e \in {x \in post.cq : x.vote.view = v}}) <= N
       /\ \A v \in cviews : \A e1, e2 \in {x \in post.cq : x.vote.view = v} : e1 # e2 => e1.signers \cap e2.signers = {}
       /\ \A v \in tviews : \A e1, e2 \in {x \in post.tq : x.view = v} : e1 # e2 => e1.s # e2.s
       /\ \A v \in cviews : \E x \in Validators : post.cv[x] = v
       /\ \A v \in tviews : \E x \in Validators : post.tv[x] = v

(* C01 on observed stores *)
AgreementOK(st) == \A r1, r2 \in TCorrect : \A i \in 1..Len(st[r1]) : i <= Len(st[r2]) => st[r1][i] = st[r2][i]
(* C02 on observed votes: per block number at most one payload certifiable *)
CertifiableObs(S, v) == WeightOf({m.from : m \in {x \in S : x.t = "commit" /\ x.vote = v}} \cup TFaulty) >= QuorumW
CertUniqueOK(S) ==
    LET votes == {m.vote : m \in {x \in S : x.t = "commit"}}
        qcs == {v \in votes : CertifiableObs(S, v)}
    IN \A v1, v2 \in qcs : v1.num = v2.num => v1.pay = v2.pay

Monitors(r, ev, newSent, newStore, scan) ==
    AddBad(
        V(scan.bad = "none", "C03", scan.bad)
        \cup V(DurableOK(ev), "C03", "message visible before the durable state records it")
        \cup V(IsPrefixOf(store[r], newStore[r]), "C01", "committed chain replaced or reordered")
        \cup V(AgreementOK(newStore), "C01", "two correct nodes hold different payloads for a block number")
        \cup V(CertUniqueOK(newSent), "C02", "two payloads certifiable for one block number")
        \cup V(ev.kind = "boot" \/ MonotoneOK(r, ev), "C05", "view or certificate decreased")
        \cup V(ViewJustifiedOK(ev), "C05", "view entered without a valid certificate for the preceding view")
        \cup V(SelfJustOK(r, ev), "C05", "emitted message is not self-justifying")
        \cup V(CacheBoundedOK(ev), "C16", "vote bookkeeping exceeds the committee-size bound"))

(***************************************************************************)
(* Events.                                                                 *)
(***************************************************************************)
Predict(r, ev) ==
    CASE ev.kind = "recv"  -> Handle(r, rs[r], store[r], AbsMsg(ev.m))
      [] ev.kind = "timer" -> OnTimer(r, rs[r], store[r])
      [] ev.kind = "boot"  -> OnBoot(r, rs[r], store[r])

StepDiff(r, ev, res) ==
    IF res.ok # ev.ok THEN "accept/reject differs from the specification"
    ELSE IF res.rs # ObsRS(ev.post) THEN "post-state differs from the specification"
    ELSE IF ~SameBag(res.out, ObsOut(ev.out)) THEN "emitted messages differ from the specification"
    ELSE IF res.store # ev.store THEN "block store differs from the specification"
    ELSE IF res.watch # ev.watch THEN "proposer notification differs from the specification"
    ELSE IF res.persist /\ Len(ev.durs) < 2 THEN "the step did not write its state durably although the specification does"
    ELSE IF res.persist /\ ObsDur(ev.durs[Len(ev.durs)]) # Dur(ObsRS(ev.post)) THEN "the durable state written by the step is not the state the step ends in"
    ELSE "none"

TStep ==
    /\ Ev.e = "step"
    /\ LET ev == Ev
           r == ev.r
           res == Predict(r, ev)
           d == IF ev.kind = "recv" /\ Blocked(rs[r], store[r], AbsMsg(ev.m)) THEN "handler completed although the specification blocks"
                ELSE StepDiff(r, ev, res)
           outm == ObsOut(ev.out)
           newSent == sent \cup ToSet(outm)
           newStore == [store EXCEPT ![r] = ev.store]
           scan == VoteScan(r, ev.out, 1, lastVote[r], lastTO[r])
       IN /\ diff' = IF d = "none" THEN diff ELSE FirstDiff(d)
          /\ rs' = [rs EXCEPT ![r] = ObsRS(ev.post)]
          /\ store' = newStore
          /\ dur' = [dur EXCEPT ![r] = ObsDur(ev.durs[Len(ev.durs)])]
          /\ sent' = newSent
          /\ lastVote' = [lastVote EXCEPT ![r] = scan.lv]
          /\ lastTO' = [lastTO EXCEPT ![r] = scan.lt]
          /\ bad' = Monitors(r, ev, newSent, newStore, scan)
    /\ l' = l + 1

(* A handler that did not complete (process killed at a durable write): no prediction, but whatever left the *)
(* node and whatever became durable is observed and monitored. A `crash` event follows.                      *)
TPartial ==
    /\ Ev.e = "partial"
    /\ LET ev == Ev
           r == ev.r
           outm == ObsOut(ev.out)
           newSent == sent \cup ToSet(outm)
           newStore == [store EXCEPT ![r] = ev.store]
           scan == VoteScan(r, ev.out, 1, lastVote[r], lastTO[r])
       IN /\ rs' = [rs EXCEPT ![r] = ObsRS(ev.post)]
          /\ store' = newStore
          /\ dur' = [dur EXCEPT ![r] = ObsDur(ev.durs[Len(ev.durs)])]
          /\ sent' = newSent
          /\ lastVote' = [lastVote EXCEPT ![r] = scan.lv]
          /\ lastTO' = [lastTO EXCEPT ![r] = scan.lt]
          /\ bad' = AddBad(
                 V(scan.bad = "none", "C03", scan.bad)
                 \cup V(DurableOK(ev), "C03", "message visible before the durable state records it")
                 \cup V(IsPrefixOf(store[r], newStore[r]), "C01", "committed chain replaced or reordered")
                 \cup V(AgreementOK(newStore), "C01", "two correct nodes hold different payloads for a block number")
                 \cup V(CertUniqueOK(newSent), "C02", "two payloads certifiable for one block number"))
    /\ l' = l + 1
    /\ UNCHANGED diff

(* crash + restart: the new incarnation's snapshot must be the restored durable state *)
TCrash ==
    /\ Ev.e = "crash"
    /\ LET r == Ev.r
           want == Restart(dur[r])
       IN /\ diff' = IF want = ObsRS(Ev.post) THEN diff ELSE FirstDiff("restart does not restore the durable state")
          /\ rs' = [rs EXCEPT ![r] = ObsRS(Ev.post)]
          /\ bad' = AddBad(V(IsPrefixOf(store[r], Ev.store), "C01", "committed chain lost across restart"))
          /\ store' = [store EXCEPT ![r] = Ev.store]
    /\ l' = l + 1
    /\ UNCHANGED <<dur, sent, lastVote, lastTO>>

(* block sync through EngineManager::queue_block: only the next block with a valid certificate is stored *)
TSync ==
    /\ Ev.e = "sync"
    /\ LET r == Ev.r
           b == [payhash |-> Ev.payhash, qc |-> XCQC(Ev.qc)]
           want == IF BlockValid(b) /\ b.qc.vote.num = Len(store[r]) + FirstBlock THEN Append(store[r], Ev.pay) ELSE store[r]
           newStore == [store EXCEPT ![r] = Ev.store]
       IN /\ diff' = IF want = Ev.store THEN diff ELSE FirstDiff("block sync result differs from the specification")
          /\ bad' = AddBad(V(IsPrefixOf(store[r], Ev.store), "C01", "committed chain replaced or reordered")
                           \cup V(AgreementOK(newStore), "C01", "two correct nodes hold different payloads for a block number")
                           \cup V(~(want = store[r] /\ Ev.store # store[r]), "C08", "unverified or out-of-order block stored"))
          /\ store' = newStore
    /\ l' = l + 1
    /\ UNCHANGED <<rs, dur, sent, lastVote, lastTO>>

(* proposer step on the watch value j: the message must be the prescribed proposal *)
TPropose ==
    /\ Ev.e = "propose"
    /\ LET r == Ev.r
           can == CanPropose(r, store[r], Ev.j)
           okmsg == Ev.made /\ Ev.m = Proposal(r, Ev.j, Ev.m.p) /\ (Implied(Ev.j).pay = "none" => Ev.m.p # "none")
       IN /\ diff' = IF (can /\ okmsg) \/ (~can /\ ~Ev.made) THEN diff ELSE FirstDiff("proposer output differs from the specification")
          /\ sent' = IF Ev.made THEN sent \cup {Ev.m} ELSE sent
    /\ l' = l + 1
    /\ UNCHANGED <<rs, store, dur, lastVote, lastTO, bad>>

(* a new run in the same file (same committee): everything restarts *)
TReset ==
    /\ Ev.e = "reset"
    /\ rs' = [r \in TCorrect |-> InitRS]
    /\ store' = [r \in TCorrect |-> <<>>]
    /\ dur' = [r \in TCorrect |-> InitDur]
    /\ sent' = {}
    /\ lastVote' = [r \in TCorrect |-> -1]
    /\ lastTO' = [r \in TCorrect |-> -1]
    /\ l' = l + 1
    /\ UNCHANGED <<diff, bad>>

TNext == l <= Len(Rec) /\ (TStep \/ TPartial \/ TCrash \/ TSync \/ TPropose \/ TReset)
TSpec == TInit /\ [][TNext]_tvars

(* Invariants selected per property by the cfg files. *)
Conformant == diff = NoDiff
NoBadC01 == \A b \in bad : b.p # "C01"
NoBadC02 == \A b \in bad : b.p # "C02"
NoBadC03 == \A b \in bad : b.p # "C03"
NoBadC05 == \A b \in bad : b.p # "C05"
NoBadC08 == \A b \in bad : b.p # "C08"
NoBadC16 == \A b \in bad : b.p # "C16"

(* error traces print only this *)
Brief == [l |-> l, diff |-> diff, bad |-> bad]

(* acceptance: every event consumed *)
AllConsumed == TLCGet("stats").diameter = Len(Rec)
Accepted == IF AllConsumed THEN TRUE
            ELSE PrintT(<<"TRACE-NOT-CONSUMED", TLCGet("stats").diameter, Len(Rec)>>) /\ FALSE
=============================================================================

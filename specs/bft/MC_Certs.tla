------------------------------ MODULE MC_Certs ------------------------------
(* T3 case tables for C04: every case is printed with the specification's verdict. *)
EXTENDS Certs, TLC, Json
CONSTANTS Mode
W3111 == <<3,1,1,1>>
W1111 == <<1,1,1,1>>
W111111 == <<1,1,1,1,1,1>>
W12 == <<10,20>>
W222221 == <<2,2,2,2,2,1>>

V1 == [view |-> 3, num |-> 1, pay |-> "a"]
Vprev == [view |-> 1, num |-> 0, pay |-> "c"]

(* ---- commit certificates: every signer subset x chain binding x bitmap length x signature kind ---- *)
GKinds == {"ok", "genesis", "epoch"}
SigKinds == {"ok", "other_signer", "other_vote", "dropped", "duplicated"}
Lens == {N - 1, N, N + 1}
CQCCase(S, gk, len, sk) ==
    LET c == [vote |-> V1, g |-> gk = "ok", signers |-> S, len |-> len, sig |-> sk = "ok" \/ (S = {} /\ sk \in {"dropped", "duplicated", "other_signer"})]
    IN [kind |-> "cqc", signers |-> S, gk |-> gk, len |-> len, sk |-> sk, valid |-> CommitQCValid(c)]
PrintCQC == \A S \in SUBSET Validators, gk \in GKinds, len \in Lens, sk \in SigKinds :
               PrintT(<<"CASE", ToJson(CQCCase(S, gk, len, sk))>>)

(* ---- timeout certificates: signer subset split in two groups (different reports) x corruption ---- *)
TCorr == {"none", "overlap", "emptygroup", "viewmismatch", "viewearlier", "len_short", "len_long", "genesis", "sig_other_signer", "sig_dropped",
          "nested_subquorum", "nested_badsig", "nested_genesis", "hv_genesis", "epoch", "nested_epoch", "hv_epoch"}
(* chain binding (the flag g) = genesis AND epoch: "genesis" / "epoch" corruptions differ only in how the harness breaks the binding;    *)
(* a nested certificate of ANOTHER EPOCH is fully signed for that epoch - it is invalid here only because of the binding.                *)
ChainBad == {"genesis", "epoch"}
NestedQC(kind) ==
    [vote |-> Vprev, g |-> kind \notin {"nested_genesis", "nested_epoch"},
     signers |-> IF kind = "nested_subquorum" THEN {CHOOSE x \in Validators : TRUE} ELSE Validators,
     len |-> N, sig |-> kind # "nested_badsig"]
TQCCase(S, G2, corr) ==      \* G2 \subseteq S : signers of the second group (report with high vote + nested certificate)
    LET G1 == S \ G2
        m1 == [view |-> 3, g |-> corr \notin ChainBad, hv |-> NoVote, hvg |-> TRUE, hq |-> NoCQC]
        m2 == [view |-> IF corr = "viewmismatch" THEN 4 ELSE IF corr = "viewearlier" THEN 2 ELSE 3, g |-> corr \notin ChainBad, hv |-> V1, hvg |-> corr \notin {"hv_genesis", "hv_epoch"}, hq |-> NestedQC(corr)]
        g1 == [msg |-> m1, signers |-> G1, len |-> IF corr = "len_short" THEN N - 1 ELSE IF corr = "len_long" THEN N + 1 ELSE N]
        g2 == [msg |-> m2, signers |-> IF corr = "overlap" /\ G1 # {} THEN G2 \cup {CHOOSE x \in G1 : TRUE} ELSE G2, len |-> N]
        g3 == [msg |-> [m1 EXCEPT !.hv = Vprev], signers |-> {}, len |-> N]
        groups == (IF G1 # {} \/ corr \in {"len_short", "len_long"} THEN <<g1>> ELSE <<>>) \o (IF G2 # {} THEN <<g2>> ELSE <<>>)
                  \o (IF corr = "emptygroup" THEN <<g3>> ELSE <<>>)
        t == [view |-> 3, g |-> corr \notin ChainBad, groups |-> groups,
              sig |-> ~(corr \in {"sig_other_signer", "sig_dropped"} /\ S # {})]
    IN [kind |-> "tqc", signers |-> S, g2 |-> G2, corr |-> corr, ngroups |-> Len(groups),
        overlap |-> corr = "overlap" /\ G1 # {} /\ G2 # {},
        valid |-> TimeoutQCValid(t)]
PrintTQC == \A S \in SUBSET Validators : \A G2 \in SUBSET S : \A corr \in TCorr :
               PrintT(<<"CASE", ToJson(TQCCase(S, G2, corr))>>)

(* ---- timeout certificates with THREE groups and arbitrary (also overlapping, also non-adjacent) memberships: every validator ---- *)
(* ---- signs any subset of the three reports; every (validator, report) signature is genuine                                ---- *)
TQC3Case(memb) ==
    LET m1 == [view |-> 3, g |-> TRUE, hv |-> NoVote, hvg |-> TRUE, hq |-> NoCQC]
        m2 == [m1 EXCEPT !.hv = V1, !.hq = NestedQC("none")]
        m3 == [m1 EXCEPT !.hv = Vprev]
        grp(i, m) == [msg |-> m, signers |-> {v \in Validators : i \in memb[v]}, len |-> N]
        groups == SelectSeq(<<grp(1, m1), grp(2, m2), grp(3, m3)>>, LAMBDA gr : gr.signers # {})
        t == [view |-> 3, g |-> TRUE, groups |-> groups, sig |-> TRUE]
    IN [kind |-> "tqc3", memb |-> [v \in 1..N |-> memb[v]], ngroups |-> Len(groups), valid |-> TimeoutQCValid(t)]
PrintTQC3 == \A memb \in [Validators -> SUBSET {1, 2, 3}] : PrintT(<<"CASE", ToJson(TQC3Case(memb))>>)

(* ---- incremental assembly: all sequences of <= MaxAdds adds from the alphabet below ---- *)
AddKinds == {"ok", "nonmember", "othervote", "badsig", "genesis"}
AddMsg(from, k) == [from |-> IF k = "nonmember" THEN 0 ELSE from,
                    vote |-> IF k = "othervote" THEN [V1 EXCEPT !.pay = "b"] ELSE V1,
                    g |-> k # "genesis", sigok |-> k # "badsig"]
RECURSIVE RunAdds(_, _, _)
RunAdds(c, seq, acc) ==      \* returns accept/refuse list
    IF seq = <<>> THEN [c |-> c, res |-> acc]
    ELSE LET m == AddMsg(seq[1].from, seq[1].k)
         IN RunAdds(CommitAdd(c, m), Tail(seq), Append(acc, CommitAddOK(c, m)))
AddSeqs(n) == UNION {[1..k -> [from : Validators, k : AddKinds]] : k \in 1..n}
EmptyQC == [vote |-> V1, g |-> TRUE, signers |-> {}, len |-> N, sig |-> TRUE]
AddCase(seq) ==
    LET r == RunAdds(EmptyQC, seq, <<>>)
    IN [kind |-> "add", seq |-> seq, res |-> r.res, final_signers |-> r.c.signers, final_valid |-> CommitQCValid(r.c)]
PrintAdds(n) == \A seq \in AddSeqs(n) : PrintT(<<"CASE", ToJson(AddCase(seq))>>)

(* ---- incremental assembly of a TIMEOUT certificate: every sequence of <= n adds, then completed by valid votes of everybody else ---- *)
TAddKinds == {"ok1", "ok2", "nonmember", "badsig", "view", "badcontent"}
TM1 == [view |-> 3, g |-> TRUE, hv |-> NoVote, hvg |-> TRUE, hq |-> NoCQC]
TM2 == [TM1 EXCEPT !.hv = V1, !.hq = NestedQC("none")]
TAddMsg(from, k) ==
    [from |-> IF k = "nonmember" THEN 0 ELSE from,
     msg |-> CASE k = "ok2" -> TM2 [] k = "view" -> [TM1 EXCEPT !.view = 4] [] k = "badcontent" -> [TM1 EXCEPT !.hv = V1, !.hvg = FALSE] [] OTHER -> TM1,
     sigok |-> k # "badsig"]
RECURSIVE RunTAdds(_, _, _)
RunTAdds(t, seq, acc) ==
    IF seq = <<>> THEN [t |-> t, res |-> acc]
    ELSE LET m == TAddMsg(seq[1].from, seq[1].k) IN RunTAdds(TimeoutAdd(t, m), Tail(seq), Append(acc, TimeoutAddOK(t, m)))
EmptyTQC == [view |-> 3, g |-> TRUE, groups |-> <<>>, sig |-> TRUE]
RECURSIVE Complete(_, _)
Complete(t, vs) == IF vs = {} THEN t ELSE LET v == CHOOSE x \in vs : \A y \in vs : x <= y IN Complete(TimeoutAdd(t, TAddMsg(v, "ok1")), vs \ {v})
TAddSeqs(n) == UNION {[1..k -> [from : Validators, k : TAddKinds]] : k \in 1..n}
TAddCase(seq) ==
    LET r == RunTAdds(EmptyTQC, seq, <<>>)
        fin == Complete(r.t, Validators \ GroupSigners(r.t))
    IN [kind |-> "tadd", seq |-> seq, res |-> r.res, signers |-> GroupSigners(r.t), ngroups |-> Len(r.t.groups),
        final_groups |-> Len(fin.groups), final_valid |-> TimeoutQCValid(fin)]
PrintTAdds(n) == \A seq \in TAddSeqs(n) : PrintT(<<"CASE", ToJson(TAddCase(seq))>>)

ASSUME Mode = "tadd2" => PrintTAdds(2)
ASSUME Mode = "tadd3" => PrintTAdds(3)
ASSUME Mode = "cqc" => PrintCQC
ASSUME Mode = "tqc" => PrintTQC
ASSUME Mode = "tqc3" => PrintTQC3
ASSUME Mode = "add3" => PrintAdds(3)
ASSUME Mode = "add2" => PrintAdds(2)
VARIABLE x
Init == x = 0
Next == UNCHANGED x
=============================================================================

------------------------------ MODULE ChonkyBFT ------------------------------
(***************************************************************************)
(* System model: correct replicas (handlers of Replica.tla), durable state *)
(* and crash/restart, the proposer task, block sync, an unreliable network *)
(* (loss, duplication, reordering, partition = any message of `net` may be *)
(* received any number of times or never) and Byzantine validators, whose  *)
(* messages are SYNTHESISED AT RECEIVE TIME from what is formable: any     *)
(* vote signed by a faulty key, any certificate assembled from signatures  *)
(* correct replicas have made visible plus arbitrary faulty signatures.    *)
(* Forging a correct replica's signature is impossible (assumption).       *)
(*                                                                         *)
(* Vote collection is abstracted: instead of delivering commit / timeout   *)
(* votes one by one into the replica's caches (that level is ReplicaIO /   *)
(* TraceChonky), a replica may receive any FORMABLE certificate as a       *)
(* justification (RecvJust) - the union of "it assembled the certificate   *)
(* itself" (commit.rs:143-181, timeout.rs:143-166) and "it received a      *)
(* new-view carrying it" (new_view.rs:99-116), which have the same effect. *)
(* This over-approximates reachability (sound for safety).                 *)
(*                                                                         *)
(* One handler = one atomic step (persist included); the messages it emits *)
(* become visible in the same step, or - crash variants - only the first k *)
(* of them do and the replica restarts from the durable state.             *)
(***************************************************************************)
EXTENDS Replica, TLC

CONSTANTS
    Correct, Faulty,    \* partition of Validators
    Payloads,           \* payloads a proposer / Byzantine leader may choose
    HonestPayloads(_),  \* payloads a correct proposer may choose in a given view (the application's choice; MC wrappers narrow it)
    EnableLeaderNV,     \* BOOLEAN: explore the leader's same-view new-view (adoption without view change); multiplies states ~30x
    ViewCap             \* model-checking bound: messages for views above it are never delivered (MC wrapper sets it)

ASSUME Correct \cup Faulty = Validators /\ Correct \cap Faulty = {}

VARIABLES
    rs,       \* [Correct -> replica state]          volatile
    store,    \* [Correct -> Seq(payload)]           durable chain of persisted blocks
    dur,      \* [Correct -> Dur]                    last applied set_state
    watch,    \* [Correct -> justification]          proposer watch (NoJust = nothing new)
    net,      \* set of messages made visible by correct replicas (never shrinks)
    ncrash,   \* number of crashes so far (bounded by the MC wrapper only)
    dbv,      \* ghost, always TRUE unless a message became visible that the durable state does not record
    lastAct   \* ghost (VIEW-hidden): the environment action just taken, for exporting schedules (T4/T2)
vars == <<rs, store, dur, watch, net, ncrash, dbv, lastAct>>

(***************************************************************************)
(* What Byzantine validators can make correct replicas receive.            *)
(***************************************************************************)
CommitVotes == {m.vote : m \in {x \in net : x.t = "commit"}}
CommitSigners(v) == {m.from : m \in {x \in net : x.t = "commit" /\ x.vote = v}}
Certifiable(v) == WeightOf(CommitSigners(v) \cup Faulty) >= QuorumW
QCs == {v \in CommitVotes : Certifiable(v)}      \* a quorum always contains a correct signer (Q > f)

TimeoutViews == {m.view : m \in {x \in net : x.t = "timeout"}}
(* Reports (high vote, high certificate) signer s can contribute to a timeout certificate for view vw. *)
(* A faulty signer's high vote matters only through the header it supports, and a header that no      *)
(* correct signer reports cannot reach the sub-quorum (2f < n-3f), so its repertoire is: nothing, or   *)
(* any header some correct replica reports, with any formable certificate.                             *)
CorrectReports(vw) == {[s |-> m.from, view |-> vw, hv |-> m.hv, hq |-> m.hq] :
                           m \in {x \in net : x.t = "timeout" /\ x.view = vw}}
ReportsOf(s, vw, cr, qcs) ==
    IF s \in Correct THEN {e \in cr : e.s = s}
    ELSE {[s |-> s, view |-> vw, hv |-> h, hq |-> q] :
              h \in {NoVote} \cup {e.hv : e \in cr}, q \in {NoVote} \cup qcs}
RECURSIVE DProd(_, _, _, _)
DProd(S, vw, cr, qcs) ==
    IF S = {} THEN {{}}
    ELSE LET s == CHOOSE x \in S : TRUE
         IN {g \cup {e} : g \in DProd(S \ {s}, vw, cr, qcs), e \in ReportsOf(s, vw, cr, qcs)}
Quorums == {S \in SUBSET Validators : WeightOf(S) >= QuorumW}
MinQuorums == {S \in Quorums : \A x \in S : WeightOf(S \ {x}) < QuorumW}
(* Derived content of every timeout certificate formable for view vw. Supersets of a quorum only add  *)
(* reports, which is covered by enumerating all quorums.                                              *)
TQCs(vw, qcs) ==
    LET cr == CorrectReports(vw)
        have == {s \in Validators : s \in Faulty \/ \E e \in cr : e.s = s}
    IN UNION {{DeriveTQ(vw, g) : g \in DProd(S, vw, cr, qcs)} : S \in {T \in Quorums : T \subseteq have}}
(* Weaken = "tqc_stale_votes": certificate verification no longer requires the aggregated timeout votes to be  *)
(* for the certificate's own view, so a certificate formable for an EARLIER view can be relabelled as one for   *)
(* any later view (replica_timeout.rs: `msg.view != self.view`).                                                 *)
StaleTQCs(qcs) ==
    IF Weaken # "tqc_stale_votes" THEN {}
    ELSE UNION {{[t EXCEPT !.view = vw] : t \in TQCs(ov, qcs)} : <<ov, vw>> \in {p \in TimeoutViews \X (0..ViewCap) : p[1] < p[2]}}
Justs ==
    LET qcs == QCs
    IN {CJ(q) : q \in qcs} \cup UNION {{TJ(t) : t \in TQCs(vw, qcs)} : vw \in TimeoutViews} \cup {TJ(t) : t \in StaleTQCs(qcs)}

(***************************************************************************)
(* Applying a handler result at replica r.                                 *)
(*   k = -1 : the handler completes; everything it emitted becomes visible *)
(*   k >= 0 : the process is killed after the first k messages left the    *)
(*            node; it restarts from the durable state and boots.          *)
(***************************************************************************)
(* New-view messages are not kept in `net`: their only use is to carry a certificate, and every formable  *)
(* certificate is receivable anyway (RecvJust / RecvLeaderNV), so recording them adds states, not behaviour. *)
Prefix(s, k) == {s[i] : i \in {x \in 1..k : s[x].t # "newview"}}
(* The watch value matters only to the leader of the view it justifies (proposer.rs:27-30). *)
WatchFor(r, j) == IF j # NoJust /\ Leader(JView(j)) = r THEN j ELSE NoJust
Apply(r, res, k, act) ==
    LET d1 == IF res.persist /\ Weaken # "send_before_persist" THEN Dur(res.prs) ELSE dur[r]
        d1full == IF res.persist THEN Dur(res.prs) ELSE dur[r]
    IN IF k = -1
       THEN /\ rs' = [rs EXCEPT ![r] = res.rs]
            /\ store' = [store EXCEPT ![r] = res.store]
            /\ dur' = [dur EXCEPT ![r] = d1full]
            /\ watch' = [watch EXCEPT ![r] = IF res.watch # NoJust THEN WatchFor(r, res.watch) ELSE watch[r]]
            /\ net' = net \cup Prefix(res.out, Len(res.out))
            /\ dbv' = (dbv /\ \A i \in 1..Len(res.out) : Recorded(d1full, res.out[i]))
            /\ UNCHANGED ncrash
            /\ lastAct' = act
       ELSE LET b == OnBoot(r, Restart(d1), res.store)
            IN /\ k \in 0..Len(res.out)
               /\ rs' = [rs EXCEPT ![r] = b.rs]
               /\ store' = [store EXCEPT ![r] = b.store]
               /\ dur' = [dur EXCEPT ![r] = IF b.persist THEN Dur(b.rs) ELSE d1]
               /\ watch' = [watch EXCEPT ![r] = NoJust]
               /\ net' = net \cup Prefix(res.out, k) \cup Prefix(b.out, Len(b.out))
               /\ dbv' = (dbv /\ \A i \in 1..k : Recorded(d1, res.out[i]))
               /\ ncrash' = ncrash + 1
               /\ lastAct' = [act EXCEPT !.crash = k]

Act(name, r, m) == [a |-> name, r |-> r, m |-> m, crash |-> -1]
NoMsg == [t |-> "none"]

Init ==
    LET b(r) == OnBoot(r, InitRS, <<>>)
    IN /\ rs = [r \in Correct |-> b(r).rs]
       /\ store = [r \in Correct |-> <<>>]
       /\ dur = [r \in Correct |-> IF b(r).persist THEN Dur(b(r).rs) ELSE InitDur]
       /\ watch = [r \in Correct |-> NoJust]
       /\ net = UNION {Prefix(b(r).out, Len(b(r).out)) : r \in Correct}
       /\ ncrash = 0
       /\ dbv = TRUE
       /\ lastAct = Act("init", 0, NoMsg)

(* Bootstrapped initial state (like init_view_1 of spec/protocol-spec/replica.qnt): every correct replica  *)
(* has timed out in view 0, received the timeout certificate and started view 1.                          *)
InitView1 ==
    LET t0 == [view |-> 0, hvh |-> NoHdr, hq |-> NoVote]
        r1 == [InitRS EXCEPT !.view = 1, !.phase = "prepare", !.htq = t0]
    IN /\ rs = [r \in Correct |-> r1]
       /\ store = [r \in Correct |-> <<>>]
       /\ dur = [r \in Correct |-> Dur(r1)]
       /\ watch = [r \in Correct |-> WatchFor(r, TJ(t0))]
       /\ net = {TimeoutMsg(r, 0, NoVote, NoVote) : r \in Correct}
       /\ ncrash = 0
       /\ dbv = TRUE
       /\ lastAct = Act("init", 0, NoMsg)

(* Proposals a replica can receive: sent by a correct leader, or anything a faulty leader can build. *)
ByzProposals(J) ==
    {ProposalMsg(Leader(JView(j)), j, p) : j \in {x \in J : Leader(JView(x)) \in Faulty}, p \in Payloads \cup {"none"}}
    \cup (IF Weaken = "no_leader_check"     \* only then does a proposal by a non-leader matter
          THEN {ProposalMsg(b, j, p) : b \in Faulty, j \in J, p \in Payloads \cup {"none"}} ELSE {})

MsgView(m) == IF m.t \in {"proposal", "newview"} THEN JView(m.j) ELSE IF m.t = "commit" THEN m.vote.view ELSE m.view
Step(r, m, k, name) ==
    /\ MsgView(m) <= ViewCap
    /\ ~Blocked(rs[r], store[r], m)
    /\ LET res == Handle(r, rs[r], store[r], m)
       IN res.ok /\ Apply(r, res, k, Act(name, r, m))

RecvProposal(r, J, k) ==
    \E m \in {x \in net : x.t = "proposal"} \cup ByzProposals(J) : Step(r, m, k, "proposal")

(* A formable certificate for a view >= the replica's, assembled locally or carried by any new-view. *)
RecvJust(r, J, k) ==
    \E j \in {x \in J : JView(x) > rs[r].view} : Step(r, NewViewMsg(r, j), k, "just")

(* The leader's new-view for the current view (certificates adopted, nothing else). *)
RecvLeaderNV(r, J) ==
    LET l == Leader(rs[r].view)
    IN EnableLeaderNV /\ \E j \in {x \in J : JView(x) = rs[r].view} :
          /\ Step(r, NewViewMsg(l, j), -1, "leadernv")

Timer(r, k) == Apply(r, OnTimer(r, rs[r], store[r]), k, Act("timer", r, NoMsg))

Propose(r) ==
    /\ CanPropose(r, store[r], watch[r])
    /\ \E p \in (IF Implied(watch[r]).pay # "none" THEN {"none"} ELSE HonestPayloads(JView(watch[r]))) :
          /\ net' = net \cup {Proposal(r, watch[r], p)}
          /\ lastAct' = Act("propose", r, Proposal(r, watch[r], p))
    /\ watch' = [watch EXCEPT ![r] = NoJust]
    /\ UNCHANGED <<rs, store, dur, ncrash, dbv>>

(* The proposer gives up (create_proposal timed out waiting for the previous block) or is not the leader. *)
ProposerSkip(r) ==
    /\ watch[r] # NoJust
    /\ watch' = [watch EXCEPT ![r] = NoJust]
    /\ lastAct' = Act("proposerskip", r, NoMsg)
    /\ UNCHANGED <<rs, store, dur, net, ncrash, dbv>>

(* Block sync: the next block, fetched from anyone; EngineManager::queue_block admits only blocks    *)
(* carrying a valid certificate (manager.rs:183-214), so Byzantine peers can supply exactly QCs.     *)
Sync(r) ==
    /\ \E v \in (IF Weaken = "accept_unverified_block_in_sync"
                 THEN {[view |-> 0, num |-> Len(store[r]), pay |-> p] : p \in Payloads}
                 ELSE {q \in QCs : q.num = Len(store[r]) + FirstBlock}) :
          /\ store' = [store EXCEPT ![r] = Append(store[r], v.pay)]
          /\ lastAct' = Act("sync", r, [t |-> "block", num |-> v.num, pay |-> v.pay])
    /\ UNCHANGED <<rs, dur, watch, net, ncrash, dbv>>

(* The process is killed between handlers. *)
Crash(r) ==
    LET b == OnBoot(r, Restart(dur[r]), store[r])
    IN /\ rs' = [rs EXCEPT ![r] = b.rs]
       /\ dur' = [dur EXCEPT ![r] = IF b.persist THEN Dur(b.rs) ELSE dur[r]]
       /\ watch' = [watch EXCEPT ![r] = NoJust]
       /\ net' = net \cup Prefix(b.out, Len(b.out))
       /\ ncrash' = ncrash + 1
       /\ lastAct' = Act("crash", r, NoMsg)
       /\ UNCHANGED <<store, dbv>>

NextNoCrash ==
    LET J == Justs IN
    \E r \in Correct :
        \/ RecvProposal(r, J, -1)
        \/ RecvJust(r, J, -1)
        \/ RecvLeaderNV(r, J)
        \/ Timer(r, -1)
        \/ Propose(r)
        \/ Sync(r)

NextCrash ==
    LET J == Justs IN
    \E r \in Correct :
        \/ \E k \in 0..2 : RecvProposal(r, J, k) \/ RecvJust(r, J, k) \/ Timer(r, k)
        \/ Crash(r)

Next == NextNoCrash \/ NextCrash
Spec == Init /\ [][Next]_vars

(***************************************************************************)
(* Properties.                                                             *)
(***************************************************************************)
(* C01 *)
Agreement ==
    \A r1, r2 \in Correct : \A i \in 1..Len(store[r1]) : i <= Len(store[r2]) => store[r1][i] = store[r2][i]
IsPrefixOf(s, t) == Len(s) <= Len(t) /\ \A i \in 1..Len(s) : s[i] = t[i]
StoreAppendOnly == [][\A r \in Correct : IsPrefixOf(store[r], store'[r])]_vars

(* C02: per block number at most one payload is ever certifiable. *)
CertUnique == \A v1, v2 \in QCs : v1.num = v2.num => v1.pay = v2.pay

(* C03 *)
CommitsOf(r) == {m \in net : m.t = "commit" /\ m.from = r}
TimeoutsOf(r) == {m \in net : m.t = "timeout" /\ m.from = r}
NoCommitEquivocation ==
    \A r \in Correct : \A m1, m2 \in CommitsOf(r) : m1.vote.view = m2.vote.view => m1 = m2
VoteView(m) == IF m.t = "commit" THEN m.vote.view ELSE m.view
IsVote(m) == m.t \in {"commit", "timeout"}
(* every vote that becomes visible is for a view >= every view already voted in, and a commit vote is *)
(* for a view strictly above every view already timed out in                                        *)
SignedViewsMonotone ==
    [][\A m \in net' \ net : IsVote(m) =>
          /\ \A o \in {x \in net : IsVote(x) /\ x.from = m.from} : VoteView(o) <= VoteView(m)
          /\ m.t = "commit" => \A o \in TimeoutsOf(m.from) : o.view < m.vote.view]_vars
DurableBeforeVisible == dbv

(* C05 *)
Monotone ==
    [][ncrash' = ncrash => \A r \in Correct :
          /\ rs[r].view <= rs'[r].view
          /\ rs[r].hcq.view <= rs'[r].hcq.view
          /\ rs[r].htq.view <= rs'[r].htq.view]_vars
(* a replica is in view v > 0 only if it holds a certificate for v-1 (or higher) *)
ViewJustified ==
    \A r \in Correct : rs[r].view > 0 => (rs[r].hcq.view >= rs[r].view - 1 \/ rs[r].htq.view >= rs[r].view - 1)
(* T4 target for liveness weakenings (must be violated on a weakened spec, never checked on the faithful one as a property of  *)
(* the design): one replica is ahead of every other correct replica WITHOUT holding the certificate of the previous view, and  *)
(* no other correct replica holds it either - retransmission cannot bring the others up and it cannot go back.                 *)
Unjust(r) == rs[r].view > 0 /\ ~(rs[r].hcq.view >= rs[r].view - 1 \/ rs[r].htq.view >= rs[r].view - 1)
NoStuckCandidate ==
    ~\E r \in Correct : /\ Unjust(r)
                        /\ \A r2 \in Correct \ {r} : /\ rs[r2].view < rs[r].view
                                                      /\ rs[r2].hcq.view < rs[r].view - 1 /\ rs[r2].htq.view < rs[r].view - 1
(* certificates held are formable from what was signed: quorum-backed *)
HeldCertsBacked ==
    \A r \in Correct : rs[r].hcq # NoVote => Certifiable(rs[r].hcq)
(* every new-view / proposal made visible by a correct replica carries a formable certificate *)
SelfJustifying ==
    \A m \in net : m.t = "proposal" => (m.j.k = "c" => Certifiable(m.j.cq))

TypeOK ==
    /\ \A r \in Correct : rs[r].phase \in {"prepare", "commit", "timeout"} /\ rs[r].view >= 0
    /\ \A r \in Correct : dur[r].view <= rs[r].view

(* "Example" predicates: must be VIOLATED in the exhaustive configs (non-vacuity, DESIGN §5.1). *)
NoBlockCommitted == \A r \in Correct : Len(store[r]) = 0
NoTwoBlocks == \A r \in Correct : Len(store[r]) < 2
NoReproposal == \A m \in net : m.t = "proposal" => Implied(m.j).pay = "none"
NoCrashLosingMessages == ncrash = 0
NoTwoBlocksAfterCrash == ncrash = 0 \/ \A r \in Correct : Len(store[r]) < 2
=============================================================================

----------------------------- MODULE MC_Quorum -----------------------------
EXTENDS Quorum, TLC, Json, Integers, Sequences
CONSTANT MaxN
ASSUME AllGood == \A n \in 1..MaxN : Good(n) /\ Bounded(n)
ASSUME Unique == \A n \in 1..MaxN : \A f \in 0..n : (5 * f + 1 <= n /\ n < 5 * f + 6) => f = FaultyOf(n)
\* T3 case table: n |-> (f, q, s) as computed by the specification
ASSUME Table == \A n \in 1..MaxN : PrintT(<<"CASE", ToJson([n |-> n, f |-> FaultyOf(n), q |-> QuorumOf(n), s |-> SubQuorumOf(n)])>>)
(* Committees (schedule.rs:26-75): a committee is acceptable iff the total weight of ALL its members - leader-eligible or not -   *)
(* is representable; then n is that total and the thresholds are those of n. Weights are in units of Cap-ths of the largest         *)
(* representable weight (the replay scales a unit to floor((2^64-1)/Cap)), so "representable" is `Sum <= Cap`.                    *)
Cap == 6
RECURSIVE SumSeq(_)
SumSeq(w) == IF w = <<>> THEN 0 ELSE Head(w) + SumSeq(Tail(w))
Committees == UNION {[1..k -> [w : 1..Cap, leader : BOOLEAN]] : k \in 1..3}
Total(c) == SumSeq([i \in 1..Len(c) |-> c[i].w])
ASSUME Committee == \A c \in {x \in Committees : \E i \in 1..Len(x) : x[i].leader} :
    PrintT(<<"CASE", ToJson([kind |-> "committee", members |-> c, cap |-> Cap, ok |-> Total(c) <= Cap, units |-> Total(c)])>>)
VARIABLE x
Init == x = 0
Next == UNCHANGED x
=============================================================================

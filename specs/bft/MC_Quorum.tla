----------------------------- MODULE MC_Quorum -----------------------------
EXTENDS Quorum, TLC, Json, Integers
CONSTANT MaxN
ASSUME AllGood == \A n \in 1..MaxN : Good(n) /\ Bounded(n)
ASSUME Unique == \A n \in 1..MaxN : \A f \in 0..n : (5 * f + 1 <= n /\ n < 5 * f + 6) => f = FaultyOf(n)
\* T3 case table: n |-> (f, q, s) as computed by the specification
ASSUME Table == \A n \in 1..MaxN : PrintT(<<"CASE", ToJson([n |-> n, f |-> FaultyOf(n), q |-> QuorumOf(n), s |-> SubQuorumOf(n)])>>)
VARIABLE x
Init == x = 0
Next == UNCHANGED x
=============================================================================

CONSTANTS
  Validators = {1,2,3,4,5,6}
  Weight <- W111111
  Correct = {1,2,3,4,5}
  Faulty = {6}
  Payloads = {"p","q"}
  BadPayloads = {}
  Weaken = "high_vote_tally_by_view"
  MaxView = 4
  ViewCap = 4
  HonestPayloads <- Alternating
  EnableLeaderNV = FALSE
  MaxCrash = 0
  MaxBlocks = 2
INIT InitView1
NEXT NextMC
CONSTRAINT Bound
INVARIANTS Agreement

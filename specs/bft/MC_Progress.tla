---------------------------- MODULE MC_Progress ----------------------------
(***************************************************************************)
(* C06 on the model: the good period. Messages are delivered (every        *)
(* receive action stays enabled until taken), Byzantine validators are      *)
(* silent, nobody crashes, and a replica's timer fires only when nothing    *)
(* else is enabled for it ("timeouts exceed message delay"). Under weak     *)
(* fairness of the correct replicas' actions every correct replica stores   *)
(* a new block: Progress. The start states are the real initial state       *)
(* (view 0: exercises the bootstrap) and the view-1 bootstrap; adversarial  *)
(* prefixes are covered on the real code by T5 after every recorded prefix. *)
(***************************************************************************)
EXTENDS ChonkyBFT
CONSTANTS MaxView, Target

MCView == <<rs, store, dur, watch, net, ncrash, dbv>>
Bound == \A r \in Correct : rs[r].view <= MaxView

(* messages from correct senders only (Byzantine validators silent): proposals in net, certificates formable *)
(* WITHOUT faulty signatures                                                                                *)
HonestCertifiable(v) == WeightOf(CommitSigners(v)) >= QuorumW
HonestQCs == {v \in CommitVotes : HonestCertifiable(v)}
HonestTQCs(vw, qcs) ==
    LET cr == CorrectReports(vw)
        have == {s \in Correct : \E e \in cr : e.s = s}
    IN UNION {{DeriveTQ(vw, g) : g \in DProd(S, vw, cr, qcs)} : S \in {T \in Quorums : T \subseteq have}}
HonestJusts ==
    LET qcs == HonestQCs
    IN {CJ(q) : q \in qcs} \cup UNION {{TJ(t) : t \in HonestTQCs(vw, qcs)} : vw \in TimeoutViews}

RecvP(r) == \E m \in {x \in net : x.t = "proposal"} : Step(r, m, -1, "proposal")
RecvJ(r, J) == \E j \in {x \in J : JView(x) > rs[r].view} : Step(r, NewViewMsg(r, j), -1, "just")
SyncH(r) == \E v \in {q \in HonestQCs : q.num = Len(store[r])} :
                /\ store' = [store EXCEPT ![r] = Append(store[r], v.pay)]
                /\ lastAct' = Act("sync", r, NoMsg)
                /\ UNCHANGED <<rs, dur, watch, net, ncrash, dbv>>
Busy(r, J) == ENABLED RecvP(r) \/ ENABLED RecvJ(r, J) \/ ENABLED Propose(r) \/ ENABLED SyncH(r)

ReplicaG(r) ==
    LET J == HonestJusts IN
    \/ RecvP(r) \/ RecvJ(r, J) \/ Propose(r) \/ SyncH(r)
    \/ ((\A r2 \in Correct : ~Busy(r2, J)) /\ Timer(r, -1))
NextG == \E r \in Correct : ReplicaG(r)
SpecG == Init /\ [][NextG]_vars /\ \A r \in Correct : WF_vars(ReplicaG(r))
SpecG1 == InitView1 /\ [][NextG]_vars /\ \A r \in Correct : WF_vars(ReplicaG(r))

Progress == <>(\A r \in Correct : Len(store[r]) >= Target)
(* a good-period run never needs more than MaxView views to commit: the bound is not reached before the target *)
BoundedProgress == (\E r \in Correct : rs[r].view >= MaxView) => (\A r \in Correct : Len(store[r]) >= Target)

W3111 == <<3,1,1,1>>
W1111 == <<1,1,1,1>>
AnyPayload(v) == Payloads
=============================================================================

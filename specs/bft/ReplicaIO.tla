------------------------------ MODULE ReplicaIO ------------------------------
(***************************************************************************)
(* ONE replica (handlers of Replica.tla) against a maximally permissive     *)
(* environment: at any time it may receive any well-formed valid or invalid *)
(* message for a past, current or future view from the leader, a non-leader *)
(* or a non-member, its timer may fire, it may crash and restart from its   *)
(* durable state, and the next block may be supplied by block sync.         *)
(* Used for C05 (T2): behaviours of this specification are replayed on a    *)
(* real StateMachine whose peers are all played by the harness; every step  *)
(* of the recorded run is then validated by TraceChonky.tla.                *)
(* Every certificate named here is materialised with real signatures of the *)
(* other validators, so any derived content is constructible.               *)
(***************************************************************************)
EXTENDS Replica, TLC, Json, SequencesExt

CONSTANTS Self,          \* the replica under test
          MaxV,          \* views considered by the environment
          Pays,          \* payload names (besides "bad", which the application refuses)
          Depth          \* behaviours are printed when they reach this many steps

VARIABLES rs, store, dur, hist
vars == <<rs, store, dur, hist>>

Others == Validators \ {Self}
Near(v) == {x \in 0..MaxV : x + 1 >= v /\ x <= v + 1}       \* views around the replica's
Votes(vs) == [view : vs, num : 0..1, pay : Pays]
Hdrs == [num : 0..1, pay : Pays]
(* one commit certificate per view inside timeout votes / certificates: two DIFFERENT certificates of one view cannot exist   *)
(* while at most f validators are faulty (CertUnique), and the choice among them by TimeoutQC::high_qc is unspecified.       *)
CanonQC(v) == [view |-> v, num |-> v % 2, pay |-> CHOOSE p \in Pays : TRUE]
NestedQCs(vs) == {CanonQC(v) : v \in vs}
TQs(vs) == [view : vs, hvh : {NoHdr} \cup Hdrs, hq : {NoVote} \cup NestedQCs(vs)]
Justs(vs) == {CJ(q) : q \in Votes(vs)} \cup {TJ(t) : t \in TQs(vs)}
Inval == {"none", "sig"}

(* inv = "none": everything genuine; "sig": the message signature is forged; "weak": the carried certificate has less than a quorum *)
Commits(vs) == [t : {"commit"}, from : Others \cup {0}, vote : Votes(vs), inv : Inval]
Timeouts(vs) == [t : {"timeout"}, from : Others \cup {0}, view : vs, hv : {NoVote} \cup Votes(vs), hq : {NoVote} \cup NestedQCs(vs), inv : Inval]
(* senders of certificates: the leader of the relevant view and one other validator *)
Senders(v) == {Leader(v), CHOOSE x \in Others : x # Leader(v)} \ {Self}
NewViews(vs) == UNION {[t : {"newview"}, from : Senders(JView(j)), j : {j}, inv : Inval \cup {"weak"}] : j \in Justs(vs)}
Proposals(vs) == UNION {[t : {"proposal"}, from : Senders(JView(j)), j : {j}, p : {"none", "bad", "huge"} \cup Pays, inv : Inval] : j \in Justs(vs)}

WithValid(m) == [f \in (DOMAIN m) \cup {"valid"} |-> IF f = "valid" THEN m.inv = "none" ELSE m[f]]

Init == rs = InitRS /\ store = <<>> /\ dur = InitDur /\ hist = <<>>

Take(res, ev) ==
    /\ rs' = res.rs /\ store' = res.store
    /\ dur' = IF res.persist THEN Dur(res.rs) ELSE dur
    /\ hist' = Append(hist, ev)

Recv(m) ==
    LET mv == WithValid(m) IN
    /\ ~Blocked(rs, store, mv)
    /\ LET res == Handle(Self, rs, store, mv) IN Take(res, [a |-> "recv", m |-> m, ok |-> res.ok])

(* inputs the replica acts upon, and a small representative set of rejected ones (so that random walks go deep) *)
AllInputs == LET vs == Near(rs.view) IN Commits(vs) \cup Timeouts(vs) \cup NewViews(vs) \cup Proposals(vs)
Accepted(m) == ~Blocked(rs, store, WithValid(m)) /\ Handle(Self, rs, store, WithValid(m)).ok
(* one random accepted input per step (TLC's RandomElement): otherwise the hundreds of accepted inputs would crowd out *)
(* the timer, crash and sync actions in random walks, which choose uniformly among successor states               *)
RecvAccepted == LET acc == {x \in AllInputs : Accepted(x)} IN acc # {} /\ Recv(RandomElement(acc))
RecvRejected ==
    LET vs == Near(rs.view)
        pick(S) == IF S = {} THEN {} ELSE {CHOOSE x \in S : TRUE}
        rej(S) == {x \in S : ~Accepted(x)}
        cands ==  pick(rej({x \in Commits(vs) : x.inv = "sig"})) \cup pick(rej({x \in Commits(vs) : x.from = 0 /\ x.inv = "none"}))
            \cup pick(rej({x \in Commits(vs) : x.inv = "none" /\ x.from # 0}))
            \cup pick(rej({x \in Timeouts(vs) : x.inv = "none" /\ x.from # 0})) \cup pick(rej({x \in Timeouts(vs) : x.inv = "sig"}))
            \cup pick(rej({x \in NewViews(vs) : x.inv = "weak"})) \cup pick(rej({x \in NewViews(vs) : x.inv = "none"}))
            \cup pick(rej({x \in Proposals(vs) : x.inv = "none" /\ x.p = "bad"})) \cup pick(rej({x \in Proposals(vs) : x.inv = "none" /\ x.p \notin {"bad", "huge"}}))
            \cup (LET good == CHOOSE q \in Pays : TRUE     \* refused ONLY because of the payload: the same proposal with a good payload is accepted
                      big == {x \in Proposals(vs) : x.inv = "none" /\ x.p \in {"huge", "bad"} /\ Accepted([x EXCEPT !.p = good])}
                  IN IF big = {} THEN {} ELSE {RandomElement(big)})
            \cup pick(rej({x \in Proposals(vs) : x.inv = "sig"}))
    IN cands # {} /\ Recv(RandomElement(cands))

(* BURSTS: the votes of ALL other validators for one view, delivered one after the other (several handler steps composed into    *)
(* one environment action, each recorded in hist). A lagging replica thereby assembles a certificate LOCALLY - also for a view    *)
(* ahead of its own (commit.rs / timeout.rs: start_new_view(message.view.next())), which single random deliveries hardly reach.   *)
OthersSeq == SetToSeq(Others)
StepOne(st, m) ==
    LET mv == WithValid(m) IN
    IF Blocked(st.rs, st.store, mv) THEN st
    ELSE LET res == Handle(Self, st.rs, st.store, mv)
         IN [rs |-> res.rs, store |-> res.store, dur |-> IF res.persist THEN Dur(res.rs) ELSE st.dur,
             hist |-> Append(st.hist, [a |-> "recv", m |-> m, ok |-> res.ok])]
RECURSIVE FoldSteps(_, _)
FoldSteps(st, ms) == IF ms = <<>> THEN st ELSE FoldSteps(StepOne(st, Head(ms)), Tail(ms))
TakeBurst(ms) ==
    LET st == FoldSteps([rs |-> rs, store |-> store, dur |-> dur, hist |-> hist], ms)
    IN rs' = st.rs /\ store' = st.store /\ dur' = st.dur /\ hist' = st.hist
(* The burst's view and reports are a function of the state (TLC re-evaluates RandomElement at every use inside a LET, which would   *)
(* give every message of the burst a different view): they vary with the length of the history.                                     *)
Pick(S, k) == LET q == SetToSeq(S) IN q[(k % Len(q)) + 1]
BurstView == IF Len(hist) % 2 = 1 /\ rs.view + 1 <= MaxV THEN rs.view + 1 ELSE rs.view
TimeoutBurst ==
    /\ BurstView <= MaxV
    /\ LET w == BurstView
           lower == {x \in 0..MaxV : x < w /\ x + 2 >= w}
           hv == Pick({NoVote} \cup Votes(lower), Len(hist) \div 2)
           hq == Pick({NoVote} \cup NestedQCs(lower), Len(hist) \div 3)
       IN TakeBurst([i \in 1..Len(OthersSeq) |-> [t |-> "timeout", from |-> OthersSeq[i], view |-> w, hv |-> hv, hq |-> hq, inv |-> "none"]])
CommitBurst ==
    /\ BurstView <= MaxV
    /\ LET v == Pick(Votes({BurstView}), Len(hist) \div 2)
       IN TakeBurst([i \in 1..Len(OthersSeq) |-> [t |-> "commit", from |-> OthersSeq[i], vote |-> v, inv |-> "none"]])

Timer == Take(OnTimer(Self, rs, store), [a |-> "timer"])
Crash == LET b == OnBoot(Self, Restart(dur), store)
         IN /\ rs' = b.rs /\ store' = b.store /\ dur' = IF b.persist THEN Dur(b.rs) ELSE dur
            /\ hist' = Append(hist, [a |-> "crash"])
Sync == \E p \in Pays : store' = Append(store, p) /\ hist' = Append(hist, [a |-> "sync", pay |-> p, num |-> Len(store)]) /\ UNCHANGED <<rs, dur>>

Next == /\ Len(hist) < Depth
        /\ (RecvAccepted \/ RecvRejected \/ Timer \/ Crash \/ (Len(store) < 2 /\ Sync) \/ TimeoutBurst \/ CommitBurst)
Spec == Init /\ [][Next]_vars

(* printed once per behaviour that reaches the depth *)
Done == Len(hist) >= Depth => PrintT(<<"BEHAVIOUR", ToJson(hist)>>)

(* single-replica properties (C05) *)
Monotone == [][(hist' = <<>> \/ hist'[Len(hist')].a # "crash") => (rs.view <= rs'.view /\ rs.hcq.view <= rs'.hcq.view /\ rs.htq.view <= rs'.htq.view)]_vars
ViewJustified == rs.view > 0 => (rs.hcq.view >= rs.view - 1 \/ rs.htq.view >= rs.view - 1)
W111111 == <<1,1,1,1,1,1>>
=============================================================================

----------------------------- MODULE MC_Leader -----------------------------
EXTENDS Leader, TLC, Json
CONSTANTS MaxLen, MaxW, MaxFreq, MaxView
Scheds == UNION {[1..n -> [w : 1..MaxW, l : BOOLEAN]] : n \in 1..MaxLen}
Valid == {s \in Scheds : ValidSchedule(s)}

ASSUME SpecProps == \A s \in Valid :
    /\ \A freq \in 0..MaxFreq, view \in 0..MaxView : RRTotalEligible(s, view, freq) /\ RRRotation(s, view, freq)
    /\ \A e \in 0..(LeaderWeight(s) - 1) : WTotalEligible(s, e)
    /\ WShare(s)

\* T3 case table. One line per schedule: round-robin answers for every (freq, view) and the weighted
\* answer for every residue. Indices are 1-based positions in key order.
ASSUME Table == \A s \in Valid : PrintT(<<"CASE", ToJson([
      sched |-> s,
      lw |-> LeaderWeight(s),
      rr |-> [f \in 0..MaxFreq |-> [v \in 0..MaxView |-> RoundRobin(s, Turn(v, f))]],
      wt |-> [e \in 0..(LeaderWeight(s) - 1) |-> WeightedWalk(s, e)]])>>)
VARIABLE x
Init == x = 0
Next == UNCHANGED x
=============================================================================

----------------------------- MODULE MC_Guided -----------------------------
(***************************************************************************)
(* Directed schedules (T4) for attacks that are out of reach of an          *)
(* unguided search: a hand-written SCRIPT fixes, step by step, which        *)
(* environment action happens at which replica; everything else (which      *)
(* formable certificate or proposal the replica receives) stays             *)
(* nondeterministic. TLC checks that the script is a behaviour of the       *)
(* (weakened) specification and searches the remaining choices for a        *)
(* violation of the target invariant; the counterexample is exported like   *)
(* every other attack schedule.                                             *)
(*                                                                         *)
(* StaleHighVoteU6: six equal validators (f = 1, quorum 5, sub-quorum 3),   *)
(* nobody Byzantine, only message loss. View 1: p reaches 1,2,3 (they       *)
(* vote); 4,5,6,1,2 time out -> the timeout certificate shows p with weight *)
(* 2 < 3 -> view 2: a fresh q is proposed and voted by 1..5; only 5 sees    *)
(* the commit certificate and finalises q. 1,2,3,4,6 time out. A replica    *)
(* whose high vote is NOT replaced by its newer vote for the same block     *)
(* number (Weaken = "high_vote_keeps_older_same_number") still reports p    *)
(* -> p has weight 3 -> view 3 re-proposes p -> replica 1 finalises p.      *)
(***************************************************************************)
EXTENDS MC_Chonky
VARIABLE step
S(a, r) == [a |-> a, r |-> r]
Each(a, rr) == [i \in 1..Len(rr) |-> S(a, rr[i])]
StaleHighVoteU6 ==
    <<S("propose", 2)>> \o Each("proposal", <<1, 2, 3>>) \o Each("timer", <<4, 5, 6, 1, 2>>) \o Each("just", <<1, 2, 3, 4, 5, 6>>)
    \o <<S("propose", 3)>> \o Each("proposal", <<1, 2, 3, 4, 5>>) \o <<S("just", 5)>> \o Each("timer", <<1, 2, 3, 4, 6>>)
    \o Each("just", <<1, 2, 3, 4, 6>>) \o <<S("propose", 4)>> \o Each("proposal", <<1, 2, 3, 4, 6>>) \o <<S("just", 1)>>
(* SplitTallyU6: six equal validators, 6 Byzantine (it only lends its signature to certificates). View 1: p is voted by 1,2,3,4 (+6): *)
(* replica 1 sees the commit certificate and finalises p. 2,3,4,5 time out (p has weight 3): view 2 re-proposes p, but the         *)
(* re-proposal reaches only 2 and 3. 2,3,4,5 time out again: their high votes are p@2, p@2, p@1, none. A tally keyed by            *)
(* (view, header) instead of the header (Weaken = "high_vote_tally_by_view") sees weights 2 and 1, no sub-quorum, so view 3 may    *)
(* propose a fresh q, which 2,3,4,5 (+6) certify: replica 2 finalises q.                                                           *)
SplitTallyU6 ==
    <<S("propose", 2)>> \o Each("proposal", <<1, 2, 3, 4>>) \o <<S("just", 1)>> \o Each("timer", <<2, 3, 4, 5>>) \o Each("just", <<2, 3, 4, 5>>)
    \o <<S("propose", 3)>> \o Each("proposal", <<2, 3>>) \o Each("timer", <<2, 3, 4, 5>>) \o Each("just", <<2, 3, 4, 5>>)
    \o <<S("propose", 4)>> \o Each("proposal", <<2, 3, 4, 5>>) \o <<S("just", 2)>>
(* SecondTimeoutQCU6: six equal validators, 3 Byzantine. View 1: p (block 0) is voted by 1,2,4,5 (+3): replica 1 sees the commit certificate *)
(* and finalises p; 6 never saw the proposal. 2,4,5,6 (+3) time out: the certificate they assemble shows p with weight 3 and NO commit       *)
(* certificate. Replica 2 fetches block 0. The Byzantine leader of view 2 sends replica 2 a proposal for block 1 justified by a SECOND        *)
(* timeout certificate for view 1 - same votes, but 3's report now carries the commit certificate for p. A replica that skips the nested      *)
(* commit certificate of a timeout certificate that is not newer than the one it holds (Weaken = "tqc_same_view_skips_cqc") votes for block 1 *)
(* without recording that block 0 is final. View 2 times out: high votes p (4, 5), block 1 (2), none (6, 3) - no sub-quorum, no commit          *)
(* certificate: view 3 proposes a fresh q for block 0, which 2,4,5,6 (+3) certify: replica 4 finalises q.                                       *)
SecondTimeoutQCU6 ==
    <<S("propose", 2)>> \o Each("proposal", <<1, 2, 4, 5>>) \o <<S("just", 1)>> \o Each("timer", <<2, 4, 5, 6>>) \o Each("just", <<2, 4, 5, 6>>)
    \o <<S("sync", 2), S("proposal", 2)>> \o Each("timer", <<2, 4, 5, 6>>) \o Each("just", <<2, 4, 5, 6>>)
    \o <<S("propose", 4)>> \o Each("proposal", <<2, 4, 5, 6>>) \o <<S("just", 4)>>
CONSTANT Script

GInit == InitView1 /\ step = 1
GNext ==
    /\ step <= Len(Script)
    /\ step' = step + 1
    /\ LET s == Script[step]
           J == Justs
       IN \/ s.a = "propose" /\ Propose(s.r)
          \/ s.a = "proposal" /\ RecvProposal(s.r, J, -1)
          \/ s.a = "just" /\ RecvJust(s.r, J, -1)
          \/ s.a = "timer" /\ Timer(s.r, -1)
          \/ s.a = "sync" /\ Sync(s.r)
GView == <<MCView, step>>
=============================================================================

------------------------------- MODULE Quorum -------------------------------
(***************************************************************************)
(* Threshold arithmetic of ChonkyBFT (property C07).                       *)
(* Mirrors node/libs/roles/src/validator/messages/schedule.rs:311-331:     *)
(*   max_faulty_weight(n) = (n-1)/5, quorum = n-f, subquorum = n-3f.       *)
(* The theorem is proved for ALL naturals by TLAPS (SMT); TLC re-checks the *)
(* same conjunction on 1..MaxN as a guard against a typo mismatch.         *)
(***************************************************************************)
EXTENDS Naturals

FaultyOf(n) == (n - 1) \div 5      \* tolerated faulty weight
QuorumOf(n) == n - FaultyOf(n)            \* commit / timeout quorum
SubQuorumOf(n) == n - 3 * FaultyOf(n)        \* re-proposal sub-quorum

(* The statement of C07, one conjunct per clause of the property:           *)
Good(n) ==
    /\ FaultyOf(n) \in Nat
    /\ 5 * FaultyOf(n) + 1 <= n             \* n >= 5f+1
    /\ n < 5 * FaultyOf(n) + 6              \* f is the largest such value (characterises f)
    /\ 3 * FaultyOf(n) <= n                 \* n-3f does not underflow
    /\ FaultyOf(n) <= n                     \* n-f does not underflow
    /\ 2 * QuorumOf(n) - n > FaultyOf(n)           \* two quorums share more than f weight
    /\ 2 * QuorumOf(n) >= n                 \* (the subtraction above is in Nat)
    /\ 2 * QuorumOf(n) - n - FaultyOf(n) >= SubQuorumOf(n)   \* commit ∩ timeout quorum has >= subquorum correct weight
    /\ 2 * FaultyOf(n) < SubQuorumOf(n)               \* conflicting reporters (<= 2f) stay below the sub-quorum
    /\ QuorumOf(n) >= 1 /\ QuorumOf(n) <= n
    /\ SubQuorumOf(n) >= 1 /\ SubQuorumOf(n) <= n

(* Every intermediate value of the three computations lies in 0..n, so none *)
(* overflows a 64-bit word when n fits in one: n-1, (n-1) div 5, 3*f, n-f,  *)
(* n-3f.                                                                   *)
Bounded(n) ==
    /\ n - 1 \in 0..n
    /\ FaultyOf(n) \in 0..n
    /\ 3 * FaultyOf(n) \in 0..n
    /\ QuorumOf(n) \in 0..n
    /\ SubQuorumOf(n) \in 0..n

THEOREM Thresholds == \A n \in Nat : n >= 1 => Good(n) /\ Bounded(n)
  BY DEF Good, Bounded, FaultyOf, QuorumOf, SubQuorumOf

(* Uniqueness: 5f+1 <= n < 5f+6 pins f, so any function satisfying Good is F *)
THEOREM Characterisation ==
    \A n \in Nat : \A f \in Nat : (n >= 1 /\ 5 * f + 1 <= n /\ n < 5 * f + 6) => f = FaultyOf(n)
  BY DEF FaultyOf
=============================================================================

----------------------------- MODULE MC_Chonky -----------------------------
(* TLC wrapper of ChonkyBFT.tla: bounds (views, crashes, chain length), VIEW hiding the ghost lastAct. *)
EXTENDS ChonkyBFT
CONSTANTS MaxView, MaxCrash, MaxBlocks

W3111 == <<3,1,1,1>>
W111111 == <<1,1,1,1,1,1>>
W222221 == <<2,2,2,2,2,1>>

AnyPayload(v) == Payloads
\* one honest choice per view, alternating, so that successive honest leaders conflict
Alternating(v) == IF v % 2 = 1 THEN {"p"} ELSE {"q"}

MCView == <<rs, store, dur, watch, net, ncrash, dbv>>

Bound ==
    /\ \A r \in Correct : rs[r].view <= MaxView /\ Len(store[r]) <= MaxBlocks
    /\ ncrash <= MaxCrash

NextMC == IF MaxCrash = 0 THEN NextNoCrash ELSE Next
SpecMC == Init /\ [][NextMC]_vars
=============================================================================

CONSTANTS
  Validators = {1,2,3,4}
  Weight <- W3111
  Correct = {1,2,3}
  Faulty = {4}
  Payloads = {"p","q"}
  BadPayloads = {}
  Weaken = "high_vote_tally_by_view"
  MaxView = 3
  ViewCap = 3
  HonestPayloads <- Alternating
  EnableLeaderNV = FALSE
  MaxCrash = 0
  MaxBlocks = 2
INIT InitView1
NEXT NextMC
VIEW MCView
CONSTRAINT Bound
INVARIANTS Agreement

CONSTANTS Validators = {1,2,3,4,5,6} Weight <- W111111 BadPayloads = {} Weaken = "none" Nn = 1 Vv = 2 Mode = "tablesmall"
INIT Init
NEXT Next

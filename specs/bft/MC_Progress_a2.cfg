CONSTANTS
  Validators = {1,2,3,4}
  Weight <- W3111
  Correct = {1,3,4}
  Faulty = {2}
  Payloads = {"p"}
  BadPayloads = {}
  Weaken = "none"
  MaxView = 5
  ViewCap = 6
  HonestPayloads <- AnyPayload
  EnableLeaderNV = FALSE
  Target = 2
SPECIFICATION SpecG1
CONSTRAINT Bound
INVARIANTS BoundedProgress
PROPERTIES Progress
CHECK_DEADLOCK FALSE

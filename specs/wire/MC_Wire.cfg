CONSTANTS MaxLen = 2
INIT Init
NEXT Next

------------------------------ MODULE WireCanon ------------------------------
(***************************************************************************)
(* Canonical wire form (property C09, canonical part):                      *)
(*   protobuf/src/proto_fmt.rs:167-252 (read_fields, canonical_raw).        *)
(* An abstract serialisation is a sequence of entries [f, w, v]:            *)
(*   f: field number, w: wire type "V" (varint) | "I32" | "LEN",            *)
(*   v: a scalar (Nat), or for LEN: [t |-> "bytes", b |-> atom]             *)
(*                                | [t |-> "msg", m |-> serialisation]      *)
(*                                | [t |-> "packed", s |-> Seq(scalar)]     *)
(* The schema gives for each known field its kind and whether it repeats.   *)
(* Test schema (every field shape of the real schemas):                     *)
(*   1: optional varint   2: optional fixed32   4: optional bytes           *)
(*   5: optional message (recursive)   6: repeated varint                   *)
(*   7: repeated message (recursive)                                        *)
(***************************************************************************)
EXTENDS Naturals, Sequences, FiniteSets

Schema == [f \in {1, 2, 4, 5, 6, 7} |->
             CASE f = 1 -> [kind |-> "V", rep |-> FALSE]
               [] f = 2 -> [kind |-> "I32", rep |-> FALSE]
               [] f = 4 -> [kind |-> "bytes", rep |-> FALSE]
               [] f = 5 -> [kind |-> "msg", rep |-> FALSE]
               [] f = 6 -> [kind |-> "V", rep |-> TRUE]
               [] f = 7 -> [kind |-> "msg", rep |-> TRUE]]
Known(f) == f \in DOMAIN Schema
Scalar(f) == Schema[f].kind \in {"V", "I32"}

(* values contributed by one entry to its field: a sequence (a packed chunk contributes all its elements, possibly none) *)
EntryOK(e) ==
    /\ Known(e.f)
    /\ IF Scalar(e.f) THEN e.w = Schema[e.f].kind \/ (e.w = "LEN" /\ e.v.t = "packed")
       ELSE e.w = "LEN" /\ e.v.t = (IF Schema[e.f].kind = "msg" THEN "msg" ELSE "bytes")

RECURSIVE Valid(_)
RECURSIVE FieldVals(_, _)
(* list of values of field f in serialisation m, in order of appearance *)
FieldVals(m, f) ==
    IF m = <<>> THEN <<>>
    ELSE LET e == Head(m) IN
         (IF e.f # f THEN <<>>
          ELSE IF e.w = "LEN" /\ e.v.t = "packed" THEN e.v.s
          ELSE IF e.w = "LEN" THEN <<e.v>> ELSE <<e.v>>) \o FieldVals(Tail(m), f)
Valid(m) ==
    /\ \A i \in 1..Len(m) : EntryOK(m[i]) /\ (m[i].w = "LEN" /\ m[i].v.t = "msg" => Valid(m[i].v.m))
    /\ \A f \in DOMAIN Schema : ~Schema[f].rep => Len(FieldVals(m, f)) <= 1

(* Canonical form: ascending field numbers; a scalar field with several values as ONE packed chunk, with one value as a  *)
(* plain entry, with none (only empty packed chunks) omitted; LEN fields one entry per value, nested messages canonical. *)
RECURSIVE Canonical(_)
RECURSIVE CanonField(_, _)
CanonVals(vals) == [i \in 1..Len(vals) |-> IF vals[i].t = "msg" THEN [t |-> "msg", m |-> Canonical(vals[i].m)] ELSE vals[i]]
CanonField(m, f) ==
    LET vals == FieldVals(m, f) IN
    IF vals = <<>> THEN <<>>
    ELSE IF Scalar(f) THEN (IF Len(vals) = 1 THEN <<[f |-> f, w |-> Schema[f].kind, v |-> vals[1]]>>
                             ELSE <<[f |-> f, w |-> "LEN", v |-> [t |-> "packed", s |-> vals]]>>)
    ELSE LET cv == CanonVals(vals) IN [i \in 1..Len(cv) |-> [f |-> f, w |-> "LEN", v |-> cv[i]]]
Canonical(m) == CanonField(m, 1) \o CanonField(m, 2) \o CanonField(m, 4) \o CanonField(m, 5) \o CanonField(m, 6) \o CanonField(m, 7)

(* the abstract value denoted: per field the list of values, nested messages by their own value *)
RECURSIVE Value(_)
Value(m) == [f \in DOMAIN Schema |->
               LET vals == FieldVals(m, f) IN
               [i \in 1..Len(vals) |-> IF Scalar(f) THEN vals[i] ELSE IF vals[i].t = "msg" THEN [t |-> "msg", val |-> Value(vals[i].m)] ELSE vals[i]]]

(* Spelling. Every varint on the wire — a tag, a length prefix, a varint value (plain or inside a packed chunk) — may be written   *)
(* with redundant continuation bytes (0x80 .. 0x00); decoders accept it. The abstract serialisation, hence Valid, Value and       *)
(* Canonical, do not depend on the spelling: the canonical bytes are the MINIMAL spelling of Canonical(m). A table case is a      *)
(* pair (m, spelling); the harness writes m in that spelling and expects the same canonical bytes as for the minimal one.         *)
Spellings == {"min", "padvalues", "padtags", "padlens", "padall"}

(* Properties *)
CanonIsSer(m) == Valid(m) => (Valid(Canonical(m)) /\ Value(Canonical(m)) = Value(m))
CanonIdem(m) == Valid(m) => Canonical(Canonical(m)) = Canonical(m)
CanonUnique(m1, m2) == (Valid(m1) /\ Valid(m2) /\ Value(m1) = Value(m2)) => Canonical(m1) = Canonical(m2)
=============================================================================

------------------------------ MODULE MC_Wire ------------------------------
EXTENDS WireCanon, TLC, Json
CONSTANTS MaxLen
Inner == {<<>>, <<[f |-> 1, w |-> "V", v |-> 1]>>, <<[f |-> 6, w |-> "V", v |-> 2], [f |-> 1, w |-> "V", v |-> 1]>>, <<[f |-> 6, w |-> "LEN", v |-> [t |-> "packed", s |-> <<>>]]>>}
Entries ==
    {[f |-> 1, w |-> "V", v |-> 1], [f |-> 1, w |-> "V", v |-> 2], [f |-> 1, w |-> "LEN", v |-> [t |-> "packed", s |-> <<3>>]],
     [f |-> 2, w |-> "I32", v |-> 7],
     [f |-> 4, w |-> "LEN", v |-> [t |-> "bytes", b |-> "x"]],
     [f |-> 6, w |-> "V", v |-> 1], [f |-> 6, w |-> "V", v |-> 2],
     [f |-> 6, w |-> "LEN", v |-> [t |-> "packed", s |-> <<>>]], [f |-> 6, w |-> "LEN", v |-> [t |-> "packed", s |-> <<1>>]],
     [f |-> 6, w |-> "LEN", v |-> [t |-> "packed", s |-> <<2, 1>>]],
     [f |-> 9, w |-> "V", v |-> 1],                                  \* unknown field
     [f |-> 1, w |-> "I32", v |-> 1],                                \* wrong wire type
     [f |-> 4, w |-> "V", v |-> 1]}                                  \* wrong wire type for a bytes field
    \cup {[f |-> 5, w |-> "LEN", v |-> [t |-> "msg", m |-> x]] : x \in Inner}
    \cup {[f |-> 7, w |-> "LEN", v |-> [t |-> "msg", m |-> x]] : x \in Inner}
Sers == UNION {[1..k -> Entries] : k \in 0..MaxLen}
ASSUME \A m \in Sers : CanonIsSer(m) /\ CanonIdem(m)
ASSUME \A m1 \in Sers : Valid(m1) => \A m2 \in Sers : CanonUnique(m1, m2)
ASSUME \A m \in Sers : \A sp \in Spellings : (sp = "min" \/ m # <<>>) => PrintT(<<"CASE", ToJson([ser |-> m, spell |-> sp, valid |-> Valid(m), canon |-> IF Valid(m) THEN Canonical(m) ELSE <<>>])>>)
VARIABLE x
Init == x = 0
Next == UNCHANGED x
=============================================================================

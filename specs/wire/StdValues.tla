------------------------------ MODULE StdValues ------------------------------
(***************************************************************************)
(* C09, losslessness of the hand-written conversions of standard types      *)
(* (std_conv.rs): the boundary classes of every such type. The              *)
(* specification of the conversion is the identity: decode(encode(v)) = v   *)
(* and encode(decode(encode(v))) = encode(v) for EVERY class - in           *)
(* particular an address is never normalised, a length never rounded.       *)
(* The table is replayed on the real ProtoFmt implementations (T3).         *)
(***************************************************************************)
EXTENDS Integers, Sequences, TLC, Json
Families == {"v4_zero", "v4_loop", "v4_bcast", "v4_plain", "v6_unspec", "v6_loop", "v6_plain", "v6_mapped_v4", "v6_compat_v4", "v6_mapped_zero", "v6_linklocal", "v6_max"}
Ports == {0, 1, 80, 65535}
SockAddrs == [kind : {"sockaddr"}, family : Families, port : Ports]
Secs == {"0", "1", "-1", "max", "min", "1e9"}
Nanos == {0, 1, 999999999}
Durations == [kind : {"duration"}, secs : Secs, nanos : Nanos, neg : BOOLEAN]
Utcs == [kind : {"utc"}, secs : Secs, nanos : Nanos]
BitLens == {0, 1, 7, 8, 9, 63, 64, 65, 1000}
BitVecs == [kind : {"bitvec"}, len : BitLens, pattern : {"zeros", "ones", "alt", "last"}]
Rates == [kind : {"rate"}, burst : {0, 1, 1000000}, refresh : {"0", "1", "max"}]
Cases == SockAddrs \cup Durations \cup Utcs \cup BitVecs \cup Rates
ASSUME \A c \in Cases : PrintT(<<"CASE", ToJson(c @@ [lossless |-> TRUE])>>)
VARIABLE x
Init == x = 0
Next == UNCHANGED x
=============================================================================

------------------------------ MODULE StdValues ------------------------------
(***************************************************************************)
(* C09, losslessness of the hand-written conversions of standard types      *)
(* (std_conv.rs): the boundary classes of every such type. The              *)
(* specification of the conversion is the identity: decode(encode(v)) = v   *)
(* and encode(decode(encode(v))) = encode(v) for EVERY class - in           *)
(* particular an address is never normalised, a length never rounded.       *)
(* The table is replayed on the real ProtoFmt implementations (T3).         *)
(***************************************************************************)
EXTENDS Integers, Sequences, TLC, Json
Families == {"v4_zero", "v4_loop", "v4_bcast", "v4_plain", "v6_unspec", "v6_loop", "v6_plain", "v6_mapped_v4", "v6_compat_v4", "v6_mapped_zero", "v6_linklocal", "v6_max"}
Ports == {0, 1, 80, 65535}
SockAddrs == [kind : {"sockaddr"}, family : Families, port : Ports]
Secs == {"0", "1", "-1", "max", "min", "1e9"}
Nanos == {0, 1, 999999999}
Durations == [kind : {"duration"}, secs : Secs, nanos : Nanos, neg : BOOLEAN]
Utcs == [kind : {"utc"}, secs : Secs, nanos : Nanos]
BitLens == {0, 1, 7, 8, 9, 63, 64, 65, 1000}
BitVecs == [kind : {"bitvec"}, len : BitLens, pattern : {"zeros", "ones", "alt", "last"}]   \* also replayed as a signer set, alone and inside a commit certificate
Rates == [kind : {"rate"}, burst : {0, 1, 1000000}, refresh : {"0", "1", "max"}]
(* The hand-written conversions of the consensus message types (roles/src/validator/messages): presence vs emptiness of optional   *)
(* and repeated fields, extreme numbers. "empty" = present with zero length - NOT the same value as "absent".                      *)
Proposals == [kind : {"proposal"}, payload : {"absent", "empty", "one_byte", "large"}, just : {"commit", "timeout"}]
Timeouts == [kind : {"timeout"}, hv : BOOLEAN, hq : BOOLEAN, view : {"0", "max"}]
Commits == [kind : {"commit"}, view : {"0", "max"}, number : {"0", "max"}, epoch : {"0", "max"}]
Blocks == [kind : {"block"}, payload : {"empty", "one_byte", "large"}]
TQCs == [kind : {"tqc"}, groups : {0, 1, 2}]
(* The vote map of a timeout certificate is keyed by the report (ReplicaTimeout). Two reports that differ in ONE leaf - down to the bytes of the    *)
(* aggregate signature of the nested commit certificate - are two keys: map identity (equality) and map order must agree, the certificate holds  *)
(* both, its bytes do not depend on the insertion order, and it round-trips.                                                                     *)
TQCNear == [kind : {"tqc_near"}, leaf : {"hv_presence", "hv_view", "hv_number", "hv_payload", "hq_presence", "hq_view", "hq_number", "hq_signers", "hq_signature"}]
NetAddrs == [kind : {"netaddr"}, version : {"0", "max"}, ts : {"0", "max"}]
Geneses == [kind : {"genesis"}, schedule : BOOLEAN, first : {"0", "max"}]
States == [kind : {"replica_state"}, proposals : {0, 1, 2}, payload : {"empty", "one_byte"}, certs : BOOLEAN, phase : {"prepare", "commit", "timeout"}]   \* every value of every enumeration
Schedules == [kind : {"schedule"}, mode : {"rr", "weighted"}, freq : {"0", "1", "max"}, nonleader : BOOLEAN]
Cases == Schedules \cup SockAddrs \cup Durations \cup Utcs \cup BitVecs \cup Rates \cup Proposals \cup Timeouts \cup Commits \cup Blocks \cup TQCs \cup TQCNear \cup NetAddrs \cup Geneses \cup States
ASSUME \A c \in Cases : PrintT(<<"CASE", ToJson(c @@ [lossless |-> TRUE])>>)
VARIABLE x
Init == x = 0
Next == UNCHANGED x
=============================================================================

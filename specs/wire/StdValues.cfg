INIT Init
NEXT Next
